// package-dir: internal/logging
// Fails on /repo before 888b0ec ("fix: echo a client-supplied request/trace ID exactly as the backend
// sees it"), passes from that commit on.  Goes through a real listener: net/http strips ASCII blanks
// from header values, U+00A0 survives.
package logging

import (
	"net/http"
	"net/http/httptest"
	"testing"

	"github.com/0xReLogic/Helios/internal/config"
)

func TestSuppliedIDSeenByBackendEqualsEcho(t *testing.T) {
	cfg := config.LoggingConfig{}
	cfg.RequestID.Enabled = true
	var seen string
	h := RequestContextMiddleware(cfg)(http.HandlerFunc(func(w http.ResponseWriter, r *http.Request) {
		seen = r.Header.Get("X-Request-ID")
	}))
	srv := httptest.NewServer(h)
	defer srv.Close()
	req, _ := http.NewRequest("GET", srv.URL, nil)
	req.Header.Set("X-Request-ID", " abc ")
	resp, err := http.DefaultClient.Do(req)
	if err != nil {
		t.Fatal(err)
	}
	resp.Body.Close()
	if got := resp.Header.Get("X-Request-ID"); got != seen {
		t.Fatalf("client got %q, backend saw %q", got, seen)
	}
}
