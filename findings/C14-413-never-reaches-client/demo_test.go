// package-dir: internal/plugins
// Fails (client gets EOF) before the fix 'size_limit sends its 413 before the proxy aborts the connection', passes after.
package plugins

import (
	"net/http"
	"net/http/httptest"
	"net/http/httputil"
	"net/url"
	"strings"
	"testing"
	"time"
)

func TestOversizedResponseIsAnswered413ThroughProxy(t *testing.T) {
	backend := httptest.NewServer(http.HandlerFunc(func(w http.ResponseWriter, r *http.Request) {
		w.Write([]byte(strings.Repeat("x", 200)))
	}))
	defer backend.Close()
	u, _ := url.Parse(backend.URL)
	mw, err := newSizeLimitMiddleware("size_limit", map[string]interface{}{"max_response_body": 100})
	if err != nil {
		t.Fatal(err)
	}
	front := httptest.NewServer(mw(httputil.NewSingleHostReverseProxy(u)))
	defer front.Close()
	resp, err := (&http.Client{Timeout: 5 * time.Second}).Get(front.URL)
	if err != nil {
		t.Fatalf("client got no response at all: %v", err)
	}
	defer resp.Body.Close()
	if resp.StatusCode != http.StatusRequestEntityTooLarge {
		t.Fatalf("status %d, want 413", resp.StatusCode)
	}
}
