// package-dir: internal/ratelimiter
// Fails (10 admitted) on /repo before 5b13dd1 ("fix: rate limiter does not spend from a bucket the
// sweep has evicted"), passes from that commit on.  Real goroutines; the interleaving is forced by
// parking them on the bucket's own mutex, no hook in production code.
package ratelimiter

import (
	"sync"
	"sync/atomic"
	"testing"
	"time"
)

// A client that has been away for over an hour comes back with a burst exactly while the sweep is
// looking at its bucket.  max_tokens=5: at most 5 requests of the burst may pass.
func TestSweepRacingWithReturningClient(t *testing.T) {
	rl := NewTokenBucketRateLimiter(5, time.Second)
	rl.Allow("c") // bucket exists
	v, _ := rl.buckets.Load("c")
	b := v.(*bucket)
	b.mutex.Lock()
	b.lastRefill = b.lastRefill.Add(-2 * time.Hour) // idle for two hours (virtual time)

	// the sweep reaches the bucket first and waits for its lock
	sweepDone := make(chan struct{})
	go func() { rl.cleanup(); close(sweepDone) }()
	time.Sleep(50 * time.Millisecond)

	// the burst arrives: five requests look the bucket up and wait for its lock behind the sweep
	var admitted int32
	var wg sync.WaitGroup
	for i := 0; i < 5; i++ {
		wg.Add(1)
		go func() {
			defer wg.Done()
			if rl.Allow("c") {
				atomic.AddInt32(&admitted, 1)
			}
		}()
	}
	time.Sleep(50 * time.Millisecond)
	b.mutex.Unlock()
	wg.Wait()
	<-sweepDone

	// ... and the rest of the burst follows immediately
	for i := 0; i < 5; i++ {
		if rl.Allow("c") {
			atomic.AddInt32(&admitted, 1)
		}
	}
	if admitted > 5 {
		t.Fatalf("burst of 10 requests: %d admitted, max_tokens is 5", admitted)
	}
}
