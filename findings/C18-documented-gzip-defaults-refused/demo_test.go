// package-dir: internal/plugins
// Fails before the fix 'gzip plugin applies the documented defaults for level and min_size', passes after.
package plugins

import "testing"

func TestGzipEntryRelyingOnDocumentedDefaultsStarts(t *testing.T) {
	level, minSize, _, err := parseGzipConfig(map[string]interface{}{"content_types": []interface{}{"text/"}})
	if err != nil {
		t.Fatalf("README documents level (default: 5) and min_size (default: 1024), but an entry without them is refused: %v", err)
	}
	if level != 5 || minSize != 1024 {
		t.Fatalf("defaults are %d/%d, documented 5/1024", level, minSize)
	}
}
