// package-dir: internal/loadbalancer
// Fails before the fix 'RemoveBackend forgets the passive failure count of the removed name', passes after.
package loadbalancer

import (
	"net/http"
	"net/http/httptest"
	"testing"

	"github.com/0xReLogic/Helios/internal/config"
)

func TestReAddedBackendStartsWithCleanRecord(t *testing.T) {
	fail := httptest.NewServer(http.HandlerFunc(func(w http.ResponseWriter, r *http.Request) { w.WriteHeader(500) }))
	defer fail.Close()
	cfg := &config.Config{}
	cfg.LoadBalancer.Strategy = "round_robin"
	cfg.HealthChecks.Passive.Enabled = true
	cfg.HealthChecks.Passive.UnhealthyThreshold = 3
	cfg.HealthChecks.Passive.UnhealthyTimeout = 3600
	lb, err := NewLoadBalancer(cfg)
	if err != nil {
		t.Fatal(err)
	}
	defer lb.Stop()
	add := func() {
		if err := lb.AddBackend(config.BackendConfig{Name: "b1", Address: fail.URL}); err != nil {
			t.Fatal(err)
		}
	}
	hit := func() { lb.ServeHTTP(httptest.NewRecorder(), httptest.NewRequest("GET", "/", nil)) }
	add()
	hit()
	hit() // two strikes, threshold is three
	lb.RemoveBackend("b1")
	add() // a new registration under the same name
	hit() // its first failure
	if b := lb.strategy.GetBackends()[0]; !lb.IsBackendHealthy(b) {
		t.Fatal("the re-added backend was ejected after one failure (threshold 3): it inherited the strikes of the backend removed before")
	}
}
