// package-dir: internal/loadbalancer
// Fails before the fix 'a request answered "no healthy backend" is not a success for the circuit
// breaker', passes after.
package loadbalancer

import (
	"net/http"
	"net/http/httptest"
	"testing"
	"time"

	"github.com/0xReLogic/Helios/internal/circuitbreaker"
	"github.com/0xReLogic/Helios/internal/config"
)

func TestHalfOpenBreakerDoesNotCloseOnNoBackendAnswers(t *testing.T) {
	hits := 0
	backend := httptest.NewServer(http.HandlerFunc(func(w http.ResponseWriter, r *http.Request) { hits++; w.WriteHeader(500) }))
	defer backend.Close()
	cfg := &config.Config{}
	cfg.LoadBalancer.Strategy = "round_robin"
	cfg.CircuitBreaker.Enabled = true
	cfg.CircuitBreaker.FailureThreshold = 2
	cfg.CircuitBreaker.SuccessThreshold = 2
	cfg.CircuitBreaker.MaxRequests = 2
	cfg.CircuitBreaker.TimeoutSeconds = 1
	cfg.CircuitBreaker.IntervalSeconds = 60
	cfg.HealthChecks.Passive.Enabled = true
	cfg.HealthChecks.Passive.UnhealthyThreshold = 2
	cfg.HealthChecks.Passive.UnhealthyTimeout = 3600
	lb, err := NewLoadBalancer(cfg)
	if err != nil {
		t.Fatal(err)
	}
	defer lb.Stop()
	if err := lb.AddBackend(config.BackendConfig{Name: "b", Address: backend.URL}); err != nil {
		t.Fatal(err)
	}
	get := func() int {
		rec := httptest.NewRecorder()
		lb.ServeHTTP(rec, httptest.NewRequest("GET", "/", nil))
		return rec.Code
	}
	get()
	get() // two 500s: the breaker opens and the only backend is ejected for an hour
	if lb.circuitBreaker.State() != circuitbreaker.StateOpen {
		t.Fatalf("setup: breaker is %v", lb.circuitBreaker.State())
	}
	time.Sleep(1100 * time.Millisecond) // breaker timeout elapses: half-open
	before := hits
	get()
	get() // two trial requests, both answered 503 "no healthy backend"
	if hits != before {
		t.Fatalf("setup: the ejected backend was contacted")
	}
	if st := lb.circuitBreaker.State(); st == circuitbreaker.StateClosed {
		t.Fatalf("the breaker closed after two trial requests that contacted no backend at all")
	}
}
