// package-dir: internal/loadbalancer
// Fails before the fix 'flush backend bytes through as they arrive', passes after.
package loadbalancer

import (
	"io"
	"net/http"
	"net/http/httptest"
	"testing"
	"time"

	"github.com/0xReLogic/Helios/internal/config"
)

// The backend declares Content-Length 10, writes 5 bytes, flushes, and finishes 1.5 s later.  A
// client talking to the backend directly has the first 5 bytes at once.  Through Helios they must
// not wait for the response to end (C01: "bytes the backend flushes before it finishes reach the
// client without waiting for the response to end").
func TestFlushedBytesOfKnownLengthResponseArriveAtOnce(t *testing.T) {
	backend := httptest.NewServer(http.HandlerFunc(func(w http.ResponseWriter, r *http.Request) {
		w.Header().Set("Content-Length", "10")
		w.Header().Set("Content-Type", "application/octet-stream")
		_, _ = io.WriteString(w, "first")
		w.(http.Flusher).Flush()
		time.Sleep(1500 * time.Millisecond)
		_, _ = io.WriteString(w, "final")
	}))
	defer backend.Close()

	cfg := &config.Config{}
	cfg.LoadBalancer.Strategy = "round_robin"
	lb, err := NewLoadBalancer(cfg)
	if err != nil {
		t.Fatal(err)
	}
	defer lb.Stop()
	if err := lb.AddBackend(config.BackendConfig{Name: "b1", Address: backend.URL}); err != nil {
		t.Fatal(err)
	}
	front := httptest.NewServer(lb)
	defer front.Close()

	start := time.Now()
	resp, err := http.Get(front.URL + "/")
	if err != nil {
		t.Fatal(err)
	}
	defer resp.Body.Close()
	buf := make([]byte, 5)
	if _, err := io.ReadFull(resp.Body, buf); err != nil {
		t.Fatal(err)
	}
	if d := time.Since(start); d > 700*time.Millisecond {
		t.Errorf("the 5 bytes the backend flushed at once reached the client after %v: they waited for the end of the response", d)
	}
	rest, _ := io.ReadAll(resp.Body)
	if string(buf)+string(rest) != "firstfinal" {
		t.Errorf("body %q", string(buf)+string(rest))
	}
}
