// package-dir: internal/loadbalancer
// Fails before the fix 'a request the client abandoned is not a strike against the backend', passes after.
package loadbalancer

import (
	"bufio"
	"io"
	"net"
	"net/http"
	"net/http/httptest"
	"strings"
	"testing"
	"time"

	"github.com/0xReLogic/Helios/internal/config"
)

// One healthy backend serving a large download.  Three clients in a row read the beginning and hang
// up.  No backend misbehaved, so the backend must stay eligible and the next ordinary request must
// be served (C04: ejected only after unhealthy_threshold failed - 5xx or unreachable - responses;
// C03: after a client disconnect mid-response a request to a healthy backend succeeds normally).
func TestClientHangUpsDoNotEjectHealthyBackend(t *testing.T) {
	chunk := []byte(strings.Repeat("x", 64<<10))
	backend := httptest.NewServer(http.HandlerFunc(func(w http.ResponseWriter, r *http.Request) {
		if r.URL.Path == "/big" {
			for i := 0; i < 2048; i++ { // 128 MB, far more than socket buffers hold
				if _, err := w.Write(chunk); err != nil {
					return
				}
			}
			return
		}
		_, _ = io.WriteString(w, "ok")
	}))
	defer backend.Close()

	cfg := &config.Config{}
	cfg.LoadBalancer.Strategy = "round_robin"
	cfg.HealthChecks.Passive.Enabled = true
	cfg.HealthChecks.Passive.UnhealthyThreshold = 3
	cfg.HealthChecks.Passive.UnhealthyTimeout = 3600
	lb, err := NewLoadBalancer(cfg)
	if err != nil {
		t.Fatal(err)
	}
	defer lb.Stop()
	if err := lb.AddBackend(config.BackendConfig{Name: "b1", Address: backend.URL}); err != nil {
		t.Fatal(err)
	}
	front := httptest.NewServer(lb)
	defer front.Close()

	for i := 0; i < 3; i++ {
		conn, err := net.Dial("tcp", front.Listener.Addr().String())
		if err != nil {
			t.Fatal(err)
		}
		_, _ = io.WriteString(conn, "GET /big HTTP/1.1\r\nHost: x\r\n\r\n")
		br := bufio.NewReader(conn)
		if _, err := io.ReadFull(br, make([]byte, 100<<10)); err != nil {
			t.Fatalf("download %d did not start: %v", i, err)
		}
		_ = conn.Close() // the client navigates away
		// wait until the balancer has finished with this request
		deadline := time.Now().Add(10 * time.Second)
		for lb.strategy.GetBackends()[0].GetActiveConnections() != 0 {
			if time.Now().After(deadline) {
				t.Fatal("the abandoned request never ended")
			}
			time.Sleep(10 * time.Millisecond)
		}
	}

	if b := lb.strategy.GetBackends()[0]; !lb.IsBackendHealthy(b) {
		t.Error("three clients that hung up mid-download ejected a backend that answered every request correctly")
	}
	resp, err := http.Get(front.URL + "/")
	if err != nil {
		t.Fatal(err)
	}
	defer resp.Body.Close()
	if resp.StatusCode != http.StatusOK {
		t.Errorf("ordinary request after the hang-ups: status %d, want 200", resp.StatusCode)
	}
}
