// package-dir: cmd/helios
// KNOWN FINDING (not repaired): fails on the current tree.  Every configured timeout is one second,
// the backend sends its headers and 1000 of 100000 body bytes and then stalls; the proxied request
// is still pending six seconds later.  server.timeouts.handler ("end-to-end request timeout",
// README: default 30s) is validated and never applied; nothing else bounds the body phase.
package main

import (
	"net"
	"net/http"
	"net/http/httptest"
	"testing"
	"time"

	"github.com/0xReLogic/Helios/internal/config"
	"github.com/0xReLogic/Helios/internal/loadbalancer"
)

func TestMidBodyStallEndsWithinConfiguredTimeouts(t *testing.T) {
	release := make(chan struct{})
	backend := httptest.NewServer(http.HandlerFunc(func(w http.ResponseWriter, r *http.Request) {
		w.Header().Set("Content-Length", "100000")
		_, _ = w.Write(make([]byte, 1000))
		w.(http.Flusher).Flush()
		select { // stall mid-body
		case <-release:
		case <-r.Context().Done():
		}
	}))
	defer backend.Close()
	defer close(release)

	cfg := &config.Config{}
	cfg.LoadBalancer.Strategy = "round_robin"
	cfg.Server.Timeouts = config.TimeoutConfig{Read: 1, Write: 1, Idle: 1, Handler: 1, Shutdown: 1, BackendDial: 1, BackendRead: 1, BackendIdle: 1}
	cfg.Backends = []config.BackendConfig{{Name: "b1", Address: backend.URL}}
	cfg.Server.Port = 8080 // not listened on: the test serves on a loopback listener of its own
	if err := cfg.Validate(); err != nil {
		t.Fatal(err)
	}
	lb, err := loadbalancer.NewLoadBalancer(cfg)
	if err != nil {
		t.Fatal(err)
	}
	defer lb.Stop()
	handler, err := buildHandler(cfg, lb)
	if err != nil {
		t.Fatal(err)
	}
	srv := createHTTPServer(cfg, handler)
	ln, err := net.Listen("tcp", "127.0.0.1:0")
	if err != nil {
		t.Fatal(err)
	}
	go func() { _ = srv.Serve(ln) }()
	defer srv.Close()

	done := make(chan error, 1)
	go func() {
		resp, err := (&http.Client{}).Get("http://" + ln.Addr().String() + "/")
		if err == nil {
			buf := make([]byte, 4096)
			for err == nil {
				_, err = resp.Body.Read(buf)
			}
			resp.Body.Close()
		}
		done <- err
	}()
	select {
	case <-done: // error response or closed connection: the request ended
	case <-time.After(6 * time.Second):
		t.Fatal("every configured timeout is 1s, the backend stalled mid-body, and the request is still pending after 6s")
	}
}
