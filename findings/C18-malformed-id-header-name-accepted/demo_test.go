// package-dir: cmd/helios
// Fails before the fix 'validation refuses an ID header name that is not an HTTP field name', passes
// after.  logging.request_id.header: "X Request ID" passed validation; the backend transport refuses a
// request carrying such a field name, so every proxied request was answered 502: an accepted
// configuration that does not yield a working proxy (C18).
package main

import (
	"net/http"
	"net/http/httptest"
	"testing"

	"github.com/0xReLogic/Helios/internal/config"
	"github.com/0xReLogic/Helios/internal/loadbalancer"
)

func TestMalformedIDHeaderNameIsRefusedOrHarmless(t *testing.T) {
	backend := httptest.NewServer(http.HandlerFunc(func(w http.ResponseWriter, r *http.Request) {}))
	defer backend.Close()
	cfg := &config.Config{}
	cfg.Server.Port = 8080
	cfg.Backends = []config.BackendConfig{{Name: "a", Address: backend.URL}}
	cfg.Logging.RequestID.Enabled = true
	cfg.Logging.RequestID.Header = "X Request ID"
	if err := cfg.Validate(); err != nil {
		return // refused with a clear error
	}
	lb, err := loadbalancer.NewLoadBalancer(cfg)
	if err != nil {
		t.Fatal(err)
	}
	defer lb.Stop()
	h, err := buildHandler(cfg, lb)
	if err != nil {
		t.Fatal(err)
	}
	rec := httptest.NewRecorder()
	h.ServeHTTP(rec, httptest.NewRequest("GET", "/", nil))
	if rec.Code != http.StatusOK {
		t.Fatalf("the configuration was accepted and an ordinary request to a healthy backend is answered %d", rec.Code)
	}
}
