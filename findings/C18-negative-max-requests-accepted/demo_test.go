// package-dir: internal/config
// Fails before the fix 'validation rejects a negative circuit breaker max_requests', passes after.
package config

import "testing"

func TestNegativeMaxRequestsIsRejected(t *testing.T) {
	c := &Config{}
	c.Server.Port = 8080
	c.Backends = []BackendConfig{{Name: "b", Address: "http://localhost:8081"}}
	c.LoadBalancer.Strategy = "round_robin"
	c.CircuitBreaker.Enabled = true
	c.CircuitBreaker.FailureThreshold = 5
	c.CircuitBreaker.SuccessThreshold = 2
	c.CircuitBreaker.TimeoutSeconds = 60
	c.CircuitBreaker.IntervalSeconds = 60
	c.CircuitBreaker.MaxRequests = -1
	if err := c.Validate(); err == nil {
		t.Fatal("max_requests: -1 is accepted; the balancer converts it to uint32(4294967295) half-open trials")
	}
}
