// package-dir: cmd/helios
// Fails before the fix 'validation refuses a metrics path without a leading slash', passes after.
package main

import (
	"fmt"
	"net/http"
	"testing"
	"time"

	"github.com/0xReLogic/Helios/internal/config"
	"github.com/0xReLogic/Helios/internal/loadbalancer"
)

func TestAcceptedMetricsPathIsServed(t *testing.T) {
	for i, path := range []string{"metrics", "stats/prometheus"} {
		cfg := &config.Config{}
		cfg.Server.Port = 8080
		cfg.Backends = []config.BackendConfig{{Name: "a", Address: "http://127.0.0.1:1"}}
		cfg.Metrics.Enabled = true
		cfg.Metrics.Port = 39191 + i
		cfg.Metrics.Path = path
		if err := cfg.Validate(); err != nil {
			continue // refused with a clear error: fine
		}
		lb, err := loadbalancer.NewLoadBalancer(cfg)
		if err != nil {
			t.Fatal(err)
		}
		setupMetricsServer(cfg, lb)
		base := fmt.Sprintf("http://127.0.0.1:%d", cfg.Metrics.Port)
		served := false
		for try := 0; try < 50 && !served; try++ {
			time.Sleep(20 * time.Millisecond)
			for _, u := range []string{base + "/" + path, base + path} {
				resp, err := http.Get(u)
				if err != nil {
					continue
				}
				resp.Body.Close()
				if resp.StatusCode == http.StatusOK {
					served = true
				}
			}
		}
		lb.Stop()
		if !served {
			t.Errorf("metrics.path %q passes validation, the metrics server starts, and no URL serves the metrics (404 on every path)", path)
		}
	}
}
