// package-dir: internal/loadbalancer
// Fails before the fix 'a successful probe does not re-admit a backend ejected while it was in flight', passes after.
package loadbalancer

import (
	"net/http"
	"net/http/httptest"
	"testing"
	"time"

	"github.com/0xReLogic/Helios/internal/config"
)

// A probe is in flight while client traffic ejects the backend; the probe then succeeds.
func TestProbeInFlightDoesNotCutWindowShort(t *testing.T) {
	release := make(chan struct{})
	backend := httptest.NewServer(http.HandlerFunc(func(w http.ResponseWriter, r *http.Request) {
		if r.URL.Path == "/health" {
			<-release
			w.WriteHeader(200)
			return
		}
		w.WriteHeader(500)
	}))
	defer backend.Close()
	cfg := &config.Config{}
	cfg.LoadBalancer.Strategy = "round_robin"
	cfg.HealthChecks.Active.Enabled = true
	cfg.HealthChecks.Active.Interval = 3600
	cfg.HealthChecks.Active.Timeout = 5
	cfg.HealthChecks.Active.Path = "/health"
	cfg.HealthChecks.Passive.Enabled = true
	cfg.HealthChecks.Passive.UnhealthyThreshold = 1
	cfg.HealthChecks.Passive.UnhealthyTimeout = 3600
	lb, err := NewLoadBalancer(cfg)
	if err != nil {
		t.Fatal(err)
	}
	defer lb.Stop()
	if err := lb.AddBackend(config.BackendConfig{Name: "b", Address: backend.URL}); err != nil {
		t.Fatal(err)
	}
	b := lb.strategy.GetBackends()[0]
	done := make(chan struct{})
	go func() { lb.checkBackendHealth(b); close(done) }() // the probe starts while b is healthy …
	time.Sleep(100 * time.Millisecond)
	rec := httptest.NewRecorder()
	lb.ServeHTTP(rec, httptest.NewRequest("GET", "/", nil)) // … a 500 ejects b for an hour …
	if lb.IsBackendHealthy(b) {
		t.Fatal("setup: backend was not ejected")
	}
	close(release) // … and the probe's 200 arrives
	select {
	case <-done:
	case <-time.After(5 * time.Second):
		t.Fatal("probe did not finish")
	}
	if lb.IsBackendHealthy(b) {
		t.Fatalf("backend is eligible again %v into a one hour unhealthy window", time.Until(b.UnhealthyUntil))
	}
}
