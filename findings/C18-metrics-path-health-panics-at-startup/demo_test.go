// package-dir: cmd/helios
// Fails before the fix 'validation refuses /health as the metrics path', passes after.
package main

import (
	"testing"

	"github.com/0xReLogic/Helios/internal/config"
	"github.com/0xReLogic/Helios/internal/loadbalancer"
)

func TestMetricsPathCannotCrashStartup(t *testing.T) {
	for _, path := range []string{"/health"} {
		cfg := &config.Config{}
		cfg.Server.Port = 8080
		cfg.Backends = []config.BackendConfig{{Name: "a", Address: "http://127.0.0.1:1"}}
		cfg.Metrics.Enabled = true
		cfg.Metrics.Port = 39091
		cfg.Metrics.Path = path
		if err := cfg.Validate(); err != nil {
			continue // refused with a clear error: fine
		}
		lb, err := loadbalancer.NewLoadBalancer(cfg)
		if err != nil {
			t.Fatal(err)
		}
		func() {
			defer lb.Stop()
			defer func() {
				if r := recover(); r != nil {
					t.Errorf("metrics.path %q passes validation and start-up panics: %v", path, r)
				}
			}()
			setupMetricsServer(cfg, lb)
		}()
	}
}
