// package-dir: internal/loadbalancer
// Fails before the fix 'hashing strategies trim the client address taken from X-Forwarded-For', passes after.
package loadbalancer

import (
	"fmt"
	"net/http"
	"net/url"
	"testing"
)

func TestForwardedForSpellingDoesNotMoveClient(t *testing.T) {
	for _, name := range []string{"ip_hash", "ip_hash_consistent"} {
		s := createStrategy(name)
		for i := 0; i < 7; i++ {
			u, _ := url.Parse(fmt.Sprintf("http://127.0.0.1:%d", 9000+i))
			s.AddBackend(&Backend{Name: fmt.Sprintf("b%d", i), URL: u, IsHealthy: true})
		}
		moved := 0
		for c := 0; c < 64; c++ {
			ip := fmt.Sprintf("203.0.113.%d", c)
			r1, _ := http.NewRequest("GET", "/", nil)
			r1.Header.Set("X-Forwarded-For", ip)
			r2, _ := http.NewRequest("GET", "/", nil)
			r2.Header.Set("X-Forwarded-For", ip+" , 10.0.0.1")
			if s.NextBackend(r1) != s.NextBackend(r2) {
				moved++
			}
		}
		if moved > 0 {
			t.Errorf("%s: %d of 64 clients go to another backend when their address is followed by \" , proxy\"", name, moved)
		}
	}
}
