// package-dir: cmd/helios
// Run with -race.  Shows that logStartupInfo and LoadBalancer.SetStrategy touch the same word of the
// shared *config.Config without a common lock (SetStrategy stores cfg.LoadBalancer.Strategy under
// lb.mutex, logStartupInfo reads it bare).  Before the fix main started the admin API server - from
// which SetStrategy is reachable - and only then called logStartupInfo, so a POST /v1/strategy served
// during start-up ran exactly this schedule.  The fix moves the start-up log in front of the servers;
// this test calls the two functions directly, so it keeps reporting the race and documents the
// schedule rather than passing afterwards: that the schedule no longer exists in main is what the
// static rule config-stable-after-start decides.
package main

import (
	"sync"
	"testing"

	"github.com/0xReLogic/Helios/internal/config"
	"github.com/0xReLogic/Helios/internal/loadbalancer"
)

func TestStartupLogRacesWithStrategySwitch(t *testing.T) {
	for round := 0; round < 20; round++ {
		cfg := &config.Config{}
		cfg.Server.Port = 8080
		cfg.LoadBalancer.Strategy = "round_robin"
		lb, err := loadbalancer.NewLoadBalancer(cfg)
		if err != nil {
			t.Fatal(err)
		}
		var wg sync.WaitGroup
		wg.Add(2)
		go func() { defer wg.Done(); logStartupInfo(cfg) }()                      // main, after the servers were started
		go func() { defer wg.Done(); _ = lb.SetStrategy("least_connections") }() // the admin API's handler
		wg.Wait()
		lb.Stop()
	}
}
