// package-dir: internal/loadbalancer
// Fails before the fix 'AddBackend rejects an address that is not an http(s) URL with a host', passes after.
package loadbalancer

import (
	"testing"

	"github.com/0xReLogic/Helios/internal/config"
)

func TestUnusableBackendAddressIsRefused(t *testing.T) {
	for _, addr := range []string{"localhost:8081", "not a url", "ftp://files.example", "http://"} {
		cfg := &config.Config{}
		cfg.LoadBalancer.Strategy = "round_robin"
		cfg.Backends = []config.BackendConfig{{Name: "b", Address: addr}}
		lb, err := NewLoadBalancer(cfg)
		if err == nil {
			lb.Stop()
			t.Errorf("address %q: a balancer was started; every request would be answered 502", addr)
		}
	}
}
