// package-dir: internal/config
// Fails before the fix 'README: the Basic Configuration example lists the options validation requires',
// passes after.  The test loads the README's "Basic Configuration (helios.yaml)" example as it stands.
package config

import (
	"os"
	"path/filepath"
	"strings"
	"testing"
)

func TestReadmeBasicConfigurationLoads(t *testing.T) {
	readme, err := os.ReadFile(filepath.Join("..", "..", "README.md"))
	if err != nil {
		t.Fatal(err)
	}
	text := string(readme)
	i := strings.Index(text, "### Basic Configuration (helios.yaml)")
	if i < 0 {
		t.Skip("README has no Basic Configuration section")
	}
	text = text[i:]
	a := strings.Index(text, "```yaml")
	b := strings.Index(text[a+7:], "```")
	if a < 0 || b < 0 {
		t.Fatal("no yaml block under Basic Configuration")
	}
	example := text[a+7 : a+7+b]
	path := filepath.Join(t.TempDir(), "helios.yaml")
	if err := os.WriteFile(path, []byte(example), 0o600); err != nil {
		t.Fatal(err)
	}
	if _, err := LoadConfig(path); err != nil {
		t.Fatalf("the configuration the README presents as the basic one does not load: %v", err)
	}
}
