// package-dir: internal/ratelimiter
// Fails on /repo before 955dc3a ("fix: rate limiter evicts only idle buckets that have refilled
// completely"), passes from that commit on.
package ratelimiter

import (
	"testing"
	"time"
)

// A client drains its burst, stays away for a little over an hour and comes back.  With
// max_tokens=5 and one token per hour the bound for a window of 61 minutes is 5+1+1 = 7.
func TestEvictionDoesNotGrantTokens(t *testing.T) {
	rl := NewTokenBucketRateLimiter(5, time.Hour)
	admitted := 0
	for i := 0; i < 10; i++ {
		if rl.Allow("c") {
			admitted++
		}
	}
	if admitted != 5 {
		t.Fatalf("burst: %d", admitted)
	}
	// 61 minutes pass (virtual time: move the bucket's clock back)
	v, _ := rl.buckets.Load("c")
	b := v.(*bucket)
	b.mutex.Lock()
	b.lastRefill = b.lastRefill.Add(-61 * time.Minute)
	b.mutex.Unlock()
	rl.cleanup() // the 10-minute sweep fires
	for i := 0; i < 10; i++ {
		if rl.Allow("c") {
			admitted++
		}
	}
	if admitted > 7 {
		t.Fatalf("admitted %d requests in a 61 minute window, bound is 5 + floor(61m/1h) + 1 = 7", admitted)
	}
}
