// package-dir: internal/loadbalancer
// Fails with high probability (stale gauge in tens of the 300 rounds) before the fix 'publish the
// in-flight gauge atomically with reading it', passes after.
package loadbalancer

import (
	"net/http"
	"net/http/httptest"
	"sync"
	"testing"
	"time"

	"github.com/0xReLogic/Helios/internal/config"
)

func TestPublishedGaugeReturnsToZeroWhenIdle(t *testing.T) {
	backend := httptest.NewServer(http.HandlerFunc(func(w http.ResponseWriter, r *http.Request) { w.WriteHeader(200) }))
	defer backend.Close()
	cfg := &config.Config{}
	cfg.LoadBalancer.Strategy = "round_robin"
	lb, err := NewLoadBalancer(cfg)
	if err != nil {
		t.Fatal(err)
	}
	defer lb.Stop()
	if err := lb.AddBackend(config.BackendConfig{Name: "b", Address: backend.URL}); err != nil {
		t.Fatal(err)
	}
	stop := make(chan struct{})
	var readers sync.WaitGroup
	for i := 0; i < 4; i++ {
		readers.Add(1)
		go func() {
			defer readers.Done()
			for {
				select {
				case <-stop:
					return
				default:
					lb.metricsCollector.GetMetrics()
				}
			}
		}()
	}
	stale := 0
	deadline := time.Now().Add(60 * time.Second)
	for round := 0; round < 300 && time.Now().Before(deadline); round++ {
		var wg sync.WaitGroup
		for c := 0; c < 64; c++ {
			wg.Add(1)
			go func() {
				defer wg.Done()
				lb.ServeHTTP(httptest.NewRecorder(), httptest.NewRequest("GET", "/", nil))
			}()
		}
		wg.Wait()
		if m := lb.metricsCollector.GetMetrics(); m.BackendMetrics["b"].ActiveConnections != 0 {
			stale++
		}
	}
	close(stop)
	readers.Wait()
	if stale > 0 {
		t.Fatalf("with nothing in flight the published active_connections was non-zero after %d rounds", stale)
	}
}
