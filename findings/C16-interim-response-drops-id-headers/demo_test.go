// package-dir: internal/loadbalancer
// Fails on /repo before 49c59ee ("fix: keep response headers set before proxying when the backend
// sends an interim response"), passes from that commit on.
package loadbalancer_test

import (
	"net/http"
	"net/http/httptest"
	"testing"
	"time"

	"github.com/0xReLogic/Helios/internal/config"
	"github.com/0xReLogic/Helios/internal/loadbalancer"
	"github.com/0xReLogic/Helios/internal/logging"
)

func TestIDHeadersSurviveInterimResponse(t *testing.T) {
	backend := httptest.NewServer(http.HandlerFunc(func(w http.ResponseWriter, r *http.Request) {
		if r.URL.Path == "/hints" {
			w.Header().Set("Link", "</style.css>; rel=preload")
			w.WriteHeader(http.StatusEarlyHints)
		}
		w.WriteHeader(200)
		w.Write([]byte("ok"))
	}))
	defer backend.Close()
	cfg := &config.Config{}
	cfg.LoadBalancer.Strategy = "round_robin"
	cfg.Logging.RequestID.Enabled = true
	cfg.Logging.Trace.Enabled = true
	lb, err := loadbalancer.NewLoadBalancer(cfg)
	if err != nil {
		t.Fatal(err)
	}
	defer lb.Stop()
	if err := lb.AddBackend(config.BackendConfig{Name: "b", Address: backend.URL}); err != nil {
		t.Fatal(err)
	}
	front := httptest.NewServer(logging.RequestContextMiddleware(cfg.Logging)(lb))
	defer front.Close()
	client := &http.Client{Timeout: 5 * time.Second}
	for _, path := range []string{"/plain", "/hints"} {
		resp, err := client.Get(front.URL + path)
		if err != nil {
			t.Fatal(err)
		}
		resp.Body.Close()
		if resp.Header.Get("X-Request-ID") == "" || resp.Header.Get("X-Trace-ID") == "" {
			t.Errorf("%s: response lacks the ID headers (status %d, headers %v)", path, resp.StatusCode, resp.Header)
		}
	}
}
