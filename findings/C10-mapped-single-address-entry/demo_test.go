// package-dir: internal/adminapi
// Fails before the fix 'admin IP filter treats an IPv4-mapped single-address entry as that address', passes after.
package adminapi

import "testing"

func TestMappedSingleAddressEntryIsExact(t *testing.T) {
	deny, err := NewIPFilter(nil, []string{"::ffff:10.0.0.1"})
	if err != nil {
		t.Fatal(err)
	}
	for _, peer := range []string{"10.0.0.1", "::ffff:10.0.0.1"} {
		if deny.IsAllowed(peer) {
			t.Errorf("deny [::ffff:10.0.0.1]: peer %s is allowed", peer)
		}
	}
	allow, err := NewIPFilter([]string{"::ffff:10.0.0.1"}, nil)
	if err != nil {
		t.Fatal(err)
	}
	if !allow.IsAllowed("10.0.0.1") {
		t.Errorf("allow [::ffff:10.0.0.1]: peer 10.0.0.1 is refused")
	}
	for _, peer := range []string{"::1", "::2:3"} {
		if allow.IsAllowed(peer) {
			t.Errorf("allow [::ffff:10.0.0.1]: peer %s is allowed", peer)
		}
	}
}
