// package-dir: internal/plugins
// Fails before the fix 'gzip plugin never compresses an empty body', passes after.
package plugins

import (
	"net/http"
	"net/http/httptest"
	"testing"
	"time"
)

func TestBodilessResponsesAreNotGzipped(t *testing.T) {
	mw, err := builtins["gzip"]("gzip", map[string]interface{}{"level": 5, "min_size": 0, "content_types": []interface{}{"text/"}})
	if err != nil {
		t.Fatal(err)
	}
	srv := httptest.NewServer(mw(http.HandlerFunc(func(w http.ResponseWriter, r *http.Request) {
		w.Header().Set("Content-Type", "text/plain")
		switch r.URL.Path {
		case "/204":
			w.WriteHeader(http.StatusNoContent)
		case "/304":
			w.WriteHeader(http.StatusNotModified)
		default: // HEAD of a 5000 byte resource
			w.Header().Set("Content-Length", "5000")
			w.WriteHeader(200)
		}
	})))
	defer srv.Close()
	tr := &http.Transport{DisableCompression: true}
	client := &http.Client{Transport: tr, Timeout: 5 * time.Second}
	for _, c := range []struct{ method, path string }{{"GET", "/204"}, {"GET", "/304"}, {"HEAD", "/head"}} {
		req, _ := http.NewRequest(c.method, srv.URL+c.path, nil)
		req.Header.Set("Accept-Encoding", "gzip")
		resp, err := client.Do(req)
		if err != nil {
			t.Fatalf("%s %s: %v", c.method, c.path, err)
		}
		resp.Body.Close()
		if ce := resp.Header.Get("Content-Encoding"); ce != "" {
			t.Errorf("%s %s: bodiless response labelled Content-Encoding: %s (Content-Length %q)", c.method, c.path, ce, resp.Header.Get("Content-Length"))
		}
		if c.method == "HEAD" && resp.Header.Get("Content-Length") != "5000" {
			t.Errorf("HEAD: Content-Length %q, backend declared 5000", resp.Header.Get("Content-Length"))
		}
	}
}
