// package-dir: internal/loadbalancer
// Fails before the fix 'AddBackend refuses a name that is already registered', passes after.
package loadbalancer

import (
	"net/http"
	"net/http/httptest"
	"testing"
	"time"

	"github.com/0xReLogic/Helios/internal/config"
)

// Backend state that is kept per *name* (the metrics health mirror, the passive strike count, the
// metrics counters) can only describe one backend.  Registering a second backend under the name of
// an ejected one made the metrics endpoint report that name healthy while the first backend was
// still inside its window (C04: "the admin and metrics endpoints never report an ejected backend as
// healthy").
func TestSecondRegistrationDoesNotReportEjectedBackendHealthy(t *testing.T) {
	be := httptest.NewServer(http.HandlerFunc(func(w http.ResponseWriter, r *http.Request) {}))
	defer be.Close()
	cfg := &config.Config{}
	cfg.LoadBalancer.Strategy = "round_robin"
	lb, err := NewLoadBalancer(cfg)
	if err != nil {
		t.Fatal(err)
	}
	defer lb.Stop()
	if err := lb.AddBackend(config.BackendConfig{Name: "b1", Address: be.URL}); err != nil {
		t.Fatal(err)
	}
	first := lb.strategy.GetBackends()[0]
	lb.MarkBackendUnhealthy(first, time.Hour)

	err = lb.AddBackend(config.BackendConfig{Name: "b1", Address: be.URL})

	m := lb.GetMetricsCollector().GetMetrics()
	bm := m.BackendMetrics["b1"]
	if bm == nil {
		t.Fatal("no metrics for b1")
	}
	if bm.IsHealthy && !lb.IsBackendHealthy(first) {
		t.Errorf("metrics report b1 healthy while the backend registered as b1 is ejected for an hour (second AddBackend returned %v)", err)
	}
}
