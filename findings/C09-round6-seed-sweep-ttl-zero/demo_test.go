// package-dir: internal/ratelimiter
package ratelimiter

import (
	"testing"
	"time"
)

// A client that has spent its burst must stay limited while the background
// sweeper does its periodic pass: the sweep may only drop buckets that have
// been idle long enough to be full again.
func TestSweepDoesNotResetActiveClient(t *testing.T) {
	done := make(chan struct{})
	go func() {
		defer close(done)

		const maxTokens = 5
		rl := NewTokenBucketRateLimiter(maxTokens, time.Minute)

		admitted := 0
		for i := 0; i < maxTokens+3; i++ {
			if rl.Allow("198.51.100.7") {
				admitted++
			}
		}
		if admitted != maxTokens {
			t.Errorf("initial burst: admitted %d, want %d", admitted, maxTokens)
			return
		}
		// An unrelated client with a partly used bucket
		if !rl.Allow("198.51.100.8") {
			t.Errorf("second client should start with a full burst")
			return
		}

		// What cleanupRoutine does on every tick (every 10 minutes in production)
		for sweep := 0; sweep < 3; sweep++ {
			rl.cleanup()
			for i := 0; i < maxTokens; i++ {
				if rl.Allow("198.51.100.7") {
					admitted++
				}
			}
		}

		// Well under one refill period has elapsed, so nothing may have been added
		if admitted > maxTokens+1 {
			t.Errorf("client admitted %d times within a fraction of one refill period, bound is %d",
				admitted, maxTokens+1)
		}
		if _, ok := rl.buckets.Load("198.51.100.8"); !ok {
			t.Errorf("sweep evicted a bucket that was used moments ago")
		}
	}()

	select {
	case <-done:
	case <-time.After(10 * time.Second):
		t.Fatal("timed out")
	}
}

// Slow-refill configuration: the bucket has to survive until it would be full again.
func TestSweepKeepsSlowRefillBucket(t *testing.T) {
	rl := NewTokenBucketRateLimiter(3, time.Hour)
	for i := 0; i < 3; i++ {
		if !rl.Allow("203.0.113.9") {
			t.Fatalf("request %d should be allowed", i+1)
		}
	}
	rl.cleanup()
	if rl.Allow("203.0.113.9") {
		t.Fatal("exhausted client admitted again right after a sweep")
	}
}
