// package-dir: internal/plugins
// Before the fix 'size_limit lets net/http refuse an invalid status on the handler's goroutine' this
// test does not fail - it KILLS the test binary ("panic: invalid WriteHeader code 42" on a timer
// goroutine; go test reports FAIL for the package).  After the fix it passes.
//
// A backend answers "HTTP/1.1 042 Foo" without a Content-Length and sends its body a little later.
// net/http accepts any three-digit status from a backend; size_limit's writer only recorded it, and the
// reverse proxy's flush timer (armed for responses of unknown length) delivered it from a goroutine
// nothing recovers: the whole proxy process died (C03: no backend misbehaviour can crash Helios).
package plugins

import (
	"bufio"
	"io"
	"net"
	"net/http"
	"net/http/httptest"
	"net/http/httputil"
	"net/url"
	"testing"
	"time"
)

func TestInvalidBackendStatusDoesNotKillTheProcess(t *testing.T) {
	ln, err := net.Listen("tcp", "127.0.0.1:0")
	if err != nil {
		t.Fatal(err)
	}
	defer ln.Close()
	go func() {
		for {
			conn, err := ln.Accept()
			if err != nil {
				return
			}
			go func(c net.Conn) {
				defer c.Close()
				br := bufio.NewReader(c)
				for { // read the request head
					line, err := br.ReadString('\n')
					if err != nil || line == "\r\n" {
						break
					}
				}
				_, _ = io.WriteString(c, "HTTP/1.1 042 Foo\r\nConnection: close\r\n\r\n")
				time.Sleep(300 * time.Millisecond)
				_, _ = io.WriteString(c, "late body")
			}(conn)
		}
	}()

	mw, err := newSizeLimitMiddleware("size_limit", map[string]interface{}{})
	if err != nil {
		t.Fatal(err)
	}
	target, _ := url.Parse("http://" + ln.Addr().String())
	front := httptest.NewServer(mw(httputil.NewSingleHostReverseProxy(target)))
	defer front.Close()

	client := &http.Client{Timeout: 3 * time.Second}
	if resp, err := client.Get(front.URL + "/"); err == nil {
		_, _ = io.Copy(io.Discard, resp.Body)
		resp.Body.Close()
	}
	time.Sleep(500 * time.Millisecond) // the flush timer has fired by now
	// still alive: an ordinary request is served
	resp, err := client.Get(front.URL + "/again")
	if err == nil {
		resp.Body.Close()
	}
}
