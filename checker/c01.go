package main

import (
	"fmt"
	"go/token"
	"go/types"
	"net/textproto"
	"sort"
	"strings"

	"golang.org/x/tools/go/ssa"
)

func init() {
	registry["C01"] = checkC01
	registry["C05"] = checkC05
	registry["C06"] = checkC06
}

// requestMutators / responseMutators: uses of *http.Request / http.ResponseWriter that the peer
// can observe.  Anything not listed as read-only and not listed here is reported as undecided.
var reqReadOnly = map[string]bool{
	"(*net/http.Request).Context": true, "(*net/http.Request).Cookie": true, "(*net/http.Request).Cookies": true,
	"(*net/http.Request).UserAgent": true, "(*net/http.Request).Referer": true, "(*net/http.Request).ProtoAtLeast": true,
	"(*net/http.Request).BasicAuth": true, "(*net/http.Request).WithContext": true, "(*net/http.Request).Clone": true,
	"(*net/http.Request).PathValue": true,
}
var reqConsuming = map[string]bool{
	"(*net/http.Request).ParseForm": true, "(*net/http.Request).ParseMultipartForm": true, "(*net/http.Request).FormValue": true,
	"(*net/http.Request).PostFormValue": true, "(*net/http.Request).FormFile": true, "(*net/http.Request).MultipartReader": true,
	"(*net/http.Request).AddCookie": true, "(*net/http.Request).SetBasicAuth": true, "(*net/http.Request).SetPathValue": true,
	"(*net/http.Request).Write": true, "(*net/http.Request).WriteProxy": true,
}

// transparencySpec labels everything on the forwarding path that could alter the exchange.
func (c *Ctx) transparencySpec() *Spec {
	p := c.P
	sp := c.lbSpec()
	base := sp.Event
	sp.Event = func(in ssa.Instruction, fr *Frame) string {
		if k, st := storeKey(in); strings.HasPrefix(k, "http.Request.") || strings.HasPrefix(k, "url.URL.") {
			_ = st
			return "mutate:store " + k
		}
		if ci, ok := in.(ssa.CallInstruction); ok {
			n := CalleeName(ci)
			args := ci.Common().Args
			switch n {
			case "(net/http.Header).Set", "(net/http.Header).Add", "(net/http.Header).Del":
				return "mutate:header." + strings.TrimPrefix(n, "(net/http.Header).") + "(" + p.Desc(args[0], fr) + ")"
			case "(net/http.ResponseWriter).Write", "(net/http.ResponseWriter).WriteHeader":
				if code, ok := httpStatusCall(ci); ok {
					return "status:" + itoa(code)
				}
				return "mutate:" + strings.TrimPrefix(n, "(net/http.ResponseWriter).")
			case "io.ReadAll", "io.Copy", "io.CopyN":
				for _, a := range args {
					if strings.Contains(p.Desc(a, fr), "http.Request.Body") {
						return "mutate:consume-body"
					}
				}
			case "(*net/http/httputil.ReverseProxy).ServeHTTP":
				// which request / writer is handed on
				rd := p.Desc(args[2], fr)
				wd := p.DescQ(args[1], fr)
				if n := namedOf(stripConv(args[1]).Type()); n != nil && QualType(n) == "loadbalancer.responseWriter" {
					wd = "wrapper:loadbalancer.responseWriter"
				}
				return "proxy(" + wd + "|" + rd + ")"
			}
			if reqConsuming[n] {
				return "mutate:" + n
			}
			if strings.HasPrefix(n, "(*net/http.Request).") && !reqReadOnly[n] {
				return "undecided-request-use:" + n
			}
		}
		l := base(in, fr)
		if l == "proxy" {
			return ""
		}
		return l
	}
	sp.MayPanic = nil
	return sp
}

func checkC01(c *Ctx) {
	p := c.P
	c.Clause("every ResponseWriter wrapper on the non-transforming path forwards Flush (or exposes Unwrap): flushed chunks / SSE events reach the client")
	c.Clause("on every path of LoadBalancer.ServeHTTP that proxies, request and response writer are used read-only before the proxy call, and the proxy receives the caller's request and a status-capturing wrapper of the caller's writer")
	c.Clause("the per-backend ReverseProxy is not customised into a transformer (only Transport / FlushInterval / ErrorLog / BufferPool are assigned)")
	c.Clause("the backend transport has DisableCompression = true (it neither injects Accept-Encoding nor inflates replies)")
	c.Clause("buildHandler composes RequestContextMiddleware(cfg.Logging)(plugins…(lb))")
	c.Clause("every path of ServeHTTP on which the proxy call panics (http.ErrAbortHandler after a mid-body backend failure) leaves by that panic: a truncated response is never completed as a clean one")
	c.Clause("the status-capturing wrapper forwards every status (1xx and final), keeps no per-response state from an earlier request, does not retain the caller's slice in Write, and restores the headers set before proxying after httputil empties the map for an interim response")
	c.Clause("copy buffers handed to the reverse proxy are exclusive to one copy (a pool that hands out only what was put back, or fresh slices)")
	c.Clause("a backend's base URL and reverse proxy are built from url.Parse's own result for the registered address, on every path (a URL re-assembled from Scheme/Host/Path drops RawPath and re-codes an escaped base path)")
	c.Clause("the ID middleware writes a request header only where it found that identifier blank: a supplied one (possibly sent on several lines) reaches the backend as sent")
	c.Clause("no handler on the serving path is wrapped in http.TimeoutHandler (its writer buffers the whole response and has neither Flush nor Hijack)")
	c.NotDecided("what net/http and httputil do with the bytes (hop-by-hop headers, framing, 1xx, HEAD); path/query joining for backend base paths; timing of flushes")

	ws := c.wrappers()
	onPath := func(w *Wrapper) bool {
		return w.Key == "loadbalancer.responseWriter" || w.Key == "plugins.statusRecorder"
	}
	n := 0
	for _, w := range ws {
		if onPath(w) {
			n++
		}
	}
	c.Floor("wrapper-forwards-flush", n, 2, "wrappers on the non-transforming path")
	c.rwForwarding(ws, false, true, onPath)
	// the status-capturing wrapper forwards WriteHeader/Write untouched
	for _, w := range ws {
		if !onPath(w) {
			continue
		}
		f := c.analyseWrapper(w)
		c.Check(f.Forwarding, "wrapper-is-transparent", w.Key, p.Pos(w.Named.Obj().Pos()), "WriteHeader forwards the status on every path",
			"the wrapper on the transparent path does not forward WriteHeader on every path")
		c.rwHeaderTypestate(w)
		for name, ts := range f.traces {
			for _, t := range ts {
				for _, it := range t.Items {
					if strings.HasPrefix(it.Label, "hdr:") {
						c.Fail("wrapper-is-transparent", w.Key+"."+name, p.InstrPos(it.Instr), "the wrapper on the transparent path changes response headers: "+it.Label)
					}
					if strings.HasPrefix(it.Label, "emb:WriteHeader(") && !strings.Contains(it.Label, "param:") && name == "WriteHeader" {
						c.Fail("wrapper-is-transparent", w.Key+"."+name, p.InstrPos(it.Instr), "the status forwarded is not the one the handler passed: "+it.Label)
					}
				}
			}
		}
	}

	// 2. non-interference
	serve := p.Fn("internal/loadbalancer", "LoadBalancer", "ServeHTTP")
	c.traceRule("forwarding-non-interference", "loadbalancer.(*LoadBalancer).ServeHTTP", serve, c.transparencySpec(),
		"on proxying paths nothing writes to the client, touches headers, request fields or the body before the proxy call; the proxy gets (wrapper of w, r)",
		func(t *Trace) string {
			pi := -1
			for i, it := range t.Items {
				if strings.HasPrefix(it.Label, "proxy(") {
					pi = i
				}
			}
			if pi < 0 {
				return ""
			}
			lbl := t.Items[pi].Label
			args := strings.SplitN(strings.TrimSuffix(strings.TrimPrefix(lbl, "proxy("), ")"), "|", 2)
			if len(args) == 2 {
				if args[1] != "param:r" {
					return "the backend is not given the client's request object: " + args[1]
				}
				if args[0] != "wrapper:loadbalancer.responseWriter" && args[0] != "param:w" {
					return "the response is not written to (a wrapper of) the client's writer: " + args[0]
				}
			}
			for _, it := range t.Items[:pi] {
				if strings.HasPrefix(it.Label, "mutate:") || strings.HasPrefix(it.Label, "status:") {
					return "exchange altered before forwarding: " + it.Label
				}
				if strings.HasPrefix(it.Label, "undecided-request-use:") {
					return "undecided: request method not in the read-only/mutating table: " + strings.TrimPrefix(it.Label, "undecided-request-use:")
				}
			}
			for _, it := range t.Items[pi+1:] {
				if strings.HasPrefix(it.Label, "mutate:") || strings.HasPrefix(it.Label, "status:") {
					return "response altered after the backend answered: " + it.Label
				}
			}
			return ""
		})
	// the wrapper handed to the proxy embeds the caller's writer
	if pr := c.proxyFn(); pr != nil {
		ok := false
		instrsOf(pr, func(in ssa.Instruction) {
			if k, st := storeKey(in); k == "loadbalancer.responseWriter.ResponseWriter" {
				if _, isP := stripConv(st.Val).(*ssa.Parameter); isP {
					ok = true
				}
			}
		})
		c.Check(ok, "forwarding-non-interference", "loadbalancer.(*LoadBalancer).proxyRequest/wrapper-embeds-w", p.Pos(pr.Pos()), "responseWriter{ResponseWriter: w}", "the status-capturing wrapper does not embed the caller's ResponseWriter")
	}

	// 3. ReverseProxy customisation
	allowed := map[string]bool{"Transport": true, "FlushInterval": true, "ErrorLog": true, "BufferPool": true}
	nStores := 0
	var bad []string
	var created []string
	for _, fn := range p.Funcs {
		if !p.InScope(fn) {
			continue
		}
		instrsOf(fn, func(in ssa.Instruction) {
			if k, st := storeKey(in); strings.HasPrefix(k, "httputil.ReverseProxy.") {
				nStores++
				f := strings.TrimPrefix(k, "httputil.ReverseProxy.")
				if !allowed[f] {
					bad = append(bad, p.InstrPos(st)+": "+p.FuncKey(fn)+" assigns ReverseProxy."+f+" (a hook that can rewrite the exchange)")
				}
			}
			if a, ok := in.(*ssa.Alloc); ok && QualType(namedOf(a.Type())) == "httputil.ReverseProxy" {
				if _, isPtrToStruct := a.Type().Underlying().(interface{ Elem() interface{} }); !isPtrToStruct {
					bad = append(bad, p.InstrPos(a)+": "+p.FuncKey(fn)+" builds a ReverseProxy literal instead of NewSingleHostReverseProxy")
				}
			}
			if ci, ok := in.(ssa.CallInstruction); ok && CalleeName(ci) == "net/http/httputil.NewSingleHostReverseProxy" {
				created = append(created, p.FuncKey(fn)+": "+p.Desc(ci.Common().Args[0], nil))
			}
		})
	}
	if len(bad) == 0 {
		c.Pass("proxy-not-customised", "httputil.ReverseProxy", "-", fmt.Sprintf("%d field assignments, all among %v; created by %v", nStores, keys(allowed), created))
	} else {
		c.Fail("proxy-not-customised", "httputil.ReverseProxy", "-", bad[0], bad...)
	}
	c.Floor("proxy-not-customised", len(created), 1, "NewSingleHostReverseProxy call sites")
	// the base URL requests are joined onto is url.Parse's own result (a URL rebuilt field by field loses
	// RawPath: an escaped base path such as /tenants/acme%2Feu reaches the backend re-coded)
	c11OwnMachinery(c)
	c.suppliedIDLeavesRequestAlone()
	c.noBufferingHandler()
	c.copyBuffersExclusive()
	c.abortPropagates()
	c.presetHeadersSurviveInterim()

	// 4. transport does not re-code
	ab := p.Fn("internal/loadbalancer", "LoadBalancer", "AddBackend")
	construct := "loadbalancer.(*LoadBalancer).AddBackend/http.Transport"
	if ab == nil {
		c.Missing("transport-no-recoding", construct)
	} else {
		var dc ssa.Value
		var dcAt ssa.Instruction
		assigned := false
		var allocs []*ssa.Alloc
		instrsOf(ab, func(in ssa.Instruction) {
			if k, st := storeKey(in); k == "httputil.ReverseProxy.Transport" {
				c.transportAllocs(st.Val, 0, &allocs)
			}
		})
		for _, tr := range allocs {
			assigned = true
			found := false
			instrsOf(tr.Parent(), func(in ssa.Instruction) {
				if k, st := storeKey(in); k == "http.Transport.DisableCompression" {
					if st.Addr.(*ssa.FieldAddr).X == ssa.Value(tr) {
						dc, dcAt = st.Val, st
						found = true
					}
				}
			})
			if !found {
				dc = nil
				break
			}
		}
		if !assigned {
			// nothing resolvable is installed: fall back to any DisableCompression store in AddBackend
			instrsOf(ab, func(in ssa.Instruction) {
				if k, st := storeKey(in); k == "http.Transport.DisableCompression" {
					dc, dcAt = st.Val, st
				}
			})
		}
		b, isConst := false, false
		if dc != nil {
			b, isConst = constBool(dc)
		}
		switch {
		case dc == nil:
			c.Fail("transport-no-recoding", construct, p.Pos(ab.Pos()), "the backend transport does not set DisableCompression (default false: the transport adds Accept-Encoding: gzip to requests that carried none and strips Content-Encoding/Content-Length while inflating the reply)")
		case !isConst || !b:
			c.Fail("transport-no-recoding", construct, p.InstrPos(dcAt), "DisableCompression is not the constant true: the transport negotiates gzip on its own, so backend and client each observe an exchange the other side did not produce")
		case !assigned:
			c.Fail("transport-no-recoding", construct, p.InstrPos(dcAt), "the transport with DisableCompression=true is not the one installed on the proxy")
		default:
			c.Pass("transport-no-recoding", construct, p.InstrPos(dcAt), "proxy.Transport = &http.Transport{DisableCompression: true, …}")
		}
	}
	// 5. composition
	c.outermostMiddleware()
}

// ---- C05 -------------------------------------------------------------------------------------------

func checkC05(c *Ctx) {
	p := c.P
	c.Clause("round_robin: the cursor is touched only through sync/atomic and the pick is cursor mod len of the very slice it indexes, built in the same critical section")
	c.Clause("weighted_round_robin: currentWeight only under the strategy mutex; each eligible backend gains its weight, the strict maximum is chosen and loses the eligible total (nginx smooth WRR shape)")
	c.Clause("least_connections: gauges read atomically; a candidate replaces the choice only when its gauge is smaller, so the result is a minimum of what was read; candidates are health-tested")
	c.Clause("weights below 1 count as 1 where the backend is created")
	c.Clause("the in-flight gauge least_connections compares is changed only by an atomic ±1 at request start/end (a lost decrement makes an idle backend look loaded)")
	c.Clause("the round-robin cursor, advanced with 64-bit atomics, is 8-byte aligned under the 386/arm layout (otherwise every pick panics on 32-bit platforms)")
	c.Clause("weighted_round_robin credits a backend only while it is eligible; reading and publishing the in-flight gauge is one step per backend")
	c.NotDecided("exact per-window counts of round robin / smooth WRR; the WRR bound after membership changes — numeric results over histories")

	lockDiscipline(c, func(k string) bool {
		return k == "loadbalancer.RoundRobinStrategy.current" || k == "loadbalancer.weightedBackend.currentWeight" || k == "loadbalancer.Backend.ActiveConnections" || strings.HasSuffix(k, "Strategy.backends")
	})
	c.Floor("atomic64-aligned", atomic64Aligned(c, func(k string) bool { return k == "loadbalancer.RoundRobinStrategy.current" }), 1, "round-robin cursor operated on with 64-bit atomics")
	c.strategyHealthGuard()
	// least_connections picks the minimum of the in-flight gauges: they must equal the number of
	// requests in flight (only ±1 per request start/end, atomically)
	c.gaugeWriters()

	// 1. round robin
	rr := p.Fn("internal/loadbalancer", "RoundRobinStrategy", "NextBackend")
	construct := "loadbalancer.(*RoundRobinStrategy).NextBackend"
	if rr == nil {
		c.Missing("rr-modulo-same-slice", construct)
	} else {
		ok, detail := false, "no element is selected by cursor modulo length"
		// selection sites: the indexed loads that can reach a return
		var sites []*ssa.IndexAddr
		seenV := map[ssa.Value]bool{}
		var walk func(v ssa.Value)
		walk = func(v ssa.Value) {
			v = stripConv(v)
			if seenV[v] {
				return
			}
			seenV[v] = true
			switch x := v.(type) {
			case *ssa.Phi:
				for _, e := range x.Edges {
					walk(e)
				}
			case *ssa.UnOp:
				if ia, isIA := x.X.(*ssa.IndexAddr); isIA {
					sites = append(sites, ia)
				}
				if cell, isCell := x.X.(*ssa.Alloc); isCell && cell.Referrers() != nil {
					// result spilled around the deferred unlock
					for _, u := range *cell.Referrers() {
						if st, isSt := u.(*ssa.Store); isSt && st.Addr == ssa.Value(cell) {
							walk(st.Val)
						}
					}
				}
			}
		}
		instrsOf(rr, func(in ssa.Instruction) {
			if r, isRet := in.(*ssa.Return); isRet {
				for _, v := range r.Results {
					walk(v)
				}
			}
		})
		nOK := 0
		for _, ia := range sites {
			idx, isBin := stripConv(ia.Index).(*ssa.BinOp)
			if !isBin || idx.Op.String() != "%" {
				detail = p.InstrPos(ia) + ": a backend is selected by something other than cursor modulo length"
				continue
			}
			add, isCall := stripConv(idx.X).(*ssa.Call)
			if !isCall || CalleeName(add) != "sync/atomic.AddUint64" {
				detail = "the rotation cursor is not advanced with atomic.AddUint64"
				continue
			}
			if k, isK := constInt(add.Call.Args[1]); !isK || k != 1 {
				detail = "the cursor does not advance by exactly 1 per pick"
				continue
			}
			ln, isLen := stripConv(idx.Y).(*ssa.Call)
			if !isLen || CalleeName(ln) != "builtin:len" || !c.sameSlice(rr, ln.Call.Args[0], ia.X) {
				detail = "the cursor is reduced modulo the length of a different slice than the one indexed (out-of-range panic or skipped backends after a membership change)"
				continue
			}
			nOK++
		}
		ok = len(sites) > 0 && nOK == len(sites)
		for i := 1; ok && i < len(sites); i++ {
			if !c.sameSlice(rr, sites[0].X, sites[i].X) {
				ok = false
				detail = p.InstrPos(sites[i]) + ": one cursor rotates over two different lists (" + p.Desc(sites[0].X, nil) + " and " + p.Desc(sites[i].X, nil) + "): consecutive picks are no longer one-each over the eligible backends"
			}
		}
		c.Check(ok, "rr-modulo-same-slice", construct, p.Pos(rr.Pos()), "backends[atomic.AddUint64(&current,1) % len(backends)] over one slice value", detail)
	}

	// 2. smooth weighted round robin
	wrr := p.Fn("internal/loadbalancer", "WeightedRoundRobinStrategy", "NextBackend")
	cw := "loadbalancer.weightedBackend.currentWeight"
	sp := &Spec{
		Event: func(in ssa.Instruction, fr *Frame) string {
			if k, st := storeKey(in); k == cw {
				return "store cw := " + p.Desc(st.Val, fr)
			}
			return ""
		},
		Cond:   p.condMentions("currentWeight", "healthy(", "IsHealthy"),
		Expand: func(*ssa.Function, ssa.CallInstruction) bool { return false },
	}
	c.traceRule("wrr-smooth-shape", "loadbalancer.(*WeightedRoundRobinStrategy).NextBackend", wrr, sp,
		"eligible backends gain their weight; the choice changes only on a strictly larger currentWeight; the chosen one loses the eligible total",
		func(t *Trace) string {
			for _, it := range t.Items {
				if !strings.HasPrefix(it.Label, "store cw := ") {
					continue
				}
				v := strings.TrimPrefix(it.Label, "store cw := ")
				switch {
				case v == "(fld:"+cw+" + fld:loadbalancer.Backend.Weight)":
				case strings.HasPrefix(v, "(fld:"+cw+" - phi(") && strings.Contains(v, "fld:loadbalancer.Backend.Weight"):
				default:
					return "currentWeight updated by something other than +weight / −eligible total: " + v
				}
			}
			for _, it := range t.Items {
				if _, isIf := it.Instr.(*ssa.If); !isIf {
					continue
				}
				r := c.condRel(it)
				if r.Pred == "" && strings.Contains(r.X, cw) && strings.Contains(r.Y, cw) {
					if !(r.Lo == 1 && r.Hi == posInf) && !(r.Lo == negInf && r.Hi == 0) && !(r.Lo == negInf && r.Hi == -1) && !(r.Lo == 0 && r.Hi == posInf) {
						return "selection comparison has an unexpected shape: " + r.String()
					}
				}
			}
			if len(t.Ret) == 1 && t.Ret[0].K != ANil {
				n := 0
				for _, it := range t.Items {
					if strings.HasPrefix(it.Label, "store cw := (fld:"+cw+" - ") {
						n++
					}
				}
				if n != 1 {
					return fmt.Sprintf("a pick subtracts the eligible total %d times", n)
				}
			}
			return ""
		})

	if wrr != nil {
		regions := c.healthyRegions(wrr)
		var bad []string
		n := 0
		instrsOf(wrr, func(in ssa.Instruction) {
			if k, st := storeKey(in); k == cw && strings.HasSuffix(p.Desc(st.Val, nil), "+ fld:loadbalancer.Backend.Weight)") {
				n++
				if len(regions[st.Block()]) == 0 {
					bad = append(bad, p.InstrPos(st)+": currentWeight grows for a backend that was not found healthy: an ejected backend accumulates credit while it is down and receives a burst proportional to its downtime when it recovers")
				}
			}
			if b, ok := in.(*ssa.BinOp); ok && b.Op.String() == "+" && p.Desc(b.Y, nil) == "fld:loadbalancer.Backend.Weight" {
				if _, isPhi := b.X.(*ssa.Phi); isPhi && len(regions[b.Block()]) == 0 {
					bad = append(bad, p.InstrPos(b)+": the total weight includes backends that were not found healthy")
				}
			}
		})
		if n == 0 {
			bad = append(bad, "no backend ever gains its weight")
		}
		c.Check(len(bad) == 0, "wrr-credit-only-when-eligible", "loadbalancer.(*WeightedRoundRobinStrategy).NextBackend", p.Pos(wrr.Pos()),
			"currentWeight and the eligible total grow only under the health test", strings.Join(bad, "; "))
	}

	// 3. least connections
	lc := p.Fn("internal/loadbalancer", "LeastConnectionsStrategy", "NextBackend")
	construct = "loadbalancer.(*LeastConnectionsStrategy).NextBackend"
	if lc == nil {
		c.Missing("lc-selects-minimum", construct)
	} else {
		var bad []string
		found := false
		for _, b := range lc.Blocks {
			ifi, ok := b.Instrs[len(b.Instrs)-1].(*ssa.If)
			if !ok {
				continue
			}
			r := p.RelOf(ifi.Cond, true, nil)
			if !strings.Contains(r.X+r.Y, "GetActiveConnections(") {
				continue
			}
			o := r
			if strings.HasPrefix(r.X, "phi(") && !strings.HasPrefix(r.Y, "phi(") {
				o = r.Flip() // candidate on the left, running minimum on the right
			}
			found = true
			if !(o.Pred == "" && o.Lo == negInf && (o.Hi == -1 || o.Hi == 0)) {
				bad = append(bad, "a candidate replaces the choice on an edge that does not imply its gauge is smaller: "+o.String())
			}
			if !strings.Contains(o.Y, "phi(") {
				bad = append(bad, "candidates are not compared with the running minimum: "+o.Y)
			}
			// on the true edge both the minimum and the selection are updated (phi edges from that block)
			then := b.Succs[0]
			updMin, updSel := false, false
			for _, blk := range lc.Blocks {
				for _, in := range blk.Instrs {
					if ph, isPhi := in.(*ssa.Phi); isPhi {
						for i, e := range ph.Edges {
							if blk.Preds[i] == then || then.Dominates(blk.Preds[i]) {
								if strings.Contains(p.Desc(e, nil), "GetActiveConnections(") {
									updMin = true
								}
								if _, isPtr := e.Type().Underlying().(interface{ Elem() interface{} }); isPtr || strings.Contains(e.Type().String(), "Backend") {
									if !isConstNil(e) {
										updSel = true
									}
								}
							}
						}
					}
				}
			}
			if !updMin || !updSel {
				bad = append(bad, "the smaller-gauge edge does not update both the running minimum and the selection")
			}
		}
		atomicRead := false
		for _, ci := range callsIn(lc) {
			if strings.HasSuffix(CalleeName(ci), "Backend).GetActiveConnections") {
				atomicRead = true
			}
		}
		switch {
		case !found || !atomicRead:
			c.Fail("lc-selects-minimum", construct, p.Pos(lc.Pos()), "least_connections does not compare atomically-read gauges")
		case len(bad) > 0:
			c.Fail("lc-selects-minimum", construct, p.Pos(lc.Pos()), bad[0], bad...)
		default:
			c.Pass("lc-selects-minimum", construct, p.Pos(lc.Pos()), "choice replaced iff gauge < running minimum; both updated together")
		}
	}

	// 4. weight clamp
	ab := p.Fn("internal/loadbalancer", "LoadBalancer", "AddBackend")
	construct = "loadbalancer.(*LoadBalancer).AddBackend/Backend.Weight"
	if ab == nil {
		c.Missing("weight-clamp", construct)
	} else {
		var wv ssa.Value
		instrsOf(ab, func(in ssa.Instruction) {
			if k, st := storeKey(in); k == "loadbalancer.Backend.Weight" {
				wv = st.Val
			}
		})
		ok, detail := c.weightClamped(ab, wv, 0)
		c.Check(ok, "weight-clamp", construct, p.Pos(ab.Pos()), "Weight = (cfg.Weight ≤ 0 ? 1 : cfg.Weight)", detail)
	}
}

// ---- C06 -------------------------------------------------------------------------------------------

func checkC06(c *Ctx) {
	p := c.P
	c.Clause("ip_hash / ip_hash_consistent / jumpHash reach no nondeterminism source and write no shared state")
	c.Clause("the only request data read are the X-Forwarded-For / X-Real-IP headers and RemoteAddr (port stripped through net.SplitHostPort)")
	c.Clause("the result is an element of the health-filtered slice built in the same critical section, indexed by hash mod len / jumpHash(hash, len) of that same slice")
	c.Clause("jumpHash returns a bucket that was compared below numBuckets (in-range structurally)")
	c.Clause("the hashing strategies' pools are written (also through helpers that append into a sub-slice) only under the strategy's write lock")
	c.Clause("the forwarded-for value is reduced to its first element (Split / SplitN n≥2 / Cut) and trimmed before hashing; client-address headers are read through Header.Get or under their canonical map key")
	c.Clause("jump-hash arithmetic is done at 64-bit width on the key the loop advances")
	c.Clause("ip_hash_consistent's AddBackend only appends: the pool keeps every existing backend at its index (a pool re-ordered on insertion — sorted by name, say — moves clients between old backends)")
	c.Clause("between the balancer's entry and the strategy's pick nothing writes the request's client-address inputs (the X-Forwarded-For / X-Real-IP headers, the header map, RemoteAddr): the key the strategy hashes is the one the client's request carried")
	c.NotDecided("minimal remapping of the integer jump-hash variant over all 2^32 keys × pool sizes (a numeric for-all)")
	c.consistentAppendOnly()
	c.clientKeyUntouchedBeforePick()

	c.strategyHealthGuard("IPHashStrategy", "IPHashConsistentStrategy")
	// the pool a pick is computed over is written only under the strategy's write lock: a pick that
	// rewrites it (append into a prefix of the pool, in-place filtering) changes the eligible set of
	// every later pick without any change of health
	lockDiscipline(c, func(k string) bool {
		return k == "loadbalancer.IPHashStrategy.backends" || k == "loadbalancer.IPHashConsistentStrategy.backends"
	})
	for _, typ := range []string{"IPHashStrategy", "IPHashConsistentStrategy"} {
		fn := p.Fn("internal/loadbalancer", typ, "NextBackend")
		construct := "loadbalancer.(*" + typ + ").NextBackend"
		if fn == nil {
			c.Missing("affinity-deterministic", construct)
			continue
		}
		var bad []string
		fields := map[string]bool{}
		hdrKeys := map[string]bool{}
		seen := map[*ssa.Function]bool{}
		var visit func(f *ssa.Function)
		visit = func(f *ssa.Function) {
			if seen[f] || !p.IsHelios(f) || f.Blocks == nil {
				return
			}
			seen[f] = true
			instrsOf(f, func(in ssa.Instruction) {
				switch x := in.(type) {
				case *ssa.Store:
					switch x.Addr.(type) {
					case *ssa.Alloc, *ssa.IndexAddr:
					default:
						if _, isFA := x.Addr.(*ssa.FieldAddr); isFA && c.P.Freshness().IsFresh(x.Addr.(*ssa.FieldAddr).X, 0) {
							return
						}
						bad = append(bad, p.InstrPos(x)+": writes shared state ("+p.Desc(x.Addr, nil)+"): the pick depends on earlier requests")
					}
				case *ssa.MapUpdate:
					bad = append(bad, p.InstrPos(x)+": map update")
				case *ssa.Range:
					if _, isMap := x.X.Type().Underlying().(interface{ Key() interface{} }); isMap {
						bad = append(bad, p.InstrPos(x)+": iteration over a map (random order)")
					}
					if strings.HasPrefix(x.X.Type().Underlying().String(), "map[") {
						bad = append(bad, p.InstrPos(x)+": iteration over a map (random order)")
					}
				case *ssa.FieldAddr:
					if fr, ok := fieldRefOf(x); ok && fr.Key() != "" && strings.HasPrefix(fr.Key(), "http.Request.") {
						fields[fr.Name] = true
					}
				case *ssa.Lookup:
					// h[key] on a header map: net/http stores names in canonical form, so a literal
					// that is not canonical ("X-Real-IP" is stored as "X-Real-Ip") never matches
					if QualType(namedOf(x.X.Type())) != "http.Header" {
						return
					}
					var keys []string
					if k, ok := constStr(x.Index); ok {
						keys = append(keys, k)
					} else if pm, isParam := x.Index.(*ssa.Parameter); isParam {
						idx := -1
						for i, q := range f.Params {
							if q == pm {
								idx = i
							}
						}
						for _, caller := range p.Funcs {
							for _, ci := range callsIn(caller) {
								if StaticFn(ci) == f && idx >= 0 && idx < len(ci.Common().Args) {
									if k, ok := constStr(ci.Common().Args[idx]); ok {
										keys = append(keys, k)
									} else {
										bad = append(bad, p.InstrPos(ci)+": header map indexed with a non-constant name")
									}
								}
							}
						}
					} else {
						bad = append(bad, p.InstrPos(x)+": header map indexed with a non-constant name")
					}
					for _, k := range keys {
						hdrKeys[textproto.CanonicalMIMEHeaderKey(k)] = true
						if textproto.CanonicalMIMEHeaderKey(k) != k {
							bad = append(bad, p.InstrPos(x)+": the request header map is indexed with \""+k+"\", but net/http stores the name as \""+textproto.CanonicalMIMEHeaderKey(k)+"\": the lookup is always empty and that source of the client address is silently lost (the pick falls back to the next one, e.g. the relaying proxy's address)")
						}
					}
				case ssa.CallInstruction:
					n := CalleeName(x)
					switch {
					case n == "time.Now" || strings.HasPrefix(n, "math/rand") || strings.HasPrefix(n, "crypto/rand") || strings.HasPrefix(n, "time.Since"):
						bad = append(bad, p.InstrPos(x)+": nondeterminism source "+n)
					case strings.HasPrefix(n, "sync/atomic.Add") || strings.HasPrefix(n, "sync/atomic.Store") || strings.HasPrefix(n, "sync/atomic.Swap"):
						bad = append(bad, p.InstrPos(x)+": mutates shared state through "+n)
					case n == "(net/http.Header).Get":
						if k, ok := constStr(x.Common().Args[1]); ok {
							hdrKeys[k] = true
						} else {
							bad = append(bad, p.InstrPos(x)+": header read with a non-constant key")
						}
					case strings.HasPrefix(n, "(*net/http.Request).") || strings.HasPrefix(n, "(*net/url.URL)."):
						bad = append(bad, p.InstrPos(x)+": request data other than the client address is read: "+n)
					}
					if rc := Receiver(x); rc != nil && f == fn {
						if _, isLock := asLockOp(x); !isLock && !strings.HasSuffix(n, "Backend).healthy") && !strings.HasSuffix(n, "Backend).GetActiveConnections") &&
							!strings.HasPrefix(n, "(net/http.Header).") && !strings.HasPrefix(n, "(hash.Hash32).") || strings.HasPrefix(n, "(hash.Hash32).") && !c.P.Freshness().IsFresh(rc, 0) && !isLocalCallResult(rc) {
							if strings.Contains(p.DescQ(rc, nil), "fld:loadbalancer."+typ+".") {
								bad = append(bad, p.InstrPos(x)+": "+n+" is called on an object stored in the strategy and shared by concurrent picks (its state carries over between requests / is corrupted by overlapping ones)")
							}
						}
					}
					for _, cal := range p.Callees(x) {
						if cal.Name() == "healthy" || cal.Name() == "RLock" {
							continue
						}
						visit(cal)
					}
				}
			})
		}
		visit(fn)
		for f := range fields {
			if f != "Header" && f != "RemoteAddr" {
				bad = append(bad, "request field "+f+" influences the pick")
			}
		}
		for k := range hdrKeys {
			if ck := textproto.CanonicalMIMEHeaderKey(k); ck != "X-Forwarded-For" && ck != "X-Real-Ip" {
				bad = append(bad, "header "+k+" influences the pick")
			}
		}
		// RemoteAddr goes through SplitHostPort
		split := false
		for f := range seen {
			for _, ci := range callsIn(f) {
				if CalleeName(ci) == "net.SplitHostPort" && strings.Contains(p.Desc(ci.Common().Args[0], nil), "http.Request.RemoteAddr") {
					split = true
				}
			}
		}
		if fields["RemoteAddr"] && !split {
			bad = append(bad, "RemoteAddr is hashed with its port: the same client maps to different backends per connection")
		}
		// … and the raw RemoteAddr (port included) is used only where SplitHostPort refused it
		for f := range seen {
			var errBlocks []*ssa.BasicBlock
			type edge struct{ from, to *ssa.BasicBlock }
			errEdges := map[edge]bool{}
			instrsOf(f, func(in ssa.Instruction) {
				ifi, ok := in.(*ssa.If)
				if !ok {
					return
				}
				r := p.RelOf(ifi.Cond, true, nil)
				if !r.OK || !strings.Contains(r.X, "net.SplitHostPort(") || !strings.HasSuffix(r.X, "#2") || r.Lo != 0 || r.Hi != 0 {
					return
				}
				if r.Neq { // err != nil
					errBlocks = append(errBlocks, ifi.Block().Succs[0])
					errEdges[edge{ifi.Block(), ifi.Block().Succs[0]}] = true
				} else { // err == nil
					errBlocks = append(errBlocks, ifi.Block().Succs[1])
					errEdges[edge{ifi.Block(), ifi.Block().Succs[1]}] = true
				}
			})
			instrsOf(f, func(in ssa.Instruction) {
				ld, ok := in.(*ssa.UnOp)
				if !ok || ld.Op != token.MUL || !strings.HasSuffix(p.Desc(ld, nil), "http.Request.RemoteAddr") {
					return
				}
				onlySplit := ld.Referrers() != nil && len(*ld.Referrers()) > 0
				if ld.Referrers() != nil {
					for _, u := range *ld.Referrers() {
						ci, isCall := u.(ssa.CallInstruction)
						if _, dbg := u.(*ssa.DebugRef); dbg {
							continue
						}
						if ph, isPhi := u.(*ssa.Phi); isPhi {
							// a default that is overridden when the split succeeds: the raw value may
							// enter the merge only along the edge on which SplitHostPort refused it
							okPhi := true
							for i, e := range ph.Edges {
								if e != ssa.Value(ld) {
									continue
								}
								pred := ph.Block().Preds[i]
								along := errEdges[edge{pred, ph.Block()}]
								for _, eb := range errBlocks {
									if len(eb.Preds) == 1 && eb.Dominates(pred) {
										along = true
									}
								}
								if !along {
									okPhi = false
								}
							}
							if okPhi {
								continue
							}
						}
						if !isCall || CalleeName(ci) != "net.SplitHostPort" {
							onlySplit = false
						}
					}
				}
				if onlySplit {
					return
				}
				guarded := false
				for _, eb := range errBlocks {
					if len(eb.Preds) == 1 && eb.Dominates(ld.Block()) {
						guarded = true
					}
				}
				if !guarded {
					bad = append(bad, p.InstrPos(ld)+": the raw RemoteAddr (address:port) can reach the hash key although it is splittable: the same client maps to different backends per connection")
				}
			})
		}
		// the forwarded-for list is reduced to its first element (the client); the trailing hops
		// differ with the route a request took and must not reach the hash
		if hdrKeys["X-Forwarded-For"] {
			first := false
			for f := range seen {
				for _, ci := range callsIn(f) {
					call, isCall := ci.(*ssa.Call)
					if !isCall {
						continue
					}
					n := CalleeName(ci)
					args := ci.Common().Args
					switch n {
					case "strings.Split", "strings.SplitN":
						if sep, ok := constStr(args[1]); !ok || sep != "," {
							continue
						}
						if n == "strings.SplitN" {
							k, isK := constInt(args[2])
							if !isK || (k >= 0 && k < 2) {
								bad = append(bad, p.InstrPos(ci)+": strings.SplitN(…, \",\", "+p.Desc(args[2], nil)+") does not split off the first element (n < 2 returns the whole string, or nothing): the entire X-Forwarded-For list, proxy hops included, is hashed and one client is spread over several backends")
								continue
							}
						}
						// element 0 is what is used
						if refs := call.Referrers(); refs != nil {
							for _, r := range *refs {
								if ia, ok := r.(*ssa.IndexAddr); ok {
									if k, isK := constInt(ia.Index); isK && k == 0 {
										first = true
									} else {
										bad = append(bad, p.InstrPos(ia)+": an element other than the first of the X-Forwarded-For list is used as the client address")
									}
								}
							}
						}
					case "strings.Cut":
						if sep, ok := constStr(args[1]); ok && sep == "," {
							first = true
						}
					}
				}
			}
			// optional white space around the commas of a list header is legal ("a , b"): the element
			// is trimmed before it is hashed, as utils.GetClientIP does for the rate limiter
			if first && len(bad) == 0 {
				trimmed := false
				for f := range seen {
					for _, ci := range callsIn(f) {
						call, isCall := ci.(*ssa.Call)
						if !isCall || CalleeName(ci) != "strings.TrimSpace" {
							continue
						}
						if c.flowsFrom(call.Call.Args[0], func(v ssa.Value) bool {
							cl, ok := v.(*ssa.Call)
							if !ok {
								return false
							}
							switch CalleeName(cl) {
							case "strings.Split", "strings.SplitN", "strings.Cut":
								return true
							}
							return false
						}) {
							trimmed = true
						}
					}
				}
				if !trimmed {
					bad = append(bad, "the first element of X-Forwarded-For is hashed untrimmed: \"203.0.113.7 , 10.0.0.1\" (white space before the comma is legal in a list header) and \"203.0.113.7\" name the same client but hash to different backends")
				}
			}
			if !first && len(bad) == 0 {
				bad = append(bad, "X-Forwarded-For is hashed without being reduced to its first element: the same client maps to different backends depending on the proxies its request passed")
			}
		}
		sort.Strings(bad)
		if len(bad) == 0 {
			c.Pass("affinity-deterministic", construct, p.Pos(fn.Pos()), fmt.Sprintf("reads only %v / headers %v; no nondeterminism, no shared writes (%d functions)", keys(fields), keys(hdrKeys), len(seen)))
		} else {
			c.Fail("affinity-deterministic", construct, p.Pos(fn.Pos()), bad[0], bad...)
		}
		// index derives from hash and the length of the indexed slice
		okIdx, detail := false, "no element selected by a hash-derived index"
		instrsOf(fn, func(in ssa.Instruction) {
			r, isRet := in.(*ssa.Return)
			if !isRet || len(r.Results) != 1 {
				return
			}
			v := r.Results[0]
			if ld, ok := v.(*ssa.UnOp); ok {
				if a, isAlloc := ld.X.(*ssa.Alloc); isAlloc { // spilled result
					if refs := a.Referrers(); refs != nil {
						for _, rr := range *refs {
							if st, isSt := rr.(*ssa.Store); isSt && st.Addr == a && !isConstNil(st.Val) {
								v = st.Val
							}
						}
					}
				}
			}
			ld, ok := v.(*ssa.UnOp)
			if !ok {
				return
			}
			ia, ok := ld.X.(*ssa.IndexAddr)
			if !ok {
				return
			}
			d := p.Desc(ia.Index, nil)
			isSum := func(v ssa.Value) bool {
				call, ok := v.(*ssa.Call)
				return ok && strings.HasSuffix(CalleeName(call), ".Sum32")
			}
			fromHash := c.flowsFrom(ia.Index, isSum)
			if !fromHash {
				// the jump-hash loop inlined: the bucket derives from the counter, whose step derives from the key
				if _, jp, _ := c.jumpLoop(); jp != nil && jp.Parent() == fn {
					fromHash = c.flowsFrom(jp, isSum)
				}
			}
			if !fromHash {
				detail = "the index does not derive from the address hash: " + d
				return
			}
			// the length used is of the slice indexed
			usesLen := false
			var walk func(v ssa.Value, depth int)
			walk = func(v ssa.Value, depth int) {
				if depth > 6 {
					return
				}
				v = stripConv(v)
				switch x := v.(type) {
				case *ssa.BinOp:
					walk(x.X, depth+1)
					walk(x.Y, depth+1)
				case *ssa.Call:
					if CalleeName(x) == "builtin:len" && c.sameSlice(fn, x.Call.Args[0], ia.X) {
						usesLen = true
					}
					for _, a := range x.Call.Args {
						walk(a, depth+1)
					}
				}
			}
			walk(ia.Index, 0)
			if !usesLen {
				isLen := func(v ssa.Value) bool {
					call, ok := v.(*ssa.Call)
					return ok && CalleeName(call) == "builtin:len" && c.sameSlice(fn, call.Call.Args[0], ia.X)
				}
				// every way the index can be computed must be reduced by that length (a φ that merges an
				// index reduced by another length with a clamp is not)
				var all func(v ssa.Value, d int) bool
				all = func(v ssa.Value, d int) bool {
					v = stripConv(v)
					if ph, ok := v.(*ssa.Phi); ok && d < 6 {
						for _, e := range ph.Edges {
							if !all(e, d+1) {
								return false
							}
						}
						return len(ph.Edges) > 0
					}
					if b, ok := v.(*ssa.BinOp); ok && b.Op == token.REM {
						return c.flowsFrom(b.Y, isLen)
					}
					if call, ok := v.(*ssa.Call); ok {
						for _, a := range call.Call.Args {
							if c.flowsFrom(a, isLen) {
								return true
							}
						}
						if h := StaticFn(call); h != nil && p.IsHelios(h) && h.Blocks != nil {
							okAll, n := true, 0
							instrsOf(h, func(in ssa.Instruction) {
								if r, isRet := in.(*ssa.Return); isRet && len(r.Results) == 1 {
									n++
									if !all(r.Results[0], d+1) {
										okAll = false
									}
								}
							})
							return okAll && n > 0
						}
					}
					return false
				}
				usesLen = all(ia.Index, 0)
				if _, jp, bd := c.jumpLoop(); !usesLen && jp != nil && jp.Parent() == fn {
					usesLen = c.flowsFrom(bd, isLen)
				}
			}
			if !usesLen {
				detail = "the index is not reduced by the length of the slice it indexes (out-of-range panic or an ineligible backend)"
				return
			}
			okIdx = true
		})
		c.Check(okIdx, "affinity-index-in-slice", construct, p.Pos(fn.Pos()), "healthy[f(hash, len(healthy))] over one slice value", detail)
	}
	// jump consistent hash, wherever the loop lives (a helper or the strategy itself)
	jh, jphi, bound := c.jumpLoop()
	if jh == nil {
		c.Missing("jump-hash-in-range", "loadbalancer.jumpHash")
		return
	}
	okLoop := jphi != nil
	okRet := false
	isJ := func(v ssa.Value) bool { return v == ssa.Value(jphi) }
	viaBucket := func(v ssa.Value) bool {
		// the value is the bucket variable: a φ that took its value from the counter inside the loop
		ph, isPhi := stripConv(v).(*ssa.Phi)
		if !isPhi {
			return false
		}
		for _, e := range ph.Edges {
			if isJ(e) {
				return true
			}
			if inner, ok := e.(*ssa.Phi); ok {
				for _, e2 := range inner.Edges {
					if isJ(e2) {
						return true
					}
				}
			}
		}
		return false
	}
	if jphi != nil {
		instrsOf(jh, func(in ssa.Instruction) {
			switch x := in.(type) {
			case *ssa.Return:
				if len(x.Results) == 1 && viaBucket(x.Results[0]) {
					okRet = true
				}
			case *ssa.IndexAddr:
				if viaBucket(x.Index) {
					// inlined form: the bucket indexes the candidate slice directly; its bound must be that slice's length
					if c.flowsFrom(bound, func(v ssa.Value) bool {
						call, ok := v.(*ssa.Call)
						return ok && CalleeName(call) == "builtin:len" && c.sameSlice(jh, call.Call.Args[0], x.X)
					}) {
						okRet = true
					}
				}
			}
		})
	}
	// the jump step (b+1)*(2^31/((key>>33)+1)) needs 64-bit arithmetic: it reaches numBuckets·2^31
	wide := true
	var narrow string
	if jphi != nil {
		inLoop := map[*ssa.BasicBlock]bool{jphi.Block(): true}
		for _, b := range jh.Blocks {
			if jphi.Block().Dominates(b) && reaches(b, jphi.Block(), map[*ssa.BasicBlock]bool{}) {
				inLoop[b] = true
			}
		}
		instrsOf(jh, func(in ssa.Instruction) {
			if b, ok := in.(*ssa.BinOp); ok && inLoop[b.Block()] && (b.Op.String() == "*" || b.Op.String() == "/") {
				if bt, isB := b.Type().Underlying().(*types.Basic); isB && bt.Info()&types.IsInteger != 0 {
					if bt.Kind() != types.Int64 && bt.Kind() != types.Uint64 {
						wide = false
						narrow = p.InstrPos(b) + ": " + b.Op.String() + " computed in " + bt.Name()
					}
				}
			}
		})
		// the counter and the bucket themselves must be 64 bits wide
		if bt, isB := jphi.Type().Underlying().(*types.Basic); isB && bt.Kind() != types.Int64 && bt.Kind() != types.Uint64 {
			wide = false
			narrow = p.InstrPos(jphi) + ": loop counter is " + bt.Name()
		}
	}
	c.Check(wide, "jump-hash-arithmetic-width", "loadbalancer.jumpHash", p.Pos(jh.Pos()), "every product/quotient of the jump step is computed in 64 bits",
		"the jump step is computed in fewer than 64 bits ("+narrow+"): it overflows for some hash values, giving a negative or unrelated bucket (index out of range / clients remapped on append)")
	c.Check(okLoop && okRet, "jump-hash-in-range", "loadbalancer.jumpHash", p.Pos(jh.Pos()), "the returned bucket is a value of j taken while j < numBuckets",
		"the returned bucket is not one that was compared below numBuckets (index out of range for some hash values)")
}

// sameSlice: a and b denote the same slice — the same SSA value, or two loads of the same
// lock-guarded field of the same object made while its lock is held, in a function that does not
// store to that field.
func (c *Ctx) sameSlice(fn *ssa.Function, a, b ssa.Value) bool {
	if a == b {
		return true
	}
	fa, okA := LoadedField(a)
	fb, okB := LoadedField(b)
	if !okA || !okB || fa.Key() != fb.Key() || c.P.DescQ(a, nil) != c.P.DescQ(b, nil) {
		return false
	}
	class, guarded := tLock[fa.Key()]
	if !guarded {
		return false
	}
	fl := c.P.Locks().Fns[fn]
	for _, v := range []ssa.Value{a, b} {
		in, ok := v.(ssa.Instruction)
		if !ok || fl == nil || fl.Must[in].HoldsClass(class) == 0 {
			return false
		}
	}
	stored := false
	instrsOf(fn, func(in ssa.Instruction) {
		if k, _ := storeKey(in); k == fa.Key() {
			stored = true
		}
	})
	return !stored
}

// isLocalCallResult: v is the direct result of a call made in this function (e.g. fnv.New32a()).
func isLocalCallResult(v ssa.Value) bool {
	_, ok := stripConv(v).(*ssa.Call)
	return ok
}

// weightClamped: v equals the configured weight when that is ≥ 1 and 1 otherwise — written as a φ
// behind a `weight < 1` guard, or computed by a helper that does the same with returns.
func (c *Ctx) weightClamped(fn *ssa.Function, v ssa.Value, depth int) (bool, string) {
	p := c.P
	const cfgW = "fld:config.BackendConfig.Weight"
	if v == nil {
		return false, "Backend.Weight is not set from the configured weight"
	}
	v = stripConv(v)
	// the guard `configured weight ≤ 0` and the successor taken when it holds
	var lowEdge []*ssa.BasicBlock
	instrsOf(fn, func(in ssa.Instruction) {
		if ifi, isIf := in.(*ssa.If); isIf {
			r := p.RelOf(ifi.Cond, true, nil)
			if r.X != cfgW || r.Y != "" || r.Pred != "" || r.Neq {
				return
			}
			switch {
			case r.Lo == negInf && r.Hi == 0: // w ≤ 0  (w < 1)
				lowEdge = append(lowEdge, ifi.Block().Succs[0])
			case r.Lo == 1 && r.Hi == posInf: // w ≥ 1  (w > 0)
				lowEdge = append(lowEdge, ifi.Block().Succs[1])
			}
		}
	})
	if ph, isPhi := v.(*ssa.Phi); isPhi {
		hasOne, hasCfg := false, false
		for _, e := range ph.Edges {
			if k, isK := constInt(e); isK && k == 1 {
				hasOne = true
			}
			if p.Desc(e, nil) == cfgW {
				hasCfg = true
			}
		}
		if hasOne && hasCfg && len(lowEdge) > 0 {
			return true, ""
		}
		return false, fmt.Sprintf("weight is not clamped by `weight < 1 → 1` (default edge %v, configured edge %v, guard %v)", hasOne, hasCfg, len(lowEdge) > 0)
	}
	if call, isCall := v.(*ssa.Call); isCall && depth < 3 {
		if h := StaticFn(call); h != nil && p.IsHelios(h) && h.Blocks != nil && h.Signature.Results().Len() == 1 {
			okAll, n := true, 0
			why := ""
			instrsOf(h, func(in ssa.Instruction) {
				r, isRet := in.(*ssa.Return)
				if !isRet || len(r.Results) != 1 {
					return
				}
				n++
				res := stripConv(r.Results[0])
				if _, isPhi := res.(*ssa.Phi); isPhi {
					if ok, w := c.weightClamped(h, res, depth+1); !ok {
						okAll, why = false, w
					}
					return
				}
				// evaluate the guard inside the helper
				ok2, w := c.weightReturn(h, r, res)
				if !ok2 {
					okAll, why = false, w
				}
			})
			if n > 0 && okAll {
				return true, ""
			}
			if why == "" {
				why = "the helper computing the weight does not clamp it"
			}
			return false, why
		}
	}
	return false, "configured weight is stored unclamped: " + p.Desc(v, nil) + " (a weight of 0 makes smooth WRR never pick the backend)"
}

// weightReturn: inside a clamp helper, `return 1` lies on the weight ≤ 0 edge and `return weight` off it.
func (c *Ctx) weightReturn(h *ssa.Function, r *ssa.Return, res ssa.Value) (bool, string) {
	p := c.P
	const cfgW = "fld:config.BackendConfig.Weight"
	var low []*ssa.BasicBlock
	instrsOf(h, func(in ssa.Instruction) {
		if ifi, isIf := in.(*ssa.If); isIf {
			rel := p.RelOf(ifi.Cond, true, nil)
			if rel.X != cfgW || rel.Y != "" || rel.Pred != "" || rel.Neq {
				return
			}
			switch {
			case rel.Lo == negInf && rel.Hi == 0:
				low = append(low, ifi.Block().Succs[0])
			case rel.Lo == 1 && rel.Hi == posInf:
				low = append(low, ifi.Block().Succs[1])
			}
		}
	})
	onLow := false
	for _, e := range low {
		if len(e.Preds) == 1 && e.Dominates(r.Block()) {
			onLow = true
		}
	}
	if k, isK := constInt(res); isK {
		if k == 1 && onLow {
			return true, ""
		}
		return false, "the weight helper returns a constant that is not the default 1 behind a `weight < 1` guard"
	}
	if p.Desc(res, nil) == cfgW {
		if !onLow && len(low) > 0 {
			return true, ""
		}
		return false, "the weight helper returns the configured weight without having excluded weight < 1"
	}
	return false, "the weight helper returns something other than the configured weight or the default 1: " + p.Desc(res, nil)
}

// transportAllocs resolves a value stored as a proxy's Transport to the http.Transport literal(s) it
// can be, looking through conversions, φs and helpers that build the transport.
func (c *Ctx) transportAllocs(v ssa.Value, depth int, out *[]*ssa.Alloc) {
	p := c.P
	if v == nil || depth > 4 {
		return
	}
	switch x := v.(type) {
	case *ssa.Alloc:
		if QualType(namedOf(x.Type())) == "http.Transport" {
			*out = append(*out, x)
		}
	case *ssa.MakeInterface:
		c.transportAllocs(x.X, depth+1, out)
	case *ssa.ChangeType:
		c.transportAllocs(x.X, depth+1, out)
	case *ssa.ChangeInterface:
		c.transportAllocs(x.X, depth+1, out)
	case *ssa.Phi:
		for _, e := range x.Edges {
			c.transportAllocs(e, depth+1, out)
		}
	case *ssa.Call:
		if h := StaticFn(x); h != nil && p.IsHelios(h) && h.Blocks != nil {
			instrsOf(h, func(in ssa.Instruction) {
				if r, ok := in.(*ssa.Return); ok {
					for _, rv := range r.Results {
						c.transportAllocs(rv, depth+1, out)
					}
				}
			})
		}
	case *ssa.Extract:
		c.transportAllocs(x.Tuple, depth+1, out)
	}
}

// flowsFrom: does v depend (through arithmetic, conversions, φs, call arguments and helper results) on
// a value that satisfies hit?
func (c *Ctx) flowsFrom(v ssa.Value, hit func(ssa.Value) bool) bool {
	seen := map[ssa.Value]bool{}
	var walk func(x ssa.Value, d int) bool
	walk = func(x ssa.Value, d int) bool {
		if x == nil || seen[x] || d > 16 {
			return false
		}
		seen[x] = true
		if hit(x) {
			return true
		}
		switch y := x.(type) {
		case *ssa.BinOp:
			return walk(y.X, d+1) || walk(y.Y, d+1)
		case *ssa.UnOp:
			if a, ok := y.X.(*ssa.Alloc); ok && a.Referrers() != nil {
				// a local variable: whatever was stored into it
				for _, r := range *a.Referrers() {
					if st, ok := r.(*ssa.Store); ok && st.Addr == ssa.Value(a) && walk(st.Val, d+1) {
						return true
					}
				}
				return false
			}
			return walk(y.X, d+1)
		case *ssa.Alloc:
			// a literal ([]T{a, b}, &S{…}): whatever was stored into its elements / fields
			if y.Referrers() != nil {
				for _, r := range *y.Referrers() {
					var addr ssa.Value
					switch e := r.(type) {
					case *ssa.IndexAddr:
						addr = e
					case *ssa.FieldAddr:
						addr = e
					case *ssa.Store:
						if e.Addr == ssa.Value(y) && walk(e.Val, d+1) {
							return true
						}
					}
					if addr != nil && addr.Referrers() != nil {
						for _, u := range *addr.Referrers() {
							if st, ok := u.(*ssa.Store); ok && st.Addr == addr && walk(st.Val, d+1) {
								return true
							}
						}
					}
				}
			}
			return false
		case *ssa.MakeSlice:
			// make([]T, n) filled by index: its size, and whatever is stored into its elements
			if walk(y.Len, d+1) || walk(y.Cap, d+1) {
				return true
			}
			if y.Referrers() != nil {
				for _, r := range *y.Referrers() {
					ia, ok := r.(*ssa.IndexAddr)
					if !ok || ia.Referrers() == nil {
						continue
					}
					for _, u := range *ia.Referrers() {
						if st, ok := u.(*ssa.Store); ok && st.Addr == ssa.Value(ia) && walk(st.Val, d+1) {
							return true
						}
					}
				}
			}
			return false
		case *ssa.TypeAssert:
			return walk(y.X, d+1)
		case *ssa.MakeInterface:
			return walk(y.X, d+1)
		case *ssa.ChangeInterface:
			return walk(y.X, d+1)
		case *ssa.Slice:
			return walk(y.X, d+1)
		case *ssa.IndexAddr:
			return walk(y.X, d+1)
		case *ssa.Index:
			return walk(y.X, d+1)
		case *ssa.Next:
			return walk(y.Iter, d+1)
		case *ssa.Range:
			return walk(y.X, d+1)
		case *ssa.Convert:
			return walk(y.X, d+1)
		case *ssa.ChangeType:
			return walk(y.X, d+1)
		case *ssa.Phi:
			for _, e := range y.Edges {
				if walk(e, d+1) {
					return true
				}
			}
		case *ssa.Extract:
			return walk(y.Tuple, d+1)
		case *ssa.Call:
			for _, a := range y.Call.Args {
				if walk(a, d+1) {
					return true
				}
			}
			if y.Call.IsInvoke() && walk(y.Call.Value, d+1) {
				return true
			}
			if h := StaticFn(y); h != nil && c.P.IsHelios(h) && h.Blocks != nil {
				found := false
				instrsOf(h, func(in ssa.Instruction) {
					if r, ok := in.(*ssa.Return); ok {
						for _, rv := range r.Results {
							if walk(rv, d+1) {
								found = true
							}
						}
					}
				})
				if found {
					return true
				}
			}
		}
		return false
	}
	return walk(v, 0)
}

// jumpLoop finds the jump-consistent-hash loop (recognised by its LCG multiplier) wherever it lives:
// the function, the loop counter φ and the bound it is compared below.
func (c *Ctx) jumpLoop() (fn *ssa.Function, j *ssa.Phi, bound ssa.Value) {
	p := c.P
	for _, f := range p.Funcs {
		if !p.InScope(f) {
			continue
		}
		has := false
		instrsOf(f, func(in ssa.Instruction) {
			if b, ok := in.(*ssa.BinOp); ok && b.Op == token.MUL {
				for _, o := range []ssa.Value{b.X, b.Y} {
					if k, isK := o.(*ssa.Const); isK && k.Value != nil && k.Value.ExactString() == "2862933555777941757" {
						has = true
					}
				}
			}
		})
		if !has {
			continue
		}
		fn = f
		instrsOf(f, func(in ssa.Instruction) {
			ifi, isIf := in.(*ssa.If)
			if !isIf {
				return
			}
			b, ok := ifi.Cond.(*ssa.BinOp)
			if !ok {
				return
			}
			r := p.RelOf(ifi.Cond, true, nil)
			if ph, isPhi := b.X.(*ssa.Phi); isPhi && r.OK && r.Pred == "" && r.Hi == -1 && r.Lo == negInf && ifi.Block() == ph.Block() {
				j, bound = ph, b.Y
			}
		})
		return
	}
	return nil, nil, nil
}

// copyBuffersExclusive: a ReverseProxy.BufferPool hands the buffer through which one response body
// is copied to the client; two copies running at the same time (any two requests) must never get
// the same backing array, or bytes of one response appear inside another.  Every buffer Get returns
// is therefore either allocated by that call, or taken from a sync.Pool whose New allocates on each
// call (a pool item is owned by one taker between Get and Put).
func (c *Ctx) copyBuffersExclusive() {
	p := c.P
	rule := "copy-buffers-exclusive"
	n := 0
	for _, fn := range p.Funcs {
		if !p.InScope(fn) {
			continue
		}
		instrsOf(fn, func(in ssa.Instruction) {
			k, st := storeKey(in)
			if k != "httputil.ReverseProxy.BufferPool" {
				return
			}
			n++
			construct := p.FuncKey(fn) + "/ReverseProxy.BufferPool"
			mi, ok := st.Val.(*ssa.MakeInterface)
			if !ok {
				if cst, isK := st.Val.(*ssa.Const); isK && cst.Value == nil {
					c.Pass(rule, construct, p.InstrPos(st), "no buffer pool installed (nil): every copy allocates its own buffer")
					return
				}
				c.Undecided(rule, construct, p.InstrPos(st), "the installed buffer pool is not a concrete value: "+p.Desc(st.Val, nil))
				return
			}
			ms := p.SSA.MethodSets.MethodSet(mi.X.Type())
			var get *ssa.Function
			for i := 0; i < ms.Len(); i++ {
				if ms.At(i).Obj().Name() == "Get" {
					get = p.SSA.MethodValue(ms.At(i))
				}
			}
			if get == nil || get.Blocks == nil {
				c.Undecided(rule, construct, p.InstrPos(st), "the pool's Get method has no analysable body")
				return
			}
			if why := c.sharedBuffer(get, 0); why != "" {
				c.Fail(rule, construct, p.InstrPos(st), "the proxy copy buffer is not exclusive to one response: "+why+" — two responses copied at the same time share a backing array and the client receives bytes of another response")
				return
			}
			c.Pass(rule, construct, p.InstrPos(st), "every buffer "+p.FuncKey(get)+" returns is allocated by the call or comes from a sync.Pool whose New allocates per call")
		})
	}
	if n == 0 {
		c.Pass(rule, "httputil.ReverseProxy.BufferPool", "-", "no buffer pool is installed: httputil allocates a buffer per copy")
	}
}

// sharedBuffer reports why a value returned by fn may be shared between calls ("" when every
// returned buffer is exclusive).
func (c *Ctx) sharedBuffer(fn *ssa.Function, depth int) string {
	p := c.P
	if depth > 4 {
		return "allocation not found within 4 helper levels"
	}
	why := ""
	instrsOf(fn, func(in ssa.Instruction) {
		r, ok := in.(*ssa.Return)
		if !ok || why != "" {
			return
		}
		for _, res := range r.Results {
			if w := c.sharedValue(res, fn, depth, map[ssa.Value]bool{}); w != "" {
				why = p.InstrPos(r) + ": " + w
				return
			}
		}
	})
	return why
}

func (c *Ctx) sharedValue(v ssa.Value, fn *ssa.Function, depth int, seen map[ssa.Value]bool) string {
	p := c.P
	if seen[v] {
		return ""
	}
	seen[v] = true
	switch x := v.(type) {
	case *ssa.MakeSlice:
		return ""
	case *ssa.Alloc:
		return ""
	case *ssa.Const:
		if x.Value == nil {
			return ""
		}
	case *ssa.ChangeType:
		return c.sharedValue(x.X, fn, depth, seen)
	case *ssa.Convert:
		return c.sharedValue(x.X, fn, depth, seen)
	case *ssa.MakeInterface:
		return c.sharedValue(x.X, fn, depth, seen)
	case *ssa.Slice:
		return c.sharedValue(x.X, fn, depth, seen)
	case *ssa.TypeAssert:
		return c.sharedValue(x.X, fn, depth, seen)
	case *ssa.Extract:
		return c.sharedValue(x.Tuple, fn, depth, seen)
	case *ssa.UnOp:
		if x.Op == token.MUL {
			// *p where p is itself an exclusive allocation (pools of *[]byte)
			return c.sharedValue(x.X, fn, depth, seen)
		}
	case *ssa.Phi:
		for _, e := range x.Edges {
			if w := c.sharedValue(e, fn, depth, seen); w != "" {
				return w
			}
		}
		return ""
	case *ssa.Call:
		switch CalleeName(x) {
		case "(*sync.Pool).Get":
			return c.poolNewShared(x.Call.Args[0], depth)
		case "builtin:append":
			return c.sharedValue(x.Call.Args[0], fn, depth, seen)
		}
		if callee := StaticFn(x); callee != nil && callee.Blocks != nil && p.IsHelios(callee) {
			return c.sharedBuffer(callee, depth+1)
		}
	}
	return "returns " + p.Desc(v, nil) + ", a value that outlives the call (captured variable, field or global)"
}

// poolNewShared: every store to the New field of the pool addressed by poolAddr installs a function
// whose results are allocated per call.
func (c *Ctx) poolNewShared(poolAddr ssa.Value, depth int) string {
	p := c.P
	fa, ok := poolAddr.(*ssa.FieldAddr)
	var key string
	if ok {
		if fr, ok2 := fieldRefOf(fa); ok2 {
			key = fr.Key()
		}
	}
	if key == "" {
		if g, isG := poolAddr.(*ssa.Global); isG {
			key = "global:" + g.Name()
		} else {
			return "takes buffers from a sync.Pool that cannot be identified (" + p.Desc(poolAddr, nil) + ")"
		}
	}
	found, why := false, ""
	for _, fn := range p.Funcs {
		instrsOf(fn, func(in ssa.Instruction) {
			st, isStore := in.(*ssa.Store)
			if !isStore || why != "" {
				return
			}
			nf, isFA := st.Addr.(*ssa.FieldAddr)
			if !isFA {
				return
			}
			fr, ok := fieldRefOf(nf)
			if !ok || fr.Key() != "sync.Pool.New" {
				return
			}
			// the pool this New belongs to: a field of a struct (x.pool.New) or a global
			owner := ""
			if inner, isInner := nf.X.(*ssa.FieldAddr); isInner {
				if ifr, ok := fieldRefOf(inner); ok {
					owner = ifr.Key()
				}
			} else if g, isG := nf.X.(*ssa.Global); isG {
				owner = "global:" + g.Name()
			}
			if owner != key {
				return
			}
			found = true
			var newFn *ssa.Function
			switch f := stripConv(st.Val).(type) {
			case *ssa.MakeClosure:
				newFn = f.Fn.(*ssa.Function)
			case *ssa.Function:
				newFn = f
			}
			if newFn == nil || newFn.Blocks == nil {
				why = "the pool's New is not a function literal (" + p.Desc(st.Val, nil) + ")"
				return
			}
			if w := c.sharedBuffer(newFn, depth+1); w != "" {
				why = "the pool's New does not allocate per call: " + w
			}
		})
	}
	if why != "" {
		return why
	}
	// (a pool without New hands out only what was Put — owned by one taker between Get and Put — or
	// nil, which the caller has to replace by an allocation of its own)
	_ = found
	return ""
}

// consistentAppendOnly: jump hash maps a key to an *index*; "appending a backend moves a client only
// to the new backend" therefore needs the pool to keep every existing backend at its index when one is
// added.  In IPHashConsistentStrategy.AddBackend the pool is only ever extended by append(pool, b): it
// is not handed to anything that may permute it (sort.*, slices.*, copy, a helper) and none of its
// elements is stored.
func (c *Ctx) consistentAppendOnly() {
	p := c.P
	construct := "loadbalancer.(*IPHashConsistentStrategy).AddBackend"
	fn := p.Fn("internal/loadbalancer", "IPHashConsistentStrategy", "AddBackend")
	if fn == nil {
		c.Missing("consistent-append-only", construct)
		return
	}
	const key = "loadbalancer.IPHashConsistentStrategy.backends"
	var bad []string
	appended := false
	fns := append([]*ssa.Function{fn}, fn.AnonFuncs...)
	for _, f := range fns {
		for _, a := range Accesses(f) {
			if a.Key != key {
				continue
			}
			switch a.Kind {
			case "elem-write":
				if ci, isCall := a.Instr.(ssa.CallInstruction); isCall && CalleeName(ci) == "builtin:append" {
					break // the append itself (it may write into spare capacity, never over an element)
				}
				bad = append(bad, p.InstrPos(a.Instr)+": an element of the pool is overwritten while a backend is added")
			case "escape":
				bad = append(bad, p.InstrPos(a.Instr)+": the pool's address escapes while a backend is added")
			}
			if strings.HasPrefix(a.Kind, "method:") {
				bad = append(bad, p.InstrPos(a.Instr)+": "+a.Kind)
			}
		}
		instrsOf(f, func(in ssa.Instruction) {
			ci, ok := in.(ssa.CallInstruction)
			if !ok {
				return
			}
			n := CalleeName(ci)
			for i, arg := range ci.Common().Args {
				d := p.Desc(arg, nil)
				if !strings.Contains(d, "fld:"+key) {
					continue
				}
				switch {
				case n == "builtin:append" && i == 0:
					appended = true
				case n == "builtin:len" || n == "builtin:cap":
				case n == "builtin:append":
					// the pool appended to something else: harmless here
				default:
					bad = append(bad, fmt.Sprintf("%s: the pool is handed to %s while a backend is added: anything that permutes it (a sort by name, a compaction) changes the index of existing backends, and jump hash maps clients to indices — clients move between old backends", p.InstrPos(ci), n))
				}
			}
		})
	}
	if !appended {
		bad = append(bad, p.Pos(fn.Pos())+": the backend is not added by append(pool, backend)")
	}
	if len(bad) == 0 {
		c.Pass("consistent-append-only", construct, p.Pos(fn.Pos()), "the pool is extended by append only; no element store, no call receives the pool")
	} else {
		c.Fail("consistent-append-only", construct, p.Pos(fn.Pos()), bad[0], bad...)
	}
}

// clientKeyUntouchedBeforePick: affinity is a function of the client address *as the request carried
// it*.  The hashing strategies read X-Forwarded-For, X-Real-IP and RemoteAddr from the request object
// the balancer hands them; a header the balancer itself sets on that object before the pick (an
// "X-Real-IP: <peer>" meant for the backends) replaces the client's own address with the relaying
// peer's and one client is spread over the pool.  On every path of ServeHTTP, up to the strategy's
// NextBackend call, no store to Request.RemoteAddr / Request.Header and no Header.Set/Add/Del on the
// request's header map whose name is (or may be) one of the two client-address headers.
func (c *Ctx) clientKeyUntouchedBeforePick() {
	p := c.P
	serve := p.Fn("internal/loadbalancer", "LoadBalancer", "ServeHTTP")
	sp := c.transparencySpec()
	base := sp.Event
	// the pick: the dynamic call of the Strategy interface's NextBackend, or a call of a balancer
	// function the walker does not open that reaches one (LoadBalancer.NextBackend today)
	isPick := func(ci ssa.CallInstruction) bool {
		return ci.Common().IsInvoke() && ci.Common().Method.Name() == "NextBackend"
	}
	memo := map[*ssa.Function]bool{}
	var reaches func(f *ssa.Function, d int) bool
	reaches = func(f *ssa.Function, d int) bool {
		if v, ok := memo[f]; ok {
			return v
		}
		if f == nil || f.Blocks == nil || !p.IsHelios(f) || d > 4 || (sp.Expand != nil && sp.Expand(f, nil)) {
			return false
		}
		memo[f] = false
		r := false
		for _, ci := range callsIn(f) {
			if isPick(ci) {
				r = true
				break
			}
			if g := StaticFn(ci); g != nil && g != f && g.Blocks != nil && p.IsHelios(g) {
				if v, ok := memo[g]; ok && v {
					r = true
					break
				}
				if _, ok := memo[g]; !ok && reachesAny(g, isPick, p, d+1) {
					r = true
					break
				}
			}
		}
		memo[f] = r
		return r
	}
	sp.Event = func(in ssa.Instruction, fr *Frame) string {
		if ci, ok := in.(ssa.CallInstruction); ok {
			if isPick(ci) {
				return "pick"
			}
			if f := StaticFn(ci); f != nil && reaches(f, 0) {
				return "pick"
			}
		}
		return base(in, fr)
	}
	picks := 0
	c.traceRule("client-key-untouched-before-pick", "loadbalancer.(*LoadBalancer).ServeHTTP", serve, sp,
		"on every path nothing writes RemoteAddr, the header map or a client-address header of the request before the strategy's NextBackend call",
		func(t *Trace) string {
			end := -1
			for i, it := range t.Items {
				if it.Label == "pick" {
					end = i
					picks++
					break
				}
			}
			if end < 0 {
				return ""
			}
			for _, it := range t.Items[:end] {
				switch {
				case it.Label == "mutate:store http.Request.RemoteAddr", it.Label == "mutate:store http.Request.Header":
					return "the request's client-address input is replaced before the pick: " + it.Label
				case strings.HasPrefix(it.Label, "mutate:header.") && strings.Contains(it.Label, "http.Request.Header"):
					ci, ok := it.Instr.(ssa.CallInstruction)
					if !ok || len(ci.Common().Args) < 2 {
						return "undecided: header mutation of the request before the pick: " + it.Label
					}
					k, isConst := constStr(ci.Common().Args[1])
					if !isConst {
						return "a request header with a non-constant name is written before the pick (it may be a client-address header): " + it.Label
					}
					switch textproto.CanonicalMIMEHeaderKey(k) {
					case "X-Forwarded-For", "X-Real-Ip":
						return "the balancer writes the request's " + k + " header before the strategy hashes the client address: the key is no longer the one the client's request carried"
					}
				}
			}
			return ""
		})
	c.Floor("client-key-untouched-before-pick", picks, 1, "paths that reach the strategy's NextBackend")
}

// reachesAny: does f (through at most a few static Helios calls) contain a call satisfying pred?
func reachesAny(f *ssa.Function, pred func(ssa.CallInstruction) bool, p *Program, d int) bool {
	if f == nil || f.Blocks == nil || d > 4 {
		return false
	}
	for _, ci := range callsIn(f) {
		if pred(ci) {
			return true
		}
		if g := StaticFn(ci); g != nil && g != f && p.IsHelios(g) && reachesAny(g, pred, p, d+1) {
			return true
		}
	}
	return false
}
