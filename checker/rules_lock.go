package main

import (
	"fmt"
	"go/types"
	"sort"
	"strings"

	"golang.org/x/tools/go/ssa"
)

// T-LOCK: field -> lock class that must be held (frozen from reading every access; §4 C12).
var tLock = map[string]string{
	"loadbalancer.Backend.IsHealthy":                   "loadbalancer.Backend.Mutex",
	"loadbalancer.Backend.UnhealthyUntil":              "loadbalancer.Backend.Mutex",
	"loadbalancer.LoadBalancer.strategy":               "loadbalancer.LoadBalancer.mutex",
	"loadbalancer.healthChecker.unhealthyBackends":     "loadbalancer.healthChecker.unhealthyBackendMu",
	"loadbalancer.RoundRobinStrategy.backends":         "loadbalancer.RoundRobinStrategy.mutex",
	"loadbalancer.LeastConnectionsStrategy.backends":   "loadbalancer.LeastConnectionsStrategy.mutex",
	"loadbalancer.IPHashStrategy.backends":             "loadbalancer.IPHashStrategy.mutex",
	"loadbalancer.IPHashConsistentStrategy.backends":   "loadbalancer.IPHashConsistentStrategy.mutex",
	"loadbalancer.WeightedRoundRobinStrategy.backends": "loadbalancer.WeightedRoundRobinStrategy.mutex",
	"loadbalancer.weightedBackend.currentWeight":       "loadbalancer.WeightedRoundRobinStrategy.mutex",
	"circuitbreaker.CircuitBreaker.state":              "circuitbreaker.CircuitBreaker.mutex",
	"circuitbreaker.CircuitBreaker.failureCount":       "circuitbreaker.CircuitBreaker.mutex",
	"circuitbreaker.CircuitBreaker.successCount":       "circuitbreaker.CircuitBreaker.mutex",
	"circuitbreaker.CircuitBreaker.requestCount":       "circuitbreaker.CircuitBreaker.mutex",
	"circuitbreaker.CircuitBreaker.lastFailureTime":    "circuitbreaker.CircuitBreaker.mutex",
	"circuitbreaker.CircuitBreaker.lastSuccessTime":    "circuitbreaker.CircuitBreaker.mutex",
	"circuitbreaker.CircuitBreaker.nextAttempt":        "circuitbreaker.CircuitBreaker.mutex",
	"ratelimiter.bucket.tokens":                        "ratelimiter.bucket.mutex",
	"ratelimiter.bucket.lastRefill":                    "ratelimiter.bucket.mutex",
	"ratelimiter.bucket.evicted":                       "ratelimiter.bucket.mutex",
	"metrics.Metrics.BackendMetrics":                   "metrics.Metrics.mutex",
	"metrics.Metrics.CircuitBreakerMetrics":            "metrics.Metrics.mutex",
	"metrics.Metrics.Uptime":                           "metrics.Metrics.mutex",
	"metrics.BackendMetrics.Name":                      "metrics.Metrics.mutex",
	"metrics.BackendMetrics.TotalRequests":             "metrics.Metrics.mutex",
	"metrics.BackendMetrics.SuccessfulRequests":        "metrics.Metrics.mutex",
	"metrics.BackendMetrics.FailedRequests":            "metrics.Metrics.mutex",
	"metrics.BackendMetrics.ActiveConnections":         "metrics.Metrics.mutex",
	"metrics.BackendMetrics.AverageResponseTime":       "metrics.Metrics.mutex",
	"metrics.BackendMetrics.alpha":                     "metrics.Metrics.mutex",
	"metrics.BackendMetrics.IsHealthy":                 "metrics.Metrics.mutex",
	"metrics.BackendMetrics.LastHealthCheck":           "metrics.Metrics.mutex",
	"metrics.CircuitBreakerMetrics.Name":               "metrics.Metrics.mutex",
	"metrics.CircuitBreakerMetrics.State":              "metrics.Metrics.mutex",
	"metrics.CircuitBreakerMetrics.FailureCount":       "metrics.Metrics.mutex",
	"metrics.CircuitBreakerMetrics.SuccessCount":       "metrics.Metrics.mutex",
	"metrics.CircuitBreakerMetrics.RequestCount":       "metrics.Metrics.mutex",
	"metrics.CircuitBreakerMetrics.LastStateChange":    "metrics.Metrics.mutex",
	"loadbalancer.WebSocketPool.pools":                 "loadbalancer.WebSocketPool.mu",
	"loadbalancer.connPool.idle":                       "loadbalancer.connPool.mu",
	"loadbalancer.connPool.active":                     "loadbalancer.connPool.mu",
}

// T-ATOMIC: fields that may only be touched through sync/atomic.
var tAtomic = map[string]bool{
	"loadbalancer.Backend.ActiveConnections":  true,
	"loadbalancer.RoundRobinStrategy.current": true,
	"metrics.Metrics.TotalRequests":           true,
	"metrics.Metrics.SuccessfulRequests":      true,
	"metrics.Metrics.FailedRequests":          true,
	"metrics.Metrics.RateLimitedRequests":     true,
	"metrics.Metrics.avgResponseTimeBits":     true,
}

// T-IMMUT: fields written only before the object is published.
var tImmut = map[string]bool{
	"loadbalancer.Backend.Name": true, "loadbalancer.Backend.URL": true, "loadbalancer.Backend.ReverseProxy": true, "loadbalancer.Backend.Weight": true,
	"circuitbreaker.CircuitBreaker.name": true, "circuitbreaker.CircuitBreaker.maxRequests": true, "circuitbreaker.CircuitBreaker.interval": true,
	"circuitbreaker.CircuitBreaker.timeout": true, "circuitbreaker.CircuitBreaker.failureThreshold": true, "circuitbreaker.CircuitBreaker.successThreshold": true,
	"circuitbreaker.CircuitBreaker.onStateChange":  true,
	"ratelimiter.TokenBucketRateLimiter.maxTokens": true, "ratelimiter.TokenBucketRateLimiter.refillRate": true, "ratelimiter.TokenBucketRateLimiter.cleanupTick": true,
	"loadbalancer.healthChecker.activeEnabled": true, "loadbalancer.healthChecker.activeInterval": true, "loadbalancer.healthChecker.activeTimeout": true,
	"loadbalancer.healthChecker.activePath": true, "loadbalancer.healthChecker.passiveEnabled": true, "loadbalancer.healthChecker.passiveThreshold": true,
	"loadbalancer.healthChecker.passiveTimeout": true,
	"loadbalancer.WebSocketPool.maxIdle":        true, "loadbalancer.WebSocketPool.maxActive": true, "loadbalancer.WebSocketPool.idleTimeout": true,
	"loadbalancer.connPool.backend": true, "loadbalancer.connPool.idleTimeout": true,
	"loadbalancer.LoadBalancer.config": true, "loadbalancer.LoadBalancer.healthChecks": true, "loadbalancer.LoadBalancer.rateLimiter": true,
	"loadbalancer.LoadBalancer.circuitBreaker": true, "loadbalancer.LoadBalancer.metricsCollector": true, "loadbalancer.LoadBalancer.ctx": true,
	"loadbalancer.LoadBalancer.cancel": true, "loadbalancer.LoadBalancer.wsPool": true,
	"loadbalancer.weightedBackend.backend": true,
	"metrics.MetricsCollector.metrics":     true, "metrics.Metrics.StartTime": true, "metrics.Metrics.alpha": true,
	"adminapi.IPFilter.allowList": true, "adminapi.IPFilter.denyList": true,
}

// lockDiscipline runs the guarded-by / atomic-only / immutable rules restricted to fields
// selected by sel (nil = all).  It is shared by C04, C05, C07, C09, C11, C12, C20.
func lockDiscipline(c *Ctx, sel func(key string) bool) {
	p := c.P
	li := p.Locks()
	fr := p.Freshness()
	type agg struct {
		n, exempt int
		bad       []string
		pos       string
	}
	nAcc := 0
	seenField := map[string]bool{}
	for _, fn := range p.Funcs {
		if !p.InScope(fn) {
			continue
		}
		fl := li.Fns[fn]
		fkey := p.FuncKey(fn)
		per := map[string]*agg{} // rule|field -> aggregate for this function
		get := func(rule, key string) *agg {
			k := rule + "|" + key
			if per[k] == nil {
				per[k] = &agg{}
			}
			return per[k]
		}
		for _, a := range Accesses(fn) {
			if sel != nil && !sel(a.Key) {
				continue
			}
			pos := p.InstrPos(a.Instr)
			if class, ok := tLock[a.Key]; ok {
				seenField[a.Key] = true
				nAcc++
				g := get("guarded-by", a.Key)
				g.n++
				if g.pos == "" {
					g.pos = pos
				}
				if strings.HasPrefix(a.Kind, "method:") || a.Kind == "escape" {
					g.bad = append(g.bad, fmt.Sprintf("%s: undecided: address of guarded field used as %s", pos, a.Kind))
					continue
				}
				if a.Kind == "atomic" {
					g.bad = append(g.bad, fmt.Sprintf("%s: guarded field accessed atomically instead of under %s", pos, class))
					continue
				}
				if fr.IsFresh(a.FA.X, 0) {
					g.exempt++
					continue
				}
				ls := fl.Must[a.Instr]
				var mode byte
				if lockStructOf(class) == QualType(a.Field.Struct) {
					mode = ls.HoldsInstance(class, AccessPath(a.FA.X))
					if mode == 0 && ls.HoldsClass(class) != 0 {
						g.bad = append(g.bad, fmt.Sprintf("%s: %s of %s with %s held on a different instance (%s)", pos, a.Kind, a.Key, class, ls))
						continue
					}
				} else {
					mode = ls.HoldsClass(class)
				}
				switch {
				case mode == 0:
					g.bad = append(g.bad, fmt.Sprintf("%s: %s of %s without %s (held: %s)", pos, a.Kind, a.Key, class, ls))
				case a.IsWrite() && mode != 'W':
					g.bad = append(g.bad, fmt.Sprintf("%s: %s of %s under read lock only (%s)", pos, a.Kind, a.Key, ls))
				}
			} else if tAtomic[a.Key] {
				seenField[a.Key] = true
				nAcc++
				g := get("atomic-only", a.Key)
				g.n++
				if g.pos == "" {
					g.pos = pos
				}
				if a.Kind == "atomic" {
					continue
				}
				if fr.IsFresh(a.FA.X, 0) {
					g.exempt++
					continue
				}
				g.bad = append(g.bad, fmt.Sprintf("%s: non-atomic %s of %s", pos, a.Kind, a.Key))
			} else if tImmut[a.Key] {
				seenField[a.Key] = true
				if a.Kind == "read" || a.Kind == "elem-read" {
					continue
				}
				nAcc++
				g := get("immutable-after-construction", a.Key)
				g.n++
				if g.pos == "" {
					g.pos = pos
				}
				if strings.HasPrefix(a.Kind, "method:") {
					continue // method on the field value (e.g. (*url.URL).String); not a store
				}
				if fr.IsFresh(a.FA.X, 0) {
					g.exempt++
					continue
				}
				g.bad = append(g.bad, fmt.Sprintf("%s: %s of %s after publication", pos, a.Kind, a.Key))
			}
		}
		var keys []string
		for k := range per {
			keys = append(keys, k)
		}
		sort.Strings(keys)
		for _, k := range keys {
			g := per[k]
			parts := strings.SplitN(k, "|", 2)
			construct := fkey + "/" + parts[1]
			if len(g.bad) == 0 {
				c.Pass(parts[0], construct, g.pos, fmt.Sprintf("%d accesses, %d thread-local", g.n, g.exempt))
			} else {
				st := Violated
				for _, b := range g.bad {
					if strings.Contains(b, "undecided:") {
						st = Undecided
					}
				}
				c.add(parts[0], construct, g.pos, st, g.bad[0], g.bad...)
			}
		}
	}
	staleWrites(c, sel)
	guardedContainerEscape(c, sel)
	c.Count("field_accesses_classified", nAcc)
	c.Count("fields_with_accesses", len(seenField))
	// every table row selected must have been seen (anchor check)
	var missing []string
	for _, tbl := range []map[string]bool{keysOf(tLock), tAtomic, tImmut} {
		for k := range tbl {
			if (sel == nil || sel(k)) && !seenField[k] {
				missing = append(missing, k)
			}
		}
	}
	sort.Strings(missing)
	for _, k := range missing {
		c.Missing("discipline-table", k)
	}
	// lock operations on unresolvable receivers
	for _, fn := range p.Funcs {
		if fl := li.Fns[fn]; fl != nil && p.InScope(fn) {
			for _, u := range fl.Unknow {
				c.Undecided("lock-receiver", p.FuncKey(fn), p.InstrPos(u), "lock operation on a mutex that is neither a struct field nor a package variable")
			}
		}
	}
}

func keysOf(m map[string]string) map[string]bool {
	o := map[string]bool{}
	for k := range m {
		o[k] = true
	}
	return o
}

func lockStructOf(class string) string {
	i := strings.LastIndex(class, ".")
	if i < 0 {
		return class
	}
	return class[:i]
}

// staleWrites: a store to a lock-guarded field whose value derives from a read of the same field
// made in an EARLIER critical section (the lock was released in between) overwrites whatever other
// goroutines did in the gap — a lost update (check-then-act across critical sections).
func staleWrites(c *Ctx, sel func(key string) bool) {
	p := c.P
	li := p.Locks()
	fr := p.Freshness()
	n := 0
	for _, fn := range p.Funcs {
		if !p.InScope(fn) {
			continue
		}
		fl := li.Fns[fn]
		// non-deferred unlock sites per class
		unlocks := map[string][]ssa.Instruction{}
		for _, ci := range callsIn(fn) {
			if call, ok := ci.(*ssa.Call); ok {
				if op, ok := asLockOp(call); ok && !op.Acquire {
					unlocks[op.Class] = append(unlocks[op.Class], call)
				}
			}
		}
		if len(unlocks) == 0 {
			continue
		}
		instrsOf(fn, func(in ssa.Instruction) {
			k, st := storeKey(in)
			class, guarded := tLock[k]
			if st == nil || !guarded || (sel != nil && !sel(k)) || len(unlocks[class]) == 0 {
				return
			}
			if fa := st.Addr.(*ssa.FieldAddr); fr.IsFresh(fa.X, 0) {
				return
			}
			if fl.Must[st].HoldsClass(class) == 0 {
				return // reported by guarded-by
			}
			n++
			var loads []*ssa.UnOp
			fieldLoads(st.Val, 0, map[ssa.Value]bool{}, &loads)
			for _, ld := range loads {
				lf, ok := fieldRefOf(ld.X)
				if !ok || lf.Key() != k || ld.Parent() != fn {
					continue
				}
				if p.DescQ(ld.X.(*ssa.FieldAddr).X, nil) != p.DescQ(st.Addr.(*ssa.FieldAddr).X, nil) {
					continue
				}
				for _, u := range unlocks[class] {
					if instrReaches(ld, u) && instrReachesAvoiding(u, st, ld) {
						c.Fail("stale-write", p.FuncKey(fn)+"/"+k, p.InstrPos(st), fmt.Sprintf("%s is overwritten under %s with a value computed from a read of it at %s in an earlier critical section (the lock is released at %s in between): updates made by other goroutines in the gap are lost", k, class, p.InstrPos(ld), p.InstrPos(u)))
						return
					}
				}
			}
		})
	}
	// check-then-act across critical sections: an update of a guarded container/field that is decided
	// by a test of that same field made in an earlier critical section, and not repeated in this one
	for _, fn := range p.Funcs {
		if !p.InScope(fn) {
			continue
		}
		fl := li.Fns[fn]
		unlocks := map[string][]ssa.Instruction{}
		for _, ci := range callsIn(fn) {
			if call, ok := ci.(*ssa.Call); ok {
				if op, ok := asLockOp(call); ok && !op.Acquire {
					unlocks[op.Class] = append(unlocks[op.Class], call)
				}
			}
		}
		if len(unlocks) == 0 {
			continue
		}
		instrsOf(fn, func(in ssa.Instruction) {
			mu, ok := in.(*ssa.MapUpdate)
			if !ok {
				return
			}
			ld, isLoad := mu.Map.(*ssa.UnOp)
			if !isLoad {
				return
			}
			f, ok := LoadedField(ld)
			if !ok {
				return
			}
			k := f.Key()
			class, guarded := tLock[k]
			if !guarded || (sel != nil && !sel(k)) || len(unlocks[class]) == 0 || fr.IsFresh(f.Base, 0) {
				return
			}
			if fl.Must[mu].HoldsClass(class) == 0 {
				return // reported by guarded-by
			}
			if _, isConst := mu.Value.(*ssa.Const); isConst {
				// resetting an entry to a constant (the passive failure counter) loses at most increments
				// made in the gap; whether that matters depends on how "accumulate" is read, so it is not
				// claimed.  The rule is about installing a new object over an entry another goroutine
				// may have installed in the gap (the object and everything it holds become unreachable).
				return
			}
			n++
			// branches that decide whether this update runs
			var stale, current []*ssa.UnOp
			var staleAt ssa.Instruction
			for _, b := range fn.Blocks {
				ifi, isIf := b.Instrs[len(b.Instrs)-1].(*ssa.If)
				if !isIf {
					continue
				}
				controls := false
				for _, sc := range b.Succs {
					if len(sc.Preds) == 1 && sc.Dominates(mu.Block()) {
						controls = true
					}
				}
				if !controls {
					continue
				}
				var loads []*ssa.UnOp
				fieldLoads(ifi.Cond, 0, map[ssa.Value]bool{}, &loads)
				for _, l := range loads {
					lf, ok := fieldRefOf(l.X)
					if !ok || lf.Key() != k || l.Parent() != fn {
						continue
					}
					isStale := false
					for _, u := range unlocks[class] {
						if instrReaches(l, u) && instrReachesAvoiding(u, mu, l) && !instrReachesAvoiding(u, l, mu) {
							isStale = true
							staleAt = u
						}
					}
					if isStale {
						stale = append(stale, l)
					} else {
						current = append(current, l)
					}
				}
			}
			if len(stale) > 0 && len(current) == 0 {
				c.Fail("stale-write", p.FuncKey(fn)+"/"+k, p.InstrPos(mu), fmt.Sprintf("the update of %s under %s is decided by a test of it made at %s in an earlier critical section (the lock is released at %s in between) and the test is not repeated: two goroutines can both decide to insert and the second overwrites the first (lost entry)", k, class, p.InstrPos(stale[0]), p.InstrPos(staleAt)))
			}
		})
	}
	c.Count("guarded_stores_checked_for_staleness", n)
}

// guardedContainerEscape: the value of a lock-guarded slice/map field (or a re-slicing of it, which
// shares its backing array) must not leave the critical section through a return value: callers
// would read elements while writers mutate them under the lock.
func guardedContainerEscape(c *Ctx, sel func(key string) bool) {
	p := c.P
	fr := p.Freshness()
	for _, fn := range p.Funcs {
		if !p.InScope(fn) {
			continue
		}
		instrsOf(fn, func(in ssa.Instruction) {
			r, ok := in.(*ssa.Return)
			if !ok {
				return
			}
			for _, v := range r.Results {
				switch v.Type().Underlying().(type) {
				case *types.Slice, *types.Map:
				default:
					continue
				}
				// follow phis / re-slicings / conversions back to a field load
				seen := map[ssa.Value]bool{}
				var walk func(x ssa.Value, d int) *FieldRef
				walk = func(x ssa.Value, d int) *FieldRef {
					if d > 8 || seen[x] {
						return nil
					}
					seen[x] = true
					switch y := x.(type) {
					case *ssa.Slice:
						return walk(y.X, d+1)
					case *ssa.ChangeType:
						return walk(y.X, d+1)
					case *ssa.Convert:
						return walk(y.X, d+1)
					case *ssa.Phi:
						for _, e := range y.Edges {
							if f := walk(e, d+1); f != nil {
								return f
							}
						}
					case *ssa.UnOp:
						if f, ok := LoadedField(y); ok {
							if _, guarded := tLock[f.Key()]; guarded && !fr.IsFresh(f.Base, 0) {
								return &f
							}
						}
						if a, isAlloc := y.X.(*ssa.Alloc); isAlloc { // spilled result / local
							if refs := a.Referrers(); refs != nil {
								for _, rr := range *refs {
									if st, isSt := rr.(*ssa.Store); isSt && st.Addr == a {
										if f := walk(st.Val, d+1); f != nil {
											return f
										}
									}
								}
							}
						}
					}
					return nil
				}
				if f := walk(v, 0); f != nil && (sel == nil || sel(f.Key())) {
					c.Fail("guarded-container-escapes", p.FuncKey(fn)+"/"+f.Key(), p.InstrPos(r), fmt.Sprintf("%s returns %s itself (or a re-slicing sharing its backing array) instead of a copy: callers iterate it after the lock is released while add/remove rewrite the same array (data race; listings and health-check rounds see backends twice or sets that never existed)", p.FuncKey(fn), f.Key()))
				}
			}
		})
	}
}

// instrReaches: b can execute after a on some path.
func instrReaches(a, b ssa.Instruction) bool {
	if a.Block() == b.Block() {
		if valueIndex(a) < valueIndex(b) {
			return true
		}
		// through a loop back to the same block
		for _, s := range a.Block().Succs {
			if reaches(s, a.Block(), map[*ssa.BasicBlock]bool{}) {
				return true
			}
		}
		return false
	}
	for _, s := range a.Block().Succs {
		if reaches(s, b.Block(), map[*ssa.BasicBlock]bool{}) {
			return true
		}
	}
	return false
}

// lockPairing: at every return the lock set equals the entry set (no lock leaks, no unlock of
// an unheld lock), and no may-panic call happens between a non-deferred Lock and its Unlock.
func lockPairing(c *Ctx, sel func(fn *ssa.Function) bool) {
	p := c.P
	li := p.Locks()
	n := 0
	for _, fn := range p.Funcs {
		if !p.InScope(fn) || (sel != nil && !sel(fn)) {
			continue
		}
		fl := li.Fns[fn]
		hasLock := false
		for _, ci := range callsIn(fn) {
			if _, ok := asLockOp(ci); ok {
				hasLock = true
			}
		}
		if !hasLock {
			continue
		}
		n++
		fkey := p.FuncKey(fn)
		var bad []string
		for _, ex := range fl.Exit {
			may := ex.May
			if sum := lockSummary[fn]; len(sum) > 0 {
				// a lock-acquiring wrapper hands these locks to its caller on every return; the
				// caller's own exits are checked for them
				if _, isRet := ex.At.(*ssa.Return); isRet {
					may = may.clone()
					for _, h := range sum {
						for k, m := range may {
							if m.Class == h.Class {
								delete(may, k)
							}
						}
					}
				}
			}
			extra := diffLS(may, fl.Entry)
			if len(extra) > 0 {
				bad = append(bad, fmt.Sprintf("%s: exit with lock(s) still held on some path: %s", p.InstrPos(ex.At), strings.Join(extra, ", ")))
			}
		}
		// a release reached with the lock held on no path: "fatal error: sync: Unlock of unlocked
		// RWMutex" (an explicit Unlock on an early-return path under a deferred Unlock, an Unlock
		// repeated after a helper already released).  Only for classes this function acquires itself or
		// is entered with: a helper that releases its caller's lock is judged at the caller
		acquires := map[string]bool{}
		for _, ci := range callsIn(fn) {
			if op, ok := asLockOp(ci); ok && op.Acquire {
				acquires[op.Class] = true
			}
		}
		for _, u := range fl.Unheld {
			if !acquires[u.Class] {
				continue
			}
			if u.Some {
				// held on some paths only.  That is a double release exactly when every path to this
				// point did acquire the lock (an acquisition of the class dominates the release — for a
				// deferred one, its registration): then some path has released it in between.  Locks
				// taken on one branch and released on the matching one are left alone
				anchor := u.At
				if u.Defer != nil {
					anchor = u.Defer
				}
				dominated := false
				for _, ci := range callsIn(fn) {
					op, ok := asLockOp(ci)
					if !ok || !op.Acquire || op.Class != u.Class {
						continue
					}
					if _, isDefer := ci.(*ssa.Defer); isDefer {
						continue
					}
					if ci.Block() == anchor.Block() {
						for _, in := range ci.Block().Instrs {
							if in == ssa.Instruction(ci) {
								dominated = true
								break
							}
							if in == anchor {
								break
							}
						}
					} else if ci.Block().Dominates(anchor.Block()) {
						dominated = true
					}
				}
				if !dominated {
					continue
				}
			}
			pos := p.InstrPos(u.At)
			what := "Unlock"
			if u.Defer != nil {
				what = "the deferred Unlock registered at " + p.InstrPos(u.Defer)
				if rd, ok := u.At.(*ssa.RunDefers); ok {
					// the exit this RunDefers belongs to
					for _, in := range rd.Block().Instrs {
						if _, isRet := in.(*ssa.Return); isRet {
							pos = p.InstrPos(in)
						}
					}
				}
			}
			bad = append(bad, fmt.Sprintf("%s: %s of %s runs with the lock already released on a path reaching it: fatal error \"sync: Unlock of unlocked RWMutex\"", pos, what, u.Class))
		}
		// may-panic calls while a lock is held without a deferred unlock
		deferred := map[string]bool{}
		for _, ci := range callsIn(fn) {
			if d, ok := ci.(*ssa.Defer); ok {
				if op, ok := asLockOp(d); ok && !op.Acquire {
					deferred[op.Class] = true
				}
			}
		}
		for _, ci := range callsIn(fn) {
			call, ok := ci.(*ssa.Call)
			if !ok || !mayPanicCall(call) {
				continue
			}
			for _, h := range fl.May[call] {
				if !deferred[h.Class] && fl.Entry.HoldsClass(h.Class) == 0 {
					bad = append(bad, fmt.Sprintf("%s: call %s may panic while %s is held without a deferred unlock", p.InstrPos(call), CalleeName(call), h.Class))
				}
			}
		}
		if len(bad) == 0 {
			c.Pass("lock-pairing", fkey, p.Pos(fn.Pos()), fmt.Sprintf("%d exits balanced", len(fl.Exit)))
		} else {
			c.Fail("lock-pairing", fkey, p.Pos(fn.Pos()), bad[0], bad...)
		}
	}
	c.Count("functions_with_locks", n)
}

func diffLS(a, b LockSet) []string {
	var out []string
	for _, h := range a {
		if b.HoldsClass(h.Class) == 0 {
			out = append(out, h.Class+"("+string(h.Mode)+")")
		}
	}
	sort.Strings(out)
	return out
}

// mayPanicCall: calls documented/likely to panic with user or network controlled faults.
func mayPanicCall(c ssa.CallInstruction) bool {
	name := CalleeName(c)
	if strings.HasSuffix(name, ").ServeHTTP") {
		return true
	}
	if strings.HasPrefix(name, "dyn:") {
		return true
	}
	return false
}

// instrReachesAvoiding: some path leads from a to b without executing `avoid` again on the way (the
// same read repeated in the next loop iteration starts a new round and does not count).
func instrReachesAvoiding(a, b, avoid ssa.Instruction) bool {
	ab := avoid.Block()
	if a.Block() == b.Block() && valueIndex(a) < valueIndex(b) {
		if !(ab == a.Block() && valueIndex(avoid) > valueIndex(a) && valueIndex(avoid) < valueIndex(b)) {
			return true
		}
	}
	// leave a's block (the rest of it must not contain avoid)
	if ab == a.Block() && valueIndex(avoid) > valueIndex(a) {
		return false
	}
	seen := map[*ssa.BasicBlock]bool{}
	var walk func(blk *ssa.BasicBlock) bool
	walk = func(blk *ssa.BasicBlock) bool {
		if seen[blk] {
			return false
		}
		seen[blk] = true
		if blk == b.Block() {
			// b must come before avoid in this block
			if !(ab == blk && valueIndex(avoid) < valueIndex(b)) {
				return true
			}
			return false
		}
		if blk == ab {
			return false
		}
		for _, s := range blk.Succs {
			if walk(s) {
				return true
			}
		}
		return false
	}
	for _, s := range a.Block().Succs {
		if walk(s) {
			return true
		}
	}
	return false
}
