package main

import (
	"fmt"
	"go/types"
	"strings"

	"golang.org/x/tools/go/ssa"
)

// constructorArgsFromConfig: the limits the pool (and the limiter) enforce are the *configured* ones.
// Each argument of NewWebSocketPool(maxIdle, maxActive, idleTimeout) and of
// NewTokenBucketRateLimiter(maxTokens, refillRate) made in Helios is computed from the configuration
// field of the same meaning (other fields may take part — an idle cap clamped to the active cap — but
// the parameter's own field has to): two arguments swapped at the call pass every test that uses equal
// values or builds the object directly.
func (c *Ctx) constructorArgsFromConfig(which string) {
	p := c.P
	type want struct {
		cfgStruct string
		fields    []string
	}
	table := map[string]want{
		"NewWebSocketPool":          {"config.WebSocketPoolConfig", []string{"MaxIdle", "MaxActive", "IdleTimeoutSeconds"}},
		"NewTokenBucketRateLimiter": {"config.RateLimitConfig", []string{"MaxTokens", "RefillRate"}},
	}
	w := table[which]
	rule := "constructor-args-from-config"
	n := 0
	for _, fn := range p.Funcs {
		if !p.InScope(fn) {
			continue
		}
		for _, ci := range callsIn(fn) {
			callee := StaticFn(ci)
			if callee == nil || callee.Name() != which || !p.InScope(callee) {
				continue
			}
			args := ci.Common().Args
			// only calls fed from the configuration (tests and defaults build pools from constants)
			any := false
			per := make([]map[string]bool, len(args))
			for i, a := range args {
				per[i] = map[string]bool{}
				configOrigins(a, w.cfgStruct, map[ssa.Value]bool{}, per[i], 0)
				if len(per[i]) > 0 {
					any = true
				}
			}
			if !any {
				continue
			}
			for i, f := range w.fields {
				if i >= len(args) {
					break
				}
				n++
				construct := p.FuncKey(fn) + "/" + which + "#" + callee.Params[i].Name()
				if per[i][f] {
					c.Pass(rule, construct, p.InstrPos(ci), "computed from "+w.cfgStruct+"."+f)
				} else {
					var from []string
					for k := range per[i] {
						from = append(from, k)
					}
					c.Fail(rule, construct, p.InstrPos(ci), fmt.Sprintf("the argument for %s is not computed from %s.%s (it derives from %v): the configured value is validated and logged, and another one is enforced", callee.Params[i].Name(), w.cfgStruct, f, from))
				}
			}
		}
	}
	c.Floor(rule, n, len(w.fields), "constructor arguments fed from the configuration ("+which+")")
}

// optionMapReadOnly: a plugin's option map is nil when the chain entry has no `config:` block (yaml.v3
// leaves the field nil); reading a nil map is fine, writing to it panics at start-up.  No function of
// the plugins package stores into a map[string]interface{} that is, or derives from, a parameter.
func (c *Ctx) optionMapReadOnly() {
	p := c.P
	rule := "option-map-read-only"
	var bad []string
	n := 0
	for _, fn := range p.Funcs {
		pk := fnPkg(fn)
		if pk == nil || !strings.HasSuffix(pk.Pkg.Path(), "/internal/plugins") {
			continue
		}
		instrsOf(fn, func(in ssa.Instruction) {
			// count the option reads, for the floor
			if lk, ok := in.(*ssa.Lookup); ok {
				if mt, isMap := lk.X.Type().Underlying().(*types.Map); isMap {
					if _, isIface := mt.Elem().Underlying().(*types.Interface); isIface {
						n++
					}
				}
			}
			mu, ok := in.(*ssa.MapUpdate)
			if !ok {
				return
			}
			mt, isMap := mu.Map.Type().Underlying().(*types.Map)
			if !isMap {
				return
			}
			if _, isIface := mt.Elem().Underlying().(*types.Interface); !isIface {
				return
			}
			if c.flowsFrom(mu.Map, func(v ssa.Value) bool { _, isPrm := v.(*ssa.Parameter); return isPrm }) {
				bad = append(bad, fmt.Sprintf("%s: %s writes into the option map it was given: the map is nil when a chain entry has no config block, and assignment to an entry in a nil map panics at start-up", p.InstrPos(mu), p.FuncKey(fn)))
			}
		})
	}
	if len(bad) == 0 {
		c.Pass(rule, "plugins/*", "-", fmt.Sprintf("%d option look-ups, no store into an option map", n))
	} else {
		c.Fail(rule, "plugins/*", "-", bad[0], bad...)
	}
	c.Floor(rule, n, 4, "option look-ups in the plugins package")
}

// gzipHeaderUntouched: compress/gzip writes its header with the first Write and refuses header strings
// outside Latin-1 — after Helios has already sent the status with Content-Encoding: gzip.  The gzip
// writer's header fields (Name, Comment, Extra, ModTime, OS) are left alone.
func (c *Ctx) gzipHeaderUntouched() {
	p := c.P
	rule := "gzip-header-untouched"
	var bad []string
	writers := 0
	for _, fn := range p.Funcs {
		if !p.InScope(fn) {
			continue
		}
		instrsOf(fn, func(in ssa.Instruction) {
			if ci, ok := in.(ssa.CallInstruction); ok && strings.HasPrefix(CalleeName(ci), "compress/gzip.NewWriter") {
				writers++
			}
			st, ok := in.(*ssa.Store)
			if !ok {
				return
			}
			fa, ok := st.Addr.(*ssa.FieldAddr)
			if !ok {
				return
			}
			fr, ok := fieldRefOf(fa)
			if !ok || fr.Struct == nil {
				return
			}
			if q := QualType(fr.Struct); q == "gzip.Header" || q == "gzip.Writer" {
				bad = append(bad, fmt.Sprintf("%s: %s sets the gzip header field %s: compress/gzip rejects header strings outside Latin-1 with the first Write, after the status and Content-Encoding: gzip have gone out — the client receives a stream it cannot decode", p.InstrPos(st), p.FuncKey(fn), fr.Name))
			}
		})
	}
	if len(bad) == 0 {
		c.Pass(rule, "plugins.gzip", "-", fmt.Sprintf("%d gzip writers created, no header field stored", writers))
	} else {
		c.Fail(rule, "plugins.gzip", "-", bad[0], bad...)
	}
	c.Floor(rule, writers, 1, "gzip writers created")
}

// adminRequestFresh: json.Decoder.Decode leaves fields that the body does not mention untouched.  The
// value an admin handler decodes into is a variable of that handler call (a fresh zero value): one
// taken from a sync.Pool or a package-level variable carries the previous request's fields into the
// next — an add without a weight inherits one, an add without an address passes the required-field test.
func (c *Ctx) adminRequestFresh() {
	p := c.P
	rule := "admin-request-fresh"
	n := 0
	for _, fn := range p.Funcs {
		pk := fnPkg(fn)
		if pk == nil || !strings.HasSuffix(pk.Pkg.Path(), "/internal/adminapi") {
			continue
		}
		for _, ci := range callsIn(fn) {
			if CalleeName(ci) != "(*encoding/json.Decoder).Decode" {
				continue
			}
			n++
			construct := p.FuncKey(fn) + "/Decode"
			arg := ci.Common().Args[1]
			if mi, ok := arg.(*ssa.MakeInterface); ok {
				arg = mi.X
			}
			fresh := false
			why := p.Desc(arg, nil)
			switch x := arg.(type) {
			case *ssa.Alloc:
				fresh = true // &req of this call (escaping or not, it is this call's variable)
				_ = x
			case *ssa.Parameter:
				// a decoding helper: judged at its callers
				fresh = true
				for _, caller := range p.Funcs {
					for _, c2 := range callsIn(caller) {
						if StaticFn(c2) == fn {
							for i, a := range c2.Common().Args {
								if i < len(fn.Params) && fn.Params[i] == x {
									if mi, ok := a.(*ssa.MakeInterface); ok {
										a = mi.X
									}
									if _, isAlloc := a.(*ssa.Alloc); !isAlloc {
										fresh = false
										why = p.Desc(a, nil) + " (handed in by " + p.FuncKey(caller) + ")"
									}
								}
							}
						}
					}
				}
			}
			c.Check(fresh, rule, construct, p.InstrPos(ci), "the request is decoded into a variable of this call",
				"the request body is decoded into "+why+", which is not a fresh variable of the handler call: fields the body leaves out keep the values of an earlier request")
		}
	}
	c.Floor(rule, n, 1, "JSON request decodes in the admin API")
}

// healthyPickIsTaken: "answered 'no healthy backend' only if every backend is inside an unhealthy
// window" — the only reason for which findHealthyBackend may discard what the strategy proposed is that
// IsBackendHealthy(thatBackend) said no.  Every path on which the health test of a proposed backend
// came out true returns that backend: a further condition (a connection limit, a quota) turns "busy"
// into "503 while healthy".
func (c *Ctx) healthyPickIsTaken() {
	p := c.P
	// the function that asks the strategy and re-checks the proposal (findHealthyBackend, whatever it
	// is called, or the function it was inlined into): it calls both NextBackend and IsBackendHealthy
	construct := "loadbalancer.(*LoadBalancer).findHealthyBackend"
	var fn *ssa.Function
	for _, f := range p.Funcs {
		pk := fnPkg(f)
		if pk == nil || !strings.HasSuffix(pk.Pkg.Path(), "/internal/loadbalancer") || f.Parent() != nil {
			continue
		}
		picks, checks := false, false
		for _, ci := range callsIn(f) {
			n := CalleeName(ci)
			if strings.HasSuffix(n, "LoadBalancer).NextBackend") {
				picks = true
			}
			if strings.HasSuffix(n, "LoadBalancer).IsBackendHealthy") {
				checks = true
			}
		}
		if picks && checks && (fn == nil || len(f.Blocks) < len(fn.Blocks)) {
			fn = f
		}
	}
	proxy := c.proxyFn()
	sp := &Spec{
		Event: func(in ssa.Instruction, fr *Frame) string {
			if ci, ok := in.(ssa.CallInstruction); ok {
				n := CalleeName(ci)
				if strings.HasSuffix(n, "LoadBalancer).proxyRequest") || (proxy != nil && StaticFn(ci) == proxy) {
					return "dispatch"
				}
				if strings.HasSuffix(n, "LoadBalancer).NextBackend") {
					return "pick"
				}
			}
			return ""
		},
		Cond:   p.anyCondLabel(),
		Expand: func(*ssa.Function, ssa.CallInstruction) bool { return false },
	}
	c.traceRule("healthy-pick-is-taken", construct, fn, sp,
		"a proposed backend that passed IsBackendHealthy is the one returned / dispatched to",
		func(t *Trace) string {
			// the last health verdict on this path
			lastTrue, after := -1, -1
			for i, it := range t.Items {
				ifi, isIf := it.Instr.(*ssa.If)
				if !isIf {
					continue
				}
				if call, ok := ifi.Cond.(*ssa.Call); ok && strings.HasSuffix(CalleeName(call), "LoadBalancer).IsBackendHealthy") {
					if it.Pol {
						lastTrue = i
					} else {
						lastTrue = -1
					}
					after = i
				}
			}
			_ = after
			if lastTrue < 0 {
				return ""
			}
			// a healthy verdict: the path must end by handing that backend on — no further pick
			for _, it := range t.Items[lastTrue+1:] {
				if it.Label == "pick" {
					return "a proposed backend passed the health test and was discarded for another reason: the strategy is asked again (or the request refused) although the backend is healthy — busy is not unhealthy, and a sticky strategy proposes the same backend again until the client gets 503"
				}
			}
			if len(t.Ret) == 1 && t.Ret[0].K == ANil && !t.Has("dispatch") {
				return "a proposed backend passed the health test and the function still answers 'no backend'"
			}
			return ""
		})
}

// configuredNameHonoured: "every response carries the *configured* ID headers".  The functions that
// yield the header names return the configured name whenever one is configured: the only test that
// sends them to the default is emptiness.  A further filter (a pattern the name has to match) silently
// replaces valid custom names (X-B3-TraceId, X_Request_Id) by the default.
func (c *Ctx) configuredNameHonoured() {
	p := c.P
	n := 0
	for _, name := range []string{"RequestHeaderName", "TraceHeaderName"} {
		fn := p.Fn("internal/logging", "", name)
		construct := "logging." + name
		if fn == nil {
			c.Missing("configured-name-honoured", construct)
			continue
		}
		n++
		var bad []string
		seenFns := map[*ssa.Function]bool{}
		var scan func(f *ssa.Function, d int)
		scan = func(f *ssa.Function, d int) {
			if f == nil || seenFns[f] || d > 2 || f.Blocks == nil {
				return
			}
			seenFns[f] = true
			instrsOf(f, func(in ssa.Instruction) {
				if ifi, ok := in.(*ssa.If); ok {
					r := p.RelOf(ifi.Cond, true, nil)
					emptiness := r.OK && r.Pred == "" && (r.Y == `k:""` || r.X == `k:""`)
					isLen := r.OK && strings.HasPrefix(r.X, "len(")
					if !emptiness && !isLen {
						bad = append(bad, fmt.Sprintf("%s: %s decides between the configured name and the default by something other than emptiness (%s): a valid custom header name can be replaced by the default, and the responses then lack the configured header", p.InstrPos(ifi), p.FuncKey(f), firstN(p.Desc(ifi.Cond, nil), 120)))
					}
				}
				if ci, ok := in.(ssa.CallInstruction); ok {
					if g := StaticFn(ci); g != nil && p.InScope(g) {
						// only helpers that are handed the name (a validity test moved out of line)
						for _, a := range ci.Common().Args {
							if b, isStr := a.Type().Underlying().(*types.Basic); isStr && b.Kind() == types.String {
								scan(g, d+1)
								break
							}
						}
					}
				}
			})
		}
		scan(fn, 0)
		if len(bad) == 0 {
			c.Pass("configured-name-honoured", construct, p.Pos(fn.Pos()), "the default is used only for an empty configured name")
		} else {
			c.Fail("configured-name-honoured", construct, p.Pos(fn.Pos()), bad[0], bad...)
		}
	}
	c.Floor("configured-name-honoured", n, 2, "header-name functions")
}

// idHeaderNamesValidated: the request/trace ID header names are added to every proxied request.  A
// configured name that is not an HTTP field name ("X Request ID") makes the backend transport refuse
// the request — every request answered 502 by an accepted configuration.  Validation has to look at
// both names and be able to refuse them: in the configuration package some test derived from each
// field leads to an error return.
func (c *Ctx) idHeaderNamesValidated() {
	p := c.P
	rule := "id-header-name-validated"
	n := 0
	for _, field := range []string{"config.RequestIDConfig.Header", "config.TraceConfig.Header"} {
		n++
		refused := false
		pos := "-"
		for _, fn := range p.Funcs {
			pk := fnPkg(fn)
			if pk == nil || !strings.HasSuffix(pk.Pkg.Path(), "/internal/config") {
				continue
			}
			instrsOf(fn, func(in ssa.Instruction) {
				ifi, ok := in.(*ssa.If)
				if !ok || refused {
					return
				}
				fromField := c.flowsFrom(ifi.Cond, func(v ssa.Value) bool {
					if u, isU := v.(*ssa.UnOp); isU {
						v = u.X
					}
					fr, ok := fieldRefOf(v)
					return ok && fr.Key() == field
				})
				if !fromField {
					return
				}
				for _, s := range ifi.Block().Succs {
					for _, in2 := range s.Instrs {
						if ret, isRet := in2.(*ssa.Return); isRet && len(ret.Results) > 0 && !isConstNil(ret.Results[len(ret.Results)-1]) {
							refused = true
							pos = p.InstrPos(ifi)
						}
					}
				}
			})
		}
		c.Check(refused, rule, field, pos, "validation tests the name and can refuse it",
			field+" is added to every proxied request as a header name and validation never looks at it: a name that is not an HTTP field name (\"X Request ID\") is accepted, the backend transport refuses every request that carries it, and the proxy answers 502 to everything")
	}
	c.Floor(rule, n, 2, "ID header names")
}

// noBufferingHandler: http.TimeoutHandler serves its handler into a buffer of its own: its
// ResponseWriter has neither Flush nor Hijack, so nothing the backend flushes reaches the client before
// the response ends and an Upgrade cannot be tunnelled.  Nothing on the serving path is wrapped in it.
func (c *Ctx) noBufferingHandler() {
	p := c.P
	var bad []string
	handlers := 0
	for _, fn := range p.Funcs {
		if !p.InScope(fn) {
			continue
		}
		for _, ci := range callsIn(fn) {
			switch n := CalleeName(ci); n {
			case "net/http.TimeoutHandler":
				bad = append(bad, fmt.Sprintf("%s: %s wraps a handler in http.TimeoutHandler: its response writer buffers the whole response and offers neither Flush nor Hijack — streamed bytes wait for the end of the response (or become a 503), upgrades fail", p.InstrPos(ci), p.FuncKey(fn)))
			case "(net/http.Handler).ServeHTTP", "(net/http.HandlerFunc).ServeHTTP":
				handlers++
			}
		}
	}
	if len(bad) == 0 {
		c.Pass("no-buffering-handler", "net/http.TimeoutHandler", "-", fmt.Sprintf("no handler is wrapped in http.TimeoutHandler (%d handler invocations looked at)", handlers))
	} else {
		c.Fail("no-buffering-handler", "net/http.TimeoutHandler", "-", bad[0], bad...)
	}
	c.Floor("no-buffering-handler", handlers, 5, "handler invocations in Helios")
}

// strategyAddAppends (C11): "once add returns the backend is listed … every other backend stays as it
// is".  Each strategy's AddBackend extends its pool by append(pool, b) and does nothing else to it: no
// element is stored, the pool is not handed to anything, and no second slice built from a part of it
// is appended back (an in-place sorted insert — tail := pool[i:]; pool = append(pool[:i], b);
// pool = append(pool, tail...) — overwrites the element at i with the new backend).
func (c *Ctx) strategyAddAppends() {
	p := c.P
	n := 0
	for _, nt := range c.strategyImpls() {
		name := nt.Obj().Name()
		fn := p.Fn("internal/loadbalancer", name, "AddBackend")
		construct := "loadbalancer.(*" + name + ").AddBackend"
		if fn == nil {
			c.Missing("strategy-add-appends", construct)
			continue
		}
		n++
		var bad []string
		appends := 0
		instrsOf(fn, func(in ssa.Instruction) {
			switch x := in.(type) {
			case *ssa.Slice:
				// a re-slicing of the pool that leaves out a prefix or a suffix: material for an
				// in-place insertion
				if strings.Contains(p.Desc(x.X, nil), "Strategy.backends") && (x.Low != nil || x.High != nil) {
					bad = append(bad, p.InstrPos(x)+": a part of the pool is sliced off while a backend is added (an in-place insertion shifts or overwrites the backends behind it)")
				}
			case ssa.CallInstruction:
				cn := CalleeName(x)
				for i, a := range x.Common().Args {
					d := p.Desc(a, nil)
					if !strings.Contains(d, "Strategy.backends") {
						continue
					}
					switch {
					case cn == "builtin:append" && i == 0:
						appends++
					case cn == "builtin:len" || cn == "builtin:cap" || cn == "builtin:append":
					default:
						bad = append(bad, fmt.Sprintf("%s: the pool is handed to %s while a backend is added", p.InstrPos(x), cn))
					}
				}
			}
		})
		for _, a := range Accesses(fn) {
			if strings.HasSuffix(a.Key, "Strategy.backends") && a.Kind == "elem-write" {
				if ci, isCall := a.Instr.(ssa.CallInstruction); isCall && CalleeName(ci) == "builtin:append" {
					continue
				}
				bad = append(bad, p.InstrPos(a.Instr)+": an element of the pool is overwritten while a backend is added")
			}
		}
		if appends == 0 {
			bad = append(bad, p.Pos(fn.Pos())+": the backend is not added by append(pool, backend)")
		}
		if appends > 1 {
			bad = append(bad, p.Pos(fn.Pos())+fmt.Sprintf(": the pool is appended to %d times for one backend", appends))
		}
		if len(bad) == 0 {
			c.Pass("strategy-add-appends", construct, p.Pos(fn.Pos()), "one append(pool, backend); no element store, no re-slicing, no call receives the pool")
		} else {
			c.Fail("strategy-add-appends", construct, p.Pos(fn.Pos()), bad[0], bad...)
		}
	}
	c.Floor("strategy-add-appends", n, 5, "strategy AddBackend methods")
}

// claimedFlagReleased (C04, C12): a flag that is claimed with an atomic compare-and-swap ("one probe per
// backend at a time") is a resource.  Where its release is deferred, the defer has to be registered
// before any return of that function — a release that sits after the early returns ("skip ejected
// backend", "shutting down") leaves the flag claimed for ever on those paths, and whatever the flag
// guards (probing a backend) never happens again.
func (c *Ctx) claimedFlagReleased() {
	p := c.P
	// fields claimed by CompareAndSwap(addr, 0|false, non-zero)
	claimed := map[string]string{}
	fieldOfAddr := func(v ssa.Value) string {
		if fa, ok := v.(*ssa.FieldAddr); ok {
			if fr, ok := fieldRefOf(fa); ok {
				return fr.Key()
			}
		}
		return ""
	}
	for _, fn := range p.Funcs {
		if !p.InScope(fn) {
			continue
		}
		for _, ci := range callsIn(fn) {
			n := CalleeName(ci)
			args := ci.Common().Args
			switch {
			case strings.HasPrefix(n, "sync/atomic.CompareAndSwap") && len(args) == 3:
				if k, ok := constInt(args[1]); ok && k == 0 {
					if f := fieldOfAddr(args[0]); f != "" {
						claimed[f] = p.InstrPos(ci)
					}
				}
			case strings.HasSuffix(n, ").CompareAndSwap") && strings.Contains(n, "sync/atomic.") && len(args) == 3:
				if f := fieldOfAddr(args[0]); f != "" {
					claimed[f] = p.InstrPos(ci)
				}
			}
		}
	}
	n := 0
	var bad []string
	for _, fn := range p.Funcs {
		if !p.InScope(fn) {
			continue
		}
		instrsOf(fn, func(in ssa.Instruction) {
			d, ok := in.(*ssa.Defer)
			if !ok {
				return
			}
			// the deferred call, or the closure it runs, stores the released value into a claimed flag
			var body []*ssa.Function
			var direct ssa.CallInstruction = d
			if mc, ok := d.Call.Value.(*ssa.MakeClosure); ok {
				body = append(body, mc.Fn.(*ssa.Function))
				direct = nil
			}
			releases := ""
			check := func(ci ssa.CallInstruction) {
				nm := CalleeName(ci)
				if !(strings.HasPrefix(nm, "sync/atomic.Store") || strings.HasPrefix(nm, "sync/atomic.Swap") || (strings.Contains(nm, "sync/atomic.") && (strings.HasSuffix(nm, ").Store") || strings.HasSuffix(nm, ").Swap")))) {
					return
				}
				if len(ci.Common().Args) == 0 {
					return
				}
				if f := fieldOfAddr(ci.Common().Args[0]); f != "" && claimed[f] != "" {
					releases = f
				}
			}
			if direct != nil {
				check(direct)
			}
			for _, b := range body {
				for _, ci := range callsIn(b) {
					check(ci)
				}
			}
			if releases == "" {
				return
			}
			n++
			for _, b := range fn.Blocks {
				for _, in2 := range b.Instrs {
					if _, isRet := in2.(*ssa.Return); isRet && !(d.Block() == b || d.Block().Dominates(b)) {
						bad = append(bad, fmt.Sprintf("%s: %s registers the release of %s (claimed by compare-and-swap at %s) only after the return at %s: on that path the flag stays claimed for ever and what it guards never runs again", p.InstrPos(d), p.FuncKey(fn), releases, claimed[releases], p.InstrPos(in2)))
					}
				}
			}
		})
	}
	if len(bad) == 0 {
		c.Pass("claimed-flag-released", "atomic flags", "-", fmt.Sprintf("%d flags claimed by compare-and-swap, %d deferred releases, each registered before every return", len(claimed), n))
	} else {
		c.Fail("claimed-flag-released", "atomic flags", "-", bad[0], bad...)
	}
}

// deferredStatusValidated (C03): net/http panics on WriteHeader with a status outside 100..999, and a
// backend can send one ("HTTP/1.1 042").  A wrapper that records the status and delivers it later can be
// asked to deliver it by Flush — which the reverse proxy also calls from its flush-timer goroutine,
// where nothing recovers a panic: the process dies.  Every wrapper whose Flush can reach the embedded
// WriteHeader has to look at the range of the code in its own WriteHeader (and let an invalid one fail
// there, on the handler's goroutine).
func (c *Ctx) deferredStatusValidated() {
	p := c.P
	n := 0
	for _, w := range c.wrappers() {
		fl := w.Methods["Flush"]
		wh := w.Methods["WriteHeader"]
		if fl == nil || wh == nil {
			continue
		}
		// does Flush (with the wrapper's own helpers) reach the embedded WriteHeader?
		reaches := false
		seen := map[*ssa.Function]bool{}
		var scan func(f *ssa.Function, d int)
		scan = func(f *ssa.Function, d int) {
			if f == nil || seen[f] || d > 3 || f.Blocks == nil {
				return
			}
			seen[f] = true
			for _, ci := range callsIn(f) {
				if m, ok := w.embCall(p, ci, nil); ok && m == "WriteHeader" {
					reaches = true
				}
				if g := StaticFn(ci); g != nil && g.Signature.Recv() != nil {
					if nt := namedOf(g.Signature.Recv().Type()); nt != nil && types.Identical(nt, w.Named) {
						scan(g, d+1)
					}
				}
			}
		}
		scan(fl, 0)
		if !reaches {
			continue
		}
		n++
		construct := w.Key + ".WriteHeader/status-range"
		checked := false
		instrsOf(wh, func(in ssa.Instruction) {
			ifi, ok := in.(*ssa.If)
			if !ok {
				return
			}
			for _, pol := range []bool{true, false} {
				r := p.RelOf(ifi.Cond, pol, nil)
				if r.OK && r.Pred == "" && r.Y == "" && strings.HasPrefix(r.X, "param:") && (r.Hi == 99 || r.Lo == 100) {
					checked = true
				}
			}
		})
		c.Check(checked, "deferred-status-validated", construct, p.Pos(wh.Pos()), "WriteHeader looks at the range of the code before recording it",
			"the wrapper records any status and its Flush can deliver it: a backend status below 100 (\"HTTP/1.1 042\") makes net/http panic with \"invalid WriteHeader code\" on the reverse proxy's flush-timer goroutine, which nothing recovers — the whole process dies")
	}
	if n == 0 {
		c.Pass("deferred-status-validated", "wrappers", "-", "no wrapper's Flush can deliver a recorded status")
	}
}
