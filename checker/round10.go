package main

import (
	"fmt"
	"go/types"
	"strings"

	"golang.org/x/tools/go/ssa"
)

// constructorArgsFromConfig: the limits the pool (and the limiter) enforce are the *configured* ones.
// Each argument of NewWebSocketPool(maxIdle, maxActive, idleTimeout) and of
// NewTokenBucketRateLimiter(maxTokens, refillRate) made in Helios is computed from the configuration
// field of the same meaning (other fields may take part — an idle cap clamped to the active cap — but
// the parameter's own field has to): two arguments swapped at the call pass every test that uses equal
// values or builds the object directly.
func (c *Ctx) constructorArgsFromConfig(which string) {
	p := c.P
	type want struct {
		cfgStruct string
		fields    []string
	}
	table := map[string]want{
		"NewWebSocketPool":          {"config.WebSocketPoolConfig", []string{"MaxIdle", "MaxActive", "IdleTimeoutSeconds"}},
		"NewTokenBucketRateLimiter": {"config.RateLimitConfig", []string{"MaxTokens", "RefillRate"}},
	}
	w := table[which]
	rule := "constructor-args-from-config"
	n := 0
	for _, fn := range p.Funcs {
		if !p.InScope(fn) {
			continue
		}
		for _, ci := range callsIn(fn) {
			callee := StaticFn(ci)
			if callee == nil || callee.Name() != which || !p.InScope(callee) {
				continue
			}
			args := ci.Common().Args
			// only calls fed from the configuration (tests and defaults build pools from constants)
			any := false
			per := make([]map[string]bool, len(args))
			for i, a := range args {
				per[i] = map[string]bool{}
				configOrigins(a, w.cfgStruct, map[ssa.Value]bool{}, per[i], 0)
				if len(per[i]) > 0 {
					any = true
				}
			}
			if !any {
				continue
			}
			for i, f := range w.fields {
				if i >= len(args) {
					break
				}
				n++
				construct := p.FuncKey(fn) + "/" + which + "#" + callee.Params[i].Name()
				if per[i][f] {
					c.Pass(rule, construct, p.InstrPos(ci), "computed from "+w.cfgStruct+"."+f)
				} else {
					var from []string
					for k := range per[i] {
						from = append(from, k)
					}
					c.Fail(rule, construct, p.InstrPos(ci), fmt.Sprintf("the argument for %s is not computed from %s.%s (it derives from %v): the configured value is validated and logged, and another one is enforced", callee.Params[i].Name(), w.cfgStruct, f, from))
				}
			}
		}
	}
	c.Floor(rule, n, len(w.fields), "constructor arguments fed from the configuration ("+which+")")
}

// optionMapReadOnly: a plugin's option map is nil when the chain entry has no `config:` block (yaml.v3
// leaves the field nil); reading a nil map is fine, writing to it panics at start-up.  No function of
// the plugins package stores into a map[string]interface{} that is, or derives from, a parameter.
func (c *Ctx) optionMapReadOnly() {
	p := c.P
	rule := "option-map-read-only"
	var bad []string
	n := 0
	for _, fn := range p.Funcs {
		pk := fnPkg(fn)
		if pk == nil || !strings.HasSuffix(pk.Pkg.Path(), "/internal/plugins") {
			continue
		}
		instrsOf(fn, func(in ssa.Instruction) {
			// count the option reads, for the floor
			if lk, ok := in.(*ssa.Lookup); ok {
				if mt, isMap := lk.X.Type().Underlying().(*types.Map); isMap {
					if _, isIface := mt.Elem().Underlying().(*types.Interface); isIface {
						n++
					}
				}
			}
			mu, ok := in.(*ssa.MapUpdate)
			if !ok {
				return
			}
			mt, isMap := mu.Map.Type().Underlying().(*types.Map)
			if !isMap {
				return
			}
			if _, isIface := mt.Elem().Underlying().(*types.Interface); !isIface {
				return
			}
			if c.flowsFrom(mu.Map, func(v ssa.Value) bool { _, isPrm := v.(*ssa.Parameter); return isPrm }) {
				bad = append(bad, fmt.Sprintf("%s: %s writes into the option map it was given: the map is nil when a chain entry has no config block, and assignment to an entry in a nil map panics at start-up", p.InstrPos(mu), p.FuncKey(fn)))
			}
		})
	}
	if len(bad) == 0 {
		c.Pass(rule, "plugins/*", "-", fmt.Sprintf("%d option look-ups, no store into an option map", n))
	} else {
		c.Fail(rule, "plugins/*", "-", bad[0], bad...)
	}
	c.Floor(rule, n, 4, "option look-ups in the plugins package")
}

// gzipHeaderUntouched: compress/gzip writes its header with the first Write and refuses header strings
// outside Latin-1 — after Helios has already sent the status with Content-Encoding: gzip.  The gzip
// writer's header fields (Name, Comment, Extra, ModTime, OS) are left alone.
func (c *Ctx) gzipHeaderUntouched() {
	p := c.P
	rule := "gzip-header-untouched"
	var bad []string
	writers := 0
	for _, fn := range p.Funcs {
		if !p.InScope(fn) {
			continue
		}
		instrsOf(fn, func(in ssa.Instruction) {
			if ci, ok := in.(ssa.CallInstruction); ok && strings.HasPrefix(CalleeName(ci), "compress/gzip.NewWriter") {
				writers++
			}
			st, ok := in.(*ssa.Store)
			if !ok {
				return
			}
			fa, ok := st.Addr.(*ssa.FieldAddr)
			if !ok {
				return
			}
			fr, ok := fieldRefOf(fa)
			if !ok || fr.Struct == nil {
				return
			}
			if q := QualType(fr.Struct); q == "gzip.Header" || q == "gzip.Writer" {
				bad = append(bad, fmt.Sprintf("%s: %s sets the gzip header field %s: compress/gzip rejects header strings outside Latin-1 with the first Write, after the status and Content-Encoding: gzip have gone out — the client receives a stream it cannot decode", p.InstrPos(st), p.FuncKey(fn), fr.Name))
			}
		})
	}
	if len(bad) == 0 {
		c.Pass(rule, "plugins.gzip", "-", fmt.Sprintf("%d gzip writers created, no header field stored", writers))
	} else {
		c.Fail(rule, "plugins.gzip", "-", bad[0], bad...)
	}
	c.Floor(rule, writers, 1, "gzip writers created")
}

// adminRequestFresh: json.Decoder.Decode leaves fields that the body does not mention untouched.  The
// value an admin handler decodes into is a variable of that handler call (a fresh zero value): one
// taken from a sync.Pool or a package-level variable carries the previous request's fields into the
// next — an add without a weight inherits one, an add without an address passes the required-field test.
func (c *Ctx) adminRequestFresh() {
	p := c.P
	rule := "admin-request-fresh"
	n := 0
	for _, fn := range p.Funcs {
		pk := fnPkg(fn)
		if pk == nil || !strings.HasSuffix(pk.Pkg.Path(), "/internal/adminapi") {
			continue
		}
		for _, ci := range callsIn(fn) {
			if CalleeName(ci) != "(*encoding/json.Decoder).Decode" {
				continue
			}
			n++
			construct := p.FuncKey(fn) + "/Decode"
			arg := ci.Common().Args[1]
			if mi, ok := arg.(*ssa.MakeInterface); ok {
				arg = mi.X
			}
			fresh := false
			why := p.Desc(arg, nil)
			switch x := arg.(type) {
			case *ssa.Alloc:
				fresh = true // &req of this call (escaping or not, it is this call's variable)
				_ = x
			case *ssa.Parameter:
				// a decoding helper: judged at its callers
				fresh = true
				for _, caller := range p.Funcs {
					for _, c2 := range callsIn(caller) {
						if StaticFn(c2) == fn {
							for i, a := range c2.Common().Args {
								if i < len(fn.Params) && fn.Params[i] == x {
									if mi, ok := a.(*ssa.MakeInterface); ok {
										a = mi.X
									}
									if _, isAlloc := a.(*ssa.Alloc); !isAlloc {
										fresh = false
										why = p.Desc(a, nil) + " (handed in by " + p.FuncKey(caller) + ")"
									}
								}
							}
						}
					}
				}
			}
			c.Check(fresh, rule, construct, p.InstrPos(ci), "the request is decoded into a variable of this call",
				"the request body is decoded into "+why+", which is not a fresh variable of the handler call: fields the body leaves out keep the values of an earlier request")
		}
	}
	c.Floor(rule, n, 1, "JSON request decodes in the admin API")
}

// healthyPickIsTaken: "answered 'no healthy backend' only if every backend is inside an unhealthy
// window" — the only reason for which findHealthyBackend may discard what the strategy proposed is that
// IsBackendHealthy(thatBackend) said no.  Every path on which the health test of a proposed backend
// came out true returns that backend: a further condition (a connection limit, a quota) turns "busy"
// into "503 while healthy".
func (c *Ctx) healthyPickIsTaken() {
	p := c.P
	// the function that asks the strategy and re-checks the proposal (findHealthyBackend, whatever it
	// is called, or the function it was inlined into): it calls both NextBackend and IsBackendHealthy
	construct := "loadbalancer.(*LoadBalancer).findHealthyBackend"
	var fn *ssa.Function
	for _, f := range p.Funcs {
		pk := fnPkg(f)
		if pk == nil || !strings.HasSuffix(pk.Pkg.Path(), "/internal/loadbalancer") || f.Parent() != nil {
			continue
		}
		picks, checks := false, false
		for _, ci := range callsIn(f) {
			n := CalleeName(ci)
			if strings.HasSuffix(n, "LoadBalancer).NextBackend") {
				picks = true
			}
			if strings.HasSuffix(n, "LoadBalancer).IsBackendHealthy") {
				checks = true
			}
		}
		if picks && checks && (fn == nil || len(f.Blocks) < len(fn.Blocks)) {
			fn = f
		}
	}
	proxy := c.proxyFn()
	sp := &Spec{
		Event: func(in ssa.Instruction, fr *Frame) string {
			if ci, ok := in.(ssa.CallInstruction); ok {
				n := CalleeName(ci)
				if strings.HasSuffix(n, "LoadBalancer).proxyRequest") || (proxy != nil && StaticFn(ci) == proxy) {
					return "dispatch"
				}
				if strings.HasSuffix(n, "LoadBalancer).NextBackend") {
					return "pick"
				}
			}
			return ""
		},
		Cond:   p.anyCondLabel(),
		Expand: func(*ssa.Function, ssa.CallInstruction) bool { return false },
	}
	c.traceRule("healthy-pick-is-taken", construct, fn, sp,
		"a proposed backend that passed IsBackendHealthy is the one returned / dispatched to",
		func(t *Trace) string {
			// the last health verdict on this path
			lastTrue, after := -1, -1
			for i, it := range t.Items {
				ifi, isIf := it.Instr.(*ssa.If)
				if !isIf {
					continue
				}
				if call, ok := ifi.Cond.(*ssa.Call); ok && strings.HasSuffix(CalleeName(call), "LoadBalancer).IsBackendHealthy") {
					if it.Pol {
						lastTrue = i
					} else {
						lastTrue = -1
					}
					after = i
				}
			}
			_ = after
			if lastTrue < 0 {
				return ""
			}
			// a healthy verdict: the path must end by handing that backend on — no further pick
			for _, it := range t.Items[lastTrue+1:] {
				if it.Label == "pick" {
					return "a proposed backend passed the health test and was discarded for another reason: the strategy is asked again (or the request refused) although the backend is healthy — busy is not unhealthy, and a sticky strategy proposes the same backend again until the client gets 503"
				}
			}
			if len(t.Ret) == 1 && t.Ret[0].K == ANil && !t.Has("dispatch") {
				return "a proposed backend passed the health test and the function still answers 'no backend'"
			}
			return ""
		})
}

// configuredNameHonoured: "every response carries the *configured* ID headers".  The functions that
// yield the header names return the configured name whenever one is configured: the only test that
// sends them to the default is emptiness.  A further filter (a pattern the name has to match) silently
// replaces valid custom names (X-B3-TraceId, X_Request_Id) by the default.
func (c *Ctx) configuredNameHonoured() {
	p := c.P
	n := 0
	for _, name := range []string{"RequestHeaderName", "TraceHeaderName"} {
		fn := p.Fn("internal/logging", "", name)
		construct := "logging." + name
		if fn == nil {
			c.Missing("configured-name-honoured", construct)
			continue
		}
		n++
		var bad []string
		seenFns := map[*ssa.Function]bool{}
		var scan func(f *ssa.Function, d int)
		scan = func(f *ssa.Function, d int) {
			if f == nil || seenFns[f] || d > 2 || f.Blocks == nil {
				return
			}
			seenFns[f] = true
			instrsOf(f, func(in ssa.Instruction) {
				if ifi, ok := in.(*ssa.If); ok {
					r := p.RelOf(ifi.Cond, true, nil)
					emptiness := r.OK && r.Pred == "" && (r.Y == `k:""` || r.X == `k:""`)
					isLen := r.OK && strings.HasPrefix(r.X, "len(")
					if !emptiness && !isLen {
						bad = append(bad, fmt.Sprintf("%s: %s decides between the configured name and the default by something other than emptiness (%s): a valid custom header name can be replaced by the default, and the responses then lack the configured header", p.InstrPos(ifi), p.FuncKey(f), firstN(p.Desc(ifi.Cond, nil), 120)))
					}
				}
				if ci, ok := in.(ssa.CallInstruction); ok {
					if g := StaticFn(ci); g != nil && p.InScope(g) {
						// only helpers that are handed the name (a validity test moved out of line)
						for _, a := range ci.Common().Args {
							if b, isStr := a.Type().Underlying().(*types.Basic); isStr && b.Kind() == types.String {
								scan(g, d+1)
								break
							}
						}
					}
				}
			})
		}
		scan(fn, 0)
		if len(bad) == 0 {
			c.Pass("configured-name-honoured", construct, p.Pos(fn.Pos()), "the default is used only for an empty configured name")
		} else {
			c.Fail("configured-name-honoured", construct, p.Pos(fn.Pos()), bad[0], bad...)
		}
	}
	c.Floor("configured-name-honoured", n, 2, "header-name functions")
}

// idHeaderNamesValidated: the request/trace ID header names are added to every proxied request.  A
// configured name that is not an HTTP field name ("X Request ID") makes the backend transport refuse
// the request — every request answered 502 by an accepted configuration.  Validation has to look at
// both names and be able to refuse them: in the configuration package some test derived from each
// field leads to an error return.
func (c *Ctx) idHeaderNamesValidated() {
	p := c.P
	rule := "id-header-name-validated"
	n := 0
	for _, field := range []string{"config.RequestIDConfig.Header", "config.TraceConfig.Header"} {
		n++
		refused := false
		pos := "-"
		for _, fn := range p.Funcs {
			pk := fnPkg(fn)
			if pk == nil || !strings.HasSuffix(pk.Pkg.Path(), "/internal/config") {
				continue
			}
			instrsOf(fn, func(in ssa.Instruction) {
				ifi, ok := in.(*ssa.If)
				if !ok || refused {
					return
				}
				fromField := c.flowsFrom(ifi.Cond, func(v ssa.Value) bool {
					if u, isU := v.(*ssa.UnOp); isU {
						v = u.X
					}
					fr, ok := fieldRefOf(v)
					return ok && fr.Key() == field
				})
				if !fromField {
					return
				}
				for _, s := range ifi.Block().Succs {
					for _, in2 := range s.Instrs {
						if ret, isRet := in2.(*ssa.Return); isRet && len(ret.Results) > 0 && !isConstNil(ret.Results[len(ret.Results)-1]) {
							refused = true
							pos = p.InstrPos(ifi)
						}
					}
				}
			})
		}
		c.Check(refused, rule, field, pos, "validation tests the name and can refuse it",
			field+" is added to every proxied request as a header name and validation never looks at it: a name that is not an HTTP field name (\"X Request ID\") is accepted, the backend transport refuses every request that carries it, and the proxy answers 502 to everything")
	}
	c.Floor(rule, n, 2, "ID header names")
}
