package main

import (
	"encoding/json"
	"fmt"
	"os"
)

func thorough(c *Ctx, repo, verif string, extra map[string]interface{}) {}

func doReplay(c *Ctx, file string) int {
	b, err := os.ReadFile(file)
	if err != nil {
		fmt.Println("cannot read replay file:", err)
		return 2
	}
	var r struct{ Rule, Construct string }
	if err := json.Unmarshal(b, &r); err != nil {
		fmt.Println("bad replay file:", err)
		return 2
	}
	for _, o := range c.Obs {
		if o.Rule == r.Rule && o.Construct == r.Construct {
			fmt.Printf("%s %s @ %s: %s — %s\n", o.Rule, o.Construct, o.Pos, o.Status, o.Detail)
			for _, w := range o.Witness {
				fmt.Println("   ", w)
			}
			if o.st != OK {
				fmt.Printf("VIOLATION property=%s replay=%s\n", c.Prop, file)
				return 1
			}
			return 0
		}
	}
	fmt.Println("obligation no longer present:", r.Rule, r.Construct)
	return 0
}
