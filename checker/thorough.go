package main

import (
	"bufio"
	"encoding/json"
	"fmt"
	"os"
	"os/exec"
	"path/filepath"
	"sort"
	"strings"
	"sync"
)

// ---- mutant files ----------------------------------------------------------------------------
//
// /verif/selftest/*.mut:
//
//	@@ C09 tokens-ge-zero expect=spend-on-admit
//	file internal/ratelimiter/ratelimiter.go
//	<<<
//	if b.tokens > 0 {
//	===
//	if b.tokens >= 0 {
//	>>>
//
// A mutant may contain several file/<<< === >>> blocks.  `neutral` instead of expect= marks a
// behaviour-preserving edit that must leave every verdict unchanged.

type Mutant struct {
	Prop    string
	Name    string
	Expect  []string
	Neutral bool
	Edits   []string // "relpath|old|new"
	Source  string
}

func readMutants(dir string) ([]Mutant, error) {
	files, _ := filepath.Glob(filepath.Join(dir, "*.mut"))
	sort.Strings(files)
	var out []Mutant
	for _, f := range files {
		fh, err := os.Open(f)
		if err != nil {
			return nil, err
		}
		sc := bufio.NewScanner(fh)
		sc.Buffer(make([]byte, 1<<20), 1<<20)
		var cur *Mutant
		var file string
		mode := 0 // 0 header, 1 old, 2 new
		var oldB, newB []string
		ln := 0
		for sc.Scan() {
			ln++
			line := sc.Text()
			switch {
			case mode == 0 && strings.HasPrefix(line, "@@ "):
				if cur != nil {
					out = append(out, *cur)
				}
				parts := strings.Fields(line[3:])
				if len(parts) < 3 {
					fh.Close()
					return nil, fmt.Errorf("%s:%d: bad mutant header", f, ln)
				}
				cur = &Mutant{Prop: parts[0], Name: parts[1], Source: fmt.Sprintf("%s:%d", filepath.Base(f), ln)}
				for _, a := range parts[2:] {
					if a == "neutral" {
						cur.Neutral = true
					} else if strings.HasPrefix(a, "expect=") {
						cur.Expect = strings.Split(strings.TrimPrefix(a, "expect="), ",")
					}
				}
			case mode == 0 && strings.HasPrefix(line, "file "):
				file = strings.TrimSpace(line[5:])
			case mode == 0 && line == "<<<":
				mode, oldB, newB = 1, nil, nil
			case mode == 1 && line == "===":
				mode = 2
			case mode == 2 && line == ">>>":
				mode = 0
				if cur == nil || file == "" {
					fh.Close()
					return nil, fmt.Errorf("%s:%d: edit outside a mutant", f, ln)
				}
				cur.Edits = append(cur.Edits, file+"\x1f"+strings.Join(oldB, "\n")+"\x1f"+strings.Join(newB, "\n"))
			case mode == 1:
				oldB = append(oldB, line)
			case mode == 2:
				newB = append(newB, line)
			}
		}
		fh.Close()
		if cur != nil {
			out = append(out, *cur)
		}
	}
	return out, nil
}

type subResult struct {
	LoadError string        `json:"load_error,omitempty"`
	NotApplic string        `json:"not_applicable,omitempty"`
	Obs       []*Obligation `json:"obligations"`
}

// runSub runs this binary on the same repo with extra arguments and decodes its JSON report.
func runSub(repo, prop string, extra []string, env []string) (*subResult, error) {
	self, err := os.Executable()
	if err != nil {
		return nil, err
	}
	args := append([]string{"-prop", prop, "-repo", repo, "-json"}, extra...)
	cmd := exec.Command(self, args...)
	cmd.Env = append(os.Environ(), env...)
	out, err := cmd.Output()
	var r subResult
	if jerr := json.Unmarshal(out, &r); jerr != nil {
		return nil, fmt.Errorf("sub-run failed (%v): %s", err, firstN(string(out), 300))
	}
	return &r, nil
}

func firstN(s string, n int) string {
	if len(s) > n {
		return s[:n]
	}
	return s
}

func nonOK(obs []*Obligation) map[string]*Obligation {
	m := map[string]*Obligation{}
	for _, o := range obs {
		if o.Status != "ok" {
			m[o.Rule+" "+o.Construct] = o
		}
	}
	return m
}

// thorough adds to the quick verdict: (1) the same rules under other build configurations,
// (2) the seeded-breakage self test, (3) the neutral-edit self test.  It returns the number of
// self-test failures (a broken check, not a violation of the property).
func thorough(c *Ctx, repo, verif string, extra map[string]interface{}) int {
	base := nonOK(c.Obs)
	baseAll := map[string]string{}
	for _, o := range c.Obs {
		baseAll[o.Rule+" "+o.Construct] = o.Status
	}
	failures := 0
	// (1) build configurations
	type cfgRes struct {
		Config string `json:"config"`
		Result string `json:"result"`
	}
	var cfgs []cfgRes
	for _, cf := range [][2]string{{"GOOS=windows", ""}, {"GOARCH=386", ""}, {"", "verif"}} {
		name := cf[0]
		var args, env []string
		if cf[0] != "" {
			env = append(env, cf[0])
		}
		if cf[1] != "" {
			args = append(args, "-tags", cf[1])
			name = "-tags " + cf[1]
		}
		r, err := runSub(repo, c.Prop, args, env)
		switch {
		case err != nil:
			cfgs = append(cfgs, cfgRes{name, "error: " + err.Error()})
			failures++
		case r.LoadError != "":
			cfgs = append(cfgs, cfgRes{name, "load error: " + r.LoadError})
			failures++
		default:
			diff := 0
			seen := map[string]bool{}
			for _, o := range r.Obs {
				k := o.Rule + " " + o.Construct
				seen[k] = true
				if baseAll[k] != o.Status {
					diff++
				}
			}
			for k := range baseAll {
				if !seen[k] {
					diff++
				}
			}
			if diff == 0 {
				cfgs = append(cfgs, cfgRes{name, fmt.Sprintf("identical verdicts (%d obligations)", len(r.Obs))})
			} else {
				cfgs = append(cfgs, cfgRes{name, fmt.Sprintf("%d obligations differ from the default configuration", diff)})
				fmt.Printf("  build configuration %s: %d obligations differ\n", name, diff)
				failures++
			}
		}
	}
	extra["build_configurations"] = cfgs

	// (2),(3) mutants
	muts, err := readMutants(filepath.Join(verif, "selftest"))
	if err != nil {
		fmt.Println("BROKEN-CHECK: cannot read self-test mutants:", err)
		return failures + 1
	}
	type mres struct {
		Name    string   `json:"name"`
		Kind    string   `json:"kind"`
		Outcome string   `json:"outcome"`
		Fired   []string `json:"fired,omitempty"`
	}
	var mine []Mutant
	for _, m := range muts {
		if m.Prop == c.Prop {
			mine = append(mine, m)
		}
	}
	results := make([]mres, len(mine))
	sem := make(chan struct{}, 12)
	var wg sync.WaitGroup
	for i, m := range mine {
		wg.Add(1)
		go func(i int, m Mutant) {
			defer wg.Done()
			sem <- struct{}{}
			defer func() { <-sem }()
			var args []string
			for _, e := range m.Edits {
				args = append(args, "-mut", e)
			}
			kind := "seeded-breakage"
			if m.Neutral {
				kind = "neutral-edit"
			}
			r, err := runSub(repo, c.Prop, args, nil)
			res := mres{Name: m.Name, Kind: kind}
			switch {
			case err != nil:
				res.Outcome = "error: " + err.Error()
			case r.NotApplic != "":
				res.Outcome = "skipped: " + r.NotApplic
			case r.LoadError != "":
				res.Outcome = "skipped: mutant does not compile: " + firstN(r.LoadError, 160)
			default:
				got := nonOK(r.Obs)
				var fresh []string
				for k := range got {
					if _, ok := base[k]; !ok {
						fresh = append(fresh, k)
					}
				}
				sort.Strings(fresh)
				res.Fired = fresh
				if m.Neutral {
					gone := 0
					all := map[string]string{}
					for _, o := range r.Obs {
						all[o.Rule+" "+o.Construct] = o.Status
					}
					for k, st := range baseAll {
						if all[k] != st {
							gone++
						}
					}
					if len(fresh) == 0 && gone == 0 {
						res.Outcome = "ok: verdicts unchanged"
					} else {
						res.Outcome = fmt.Sprintf("FAILED: behaviour-preserving edit changed %d verdicts", len(fresh)+gone)
					}
				} else {
					missing := []string{}
					for _, e := range m.Expect {
						hit := false
						for _, k := range fresh {
							if strings.HasPrefix(k, e+" ") || strings.Contains(k, e) {
								hit = true
							}
						}
						if !hit {
							missing = append(missing, e)
						}
					}
					if len(missing) == 0 && len(fresh) > 0 {
						res.Outcome = "ok: detected"
					} else if len(fresh) > 0 {
						res.Outcome = "FAILED: detected, but not by the expected rule(s) " + strings.Join(missing, ",")
					} else {
						res.Outcome = "FAILED: not detected"
					}
				}
			}
			results[i] = res
		}(i, m)
	}
	wg.Wait()
	nOK, nSkip := 0, 0
	for _, r := range results {
		switch {
		case strings.HasPrefix(r.Outcome, "ok"):
			nOK++
		case strings.HasPrefix(r.Outcome, "skipped"):
			nSkip++
		default:
			failures++
			fmt.Printf("  self-test %s %s: %s %v\n", r.Kind, r.Name, r.Outcome, r.Fired)
		}
	}
	extra["selftest"] = map[string]interface{}{"mutants": len(mine), "ok": nOK, "skipped": nSkip, "results": results}
	// (4) independently seeded changes (written by sub-agents that saw only the property text)
	seedRes, seedFail := runSeeded(c, repo, verif, base)
	failures += seedFail
	extra["seeded_changes"] = seedRes
	// (5) behaviour-preserving refactors written by sub-agents that saw only the repository: verdicts must not change
	neutRes, neutFail := runNeutral(c, repo, verif, base)
	failures += neutFail
	extra["neutral_refactors"] = neutRes
	fmt.Printf("%s thorough: %d build configurations, %d self-test mutants (%d ok, %d skipped), %d seeded changes, %d neutral refactors, %d failures\n", c.Prop, len(cfgs), len(mine), nOK, nSkip, len(seedRes), len(neutRes), failures)
	return failures
}

// overlayFromPatch copies the files a patch touches from repo into a fresh temporary directory and
// applies the patch there. The caller removes the directory.
func overlayFromPatch(repo, patch string) (dir string, skipped string, err error) {
	tmp, err := os.MkdirTemp("", "helios-overlay-")
	if err != nil {
		return "", "", err
	}
	pb, _ := os.ReadFile(patch)
	lines := strings.Split(string(pb), "\n")
	for li, line := range lines {
		if !strings.HasPrefix(line, "+++ b/") {
			continue
		}
		f := strings.TrimPrefix(line, "+++ b/")
		if li > 0 && strings.HasPrefix(lines[li-1], "--- /dev/null") {
			// a file the patch creates
			_ = os.MkdirAll(filepath.Dir(filepath.Join(tmp, f)), 0o755)
			continue
		}
		src, err := os.ReadFile(filepath.Join(repo, f))
		if err != nil {
			return tmp, f + " no longer exists", nil
		}
		_ = os.MkdirAll(filepath.Dir(filepath.Join(tmp, f)), 0o755)
		_ = os.WriteFile(filepath.Join(tmp, f), src, 0o644)
	}
	cmd := exec.Command("patch", "-p1", "-s", "-N", "-d", tmp, "-i", patch)
	if o, err := cmd.CombinedOutput(); err != nil {
		return tmp, "patch no longer applies to the current sources: " + firstN(string(o), 120), nil
	}
	return tmp, "", nil
}

// runNeutral overlays each stored behaviour-preserving refactor on /repo and expects no obligation of
// this property to turn non-ok.
func runNeutral(c *Ctx, repo, verif string, base map[string]*Obligation) ([]seedResult, int) {
	patches, _ := filepath.Glob(filepath.Join(verif, "neutral", "*", "patch.diff"))
	sort.Strings(patches)
	out := make([]seedResult, len(patches))
	fails := make([]int, len(patches))
	sem := make(chan struct{}, 12)
	var wg sync.WaitGroup
	for i, patch := range patches {
		wg.Add(1)
		go func(i int, patch string) {
			defer wg.Done()
			sem <- struct{}{}
			defer func() { <-sem }()
			res := seedResult{ID: filepath.Base(filepath.Dir(patch))}
			defer func() { out[i] = res }()
			tmp, skipped, err := overlayFromPatch(repo, patch)
			if tmp != "" {
				defer os.RemoveAll(tmp)
			}
			if err != nil {
				res.Outcome = "error: " + err.Error()
				fails[i] = 1
				return
			}
			if skipped != "" {
				res.Outcome = "skipped: " + skipped
				return
			}
			r, err := runSub(repo, c.Prop, []string{"-overlay-dir", tmp}, nil)
			switch {
			case err != nil:
				res.Outcome = "error: " + err.Error()
				fails[i] = 1
			case r.LoadError != "":
				res.Outcome = "skipped: does not compile against the current sources: " + firstN(r.LoadError, 120)
			default:
				for k := range nonOK(r.Obs) {
					if _, ok := base[k]; !ok {
						res.Fired = append(res.Fired, k)
					}
				}
				sort.Strings(res.Fired)
				if len(res.Fired) == 0 {
					res.Outcome = "ok: silent"
				} else {
					res.Outcome = "FAILED: false alarm on a behaviour-preserving refactor"
					fails[i] = 1
					fmt.Printf("  neutral refactor %s: FALSE ALARM %v\n", res.ID, res.Fired)
				}
			}
		}(i, patch)
	}
	wg.Wait()
	n := 0
	for _, f := range fails {
		n += f
	}
	return out, n
}

func doReplay(c *Ctx, file string) int {
	b, err := os.ReadFile(file)
	if err != nil {
		fmt.Println("cannot read replay file:", err)
		return 2
	}
	var r struct{ Rule, Construct string }
	if err := json.Unmarshal(b, &r); err != nil {
		fmt.Println("bad replay file:", err)
		return 2
	}
	for _, o := range c.Obs {
		if o.Rule == r.Rule && o.Construct == r.Construct {
			fmt.Printf("%s %s @ %s: %s — %s\n", o.Rule, o.Construct, o.Pos, o.Status, o.Detail)
			for _, w := range o.Witness {
				fmt.Println("   ", w)
			}
			if o.st != OK {
				fmt.Printf("VIOLATION property=%s replay=%s\n", c.Prop, file)
				return 1
			}
			return 0
		}
	}
	fmt.Println("obligation no longer present:", r.Rule, r.Construct)
	return 0
}

type seedResult struct {
	ID      string   `json:"id"`
	Outcome string   `json:"outcome"`
	Fired   []string `json:"fired,omitempty"`
}

// runSeeded applies each stored patch of this property to copies of the affected files in a
// temporary directory (outside /repo and /verif, removed afterwards), analyses /repo with those
// copies overlaid in memory, and expects at least one new violation.
func runSeeded(c *Ctx, repo, verif string, base map[string]*Obligation) ([]seedResult, int) {
	dirs, _ := filepath.Glob(filepath.Join(verif, "seeded", "*", "meta.json"))
	sort.Strings(dirs)
	var out []seedResult
	failures := 0
	for _, mf := range dirs {
		b, err := os.ReadFile(mf)
		if err != nil {
			continue
		}
		var meta struct {
			ID       string `json:"id"`
			Property string `json:"property"`
		}
		if json.Unmarshal(b, &meta) != nil || meta.Property != c.Prop {
			continue
		}
		patch := filepath.Join(filepath.Dir(mf), "patch.diff")
		res := seedResult{ID: meta.ID}
		tmp, err := os.MkdirTemp("", "helios-seed-")
		if err != nil {
			res.Outcome = "error: " + err.Error()
			out = append(out, res)
			failures++
			continue
		}
		func() {
			defer os.RemoveAll(tmp)
			pb, _ := os.ReadFile(patch)
			var files []string
			for _, line := range strings.Split(string(pb), "\n") {
				if strings.HasPrefix(line, "+++ b/") {
					files = append(files, strings.TrimPrefix(line, "+++ b/"))
				}
			}
			for _, f := range files {
				src, err := os.ReadFile(filepath.Join(repo, f))
				if err != nil {
					res.Outcome = "skipped: " + f + " no longer exists"
					return
				}
				_ = os.MkdirAll(filepath.Dir(filepath.Join(tmp, f)), 0o755)
				_ = os.WriteFile(filepath.Join(tmp, f), src, 0o644)
			}
			cmd := exec.Command("patch", "-p1", "-s", "-N", "-d", tmp, "-i", patch)
			if o, err := cmd.CombinedOutput(); err != nil {
				res.Outcome = "skipped: patch no longer applies to the current sources: " + firstN(string(o), 120)
				return
			}
			r, err := runSub(repo, c.Prop, []string{"-overlay-dir", tmp}, nil)
			switch {
			case err != nil:
				res.Outcome = "error: " + err.Error()
				failures++
			case r.LoadError != "":
				res.Outcome = "skipped: does not compile against the current sources: " + firstN(r.LoadError, 120)
			default:
				for k := range nonOK(r.Obs) {
					if _, ok := base[k]; !ok {
						res.Fired = append(res.Fired, k)
					}
				}
				sort.Strings(res.Fired)
				if len(res.Fired) > 0 {
					res.Outcome = "ok: detected"
				} else {
					res.Outcome = "FAILED: not detected"
					failures++
					fmt.Printf("  seeded change %s: NOT detected\n", meta.ID)
				}
			}
		}()
		out = append(out, res)
	}
	return out, failures
}
