package main

import (
	"fmt"
	"go/types"
	"sort"
	"strings"

	"golang.org/x/tools/go/ssa"
)

func init() {
	registry["C07"] = checkC07
	registry["C08"] = checkC08
}

const cbT = "circuitbreaker.CircuitBreaker."

// breaker state constants (read from the package, not assumed)
type cbConsts struct{ closed, open, half int64 }

func (c *Ctx) cbStateConsts() (cbConsts, bool) {
	sp := c.P.SSAPkg[modPath+"/internal/circuitbreaker"]
	if sp == nil {
		return cbConsts{}, false
	}
	get := func(n string) (int64, bool) {
		k := sp.Const(n)
		if k == nil {
			return 0, false
		}
		return constInt(k.Value)
	}
	a, ok1 := get("StateClosed")
	b, ok2 := get("StateOpen")
	d, ok3 := get("StateHalfOpen")
	return cbConsts{a, b, d}, ok1 && ok2 && ok3
}

// cbSpec: events for breaker internals.
func (c *Ctx) cbSpec(expandSetState bool) *Spec {
	p := c.P
	return &Spec{
		Event: func(in ssa.Instruction, fr *Frame) string {
			if k, st := storeKey(in); strings.HasPrefix(k, cbT) {
				return "store " + strings.TrimPrefix(k, cbT) + " := " + p.Desc(st.Val, fr)
			}
			ci, ok := in.(ssa.CallInstruction)
			if !ok {
				return ""
			}
			n := CalleeName(ci)
			if op, ok := asLockOp(ci); ok && op.Class == cbT+"mutex" {
				if op.Acquire {
					return "lock:" + string(op.Mode)
				}
				return "unlock:" + string(op.Mode)
			}
			switch {
			case strings.HasSuffix(n, "CircuitBreaker).setState"):
				if k, ok := constInt(ci.Common().Args[1]); ok {
					return "setState(" + itoa(k) + ")"
				}
				return "setState(?)"
			case c.cbReporter(StaticFn(ci)) && (fr == nil || !c.cbReporter(fr.Fn)):
				// the outermost call that reports a request's outcome to the breaker (afterRequest,
				// recordResult, … — any unexported method taking just the success flag)
				return "afterRequest(" + p.Desc(ci.Common().Args[1+cbSuccessIndex(StaticFn(ci))], fr) + ")"
			case strings.HasPrefix(n, "dyn:func() error"):
				return "call-fn"
			case n == "builtin:recover":
				return "recover"
			}
			return ""
		},
		Cond: func(in *ssa.If, fr *Frame) string {
			d := p.Desc(in.Cond, fr)
			if strings.Contains(d, cbT) || strings.Contains(d, "param:success") || strings.Contains(d, "beforeRequest") || strings.Contains(d, "recover") {
				return "if " + d
			}
			return ""
		},
		Expand: func(callee *ssa.Function, site ssa.CallInstruction) bool {
			n := callee.Name()
			if n == "setState" {
				return expandSetState
			}
			return strings.HasSuffix(fnPkg(callee).Pkg.Path(), "/circuitbreaker") && n != "Counts"
		},
		RetLabel: func(callee *ssa.Function) string {
			// any inlined breaker helper that answers with just an error: its verdict is part of the path
			if rs := callee.Signature.Results(); rs.Len() >= 1 && rs.At(rs.Len()-1).Type().String() == "error" {
				return "ret:err"
			}
			return ""
		},
		MayPanic: func(site ssa.CallInstruction) bool { return strings.HasPrefix(CalleeName(site), "dyn:func() error") },
	}
}

// cbReporter: an unexported method of CircuitBreaker that takes the success flag — its only
// boolean parameter; it may carry further context (an admission token, a timestamp).
func (c *Ctx) cbReporter(f *ssa.Function) bool {
	if f == nil || f.Signature.Recv() == nil || QualType(namedOf(f.Signature.Recv().Type())) != "circuitbreaker.CircuitBreaker" {
		return false
	}
	if f.Object() == nil || f.Object().Exported() {
		return false
	}
	return cbSuccessIndex(f) >= 0
}

// cbSuccessIndex: the index (among the declared parameters, receiver excluded) of the only boolean
// parameter of f, -1 when there is none or more than one.
func cbSuccessIndex(f *ssa.Function) int {
	if f == nil {
		return -1
	}
	ps := f.Signature.Params()
	idx := -1
	for i := 0; i < ps.Len(); i++ {
		if b, ok := ps.At(i).Type().Underlying().(*types.Basic); ok && b.Kind() == types.Bool {
			if idx >= 0 {
				return -1
			}
			idx = i
		}
	}
	return idx
}

// cbReportFn: the function in which a reported outcome is turned into counters and transitions —
// afterRequest when it exists, otherwise whichever reporter the package has.
func (c *Ctx) cbReportFn() *ssa.Function {
	p := c.P
	if f := p.Fn("internal/circuitbreaker", "CircuitBreaker", "afterRequest"); f != nil {
		return f
	}
	var out *ssa.Function
	for _, f := range p.Funcs {
		if c.cbReporter(f) && (out == nil || f.Name() < out.Name()) {
			out = f
		}
	}
	return out
}

// stateOn returns the breaker state constant established by the last state test before idx
// (-1 when unknown), looking at relations "state − k = 0".
func (c *Ctx) stateOn(t *Trace, idx int, fr *Frame) int64 {
	st := int64(-1)
	for i := 0; i < idx && i < len(t.Items); i++ {
		it := t.Items[i]
		if _, ok := it.Instr.(*ssa.If); !ok {
			continue
		}
		r := c.condRel(it)
		if o, ok := r.Orient(cbT+"state", ""); ok && o.Y == "" && o.Pred == "" {
			if !o.Neq && o.Lo == o.Hi {
				st = o.Lo
			}
		}
	}
	return st
}

func checkC07(c *Ctx) {
	p := c.P
	k, ok := c.cbStateConsts()
	if !ok {
		c.Missing("breaker-constants", "circuitbreaker.State{Closed,Open,HalfOpen}")
		return
	}
	c.Clause("all breaker state is guarded by CircuitBreaker.mutex; setState only with the write lock held")
	c.Clause("transition relation of afterRequest/beforeRequest equals {Closed,fail≥thr→Open; HalfOpen,fail→Open; HalfOpen,success≥thr→Closed; Open,timeout→HalfOpen} with nextAttempt/counters updated on each edge")
	c.Clause("threshold comparisons are exactly ≥ failureThreshold, ≥ successThreshold, ≥ maxRequests, lastFailure+interval < now, nextAttempt < now")
	c.Clause("Execute calls fn only after beforeRequest returned nil; LoadBalancer.ServeHTTP reaches handleRequest under a configured breaker only through Execute")
	c.Clause("a half-open trial is spent (requestCount++) in the critical section of the comparison that admitted it")
	c.Clause("the status the outcome is derived from is the last one the backend wrote (an interim 1xx does not mask a final 5xx); admission context reported with the outcome is read in the admitting critical section")
	c.Clause("the function handed to Execute can report failure (a non-nil error) for failed proxied requests; panics reach afterRequest(false) and are re-raised")
	c.Clause("handleRequest returns nil to Execute only on paths on which a backend answered below 500: the 503 'no healthy backend' and every failed proxied request return an error, so a half-open trial that reached no backend is no success")
	c.Clause("on the rejecting edges of beforeRequest the function handed to Execute is not called (no backend is contacted)")
	c.Clause("each breaker setting (thresholds, interval, timeout, trial budget) is computed from the configuration field of the same meaning and from no other")
	c.NotDecided("bounded event histories against a reference model; wall-clock behaviour; fairness between concurrent callers")

	lockDiscipline(c, func(key string) bool { return strings.HasPrefix(key, cbT) })
	// setState only with W held
	li := p.Locks()
	if ss := p.Fn("internal/circuitbreaker", "CircuitBreaker", "setState"); ss == nil {
		c.Pass("called-with-lock", "circuitbreaker.(*CircuitBreaker).setState", "-", "there is no setState helper: every store to CircuitBreaker.state is covered by guarded-by (write lock required)")
	} else {
		c.Check(li.Fns[ss].Entry.HoldsClass(cbT+"mutex") == 'W', "called-with-lock", "circuitbreaker.(*CircuitBreaker).setState", p.Pos(ss.Pos()),
			"every call site holds CircuitBreaker.mutex in write mode", "setState is reachable without CircuitBreaker.mutex held in write mode")
	}

	after := c.cbReportFn()
	exec := p.Fn("internal/circuitbreaker", "CircuitBreaker", "Execute")
	successParam := "param:success"
	if si := cbSuccessIndex(after); after != nil && si >= 0 && 1+si < len(after.Params) {
		successParam = "param:" + after.Params[1+si].Name()
	}

	// ---- afterRequest transitions ---------------------------------------------------------
	c.traceRule("transition-relation", "circuitbreaker.(*CircuitBreaker).afterRequest", after, c.cbSpec(true),
		"every path performs exactly the transition its (state, outcome, threshold) context prescribes",
		func(t *Trace) string {
			// outcome
			succ, _, okS := c.findRel(t, successParam, "", 0, -1)
			if !okS {
				return "undecided: outcome parameter is not tested"
			}
			success := succ.Lo == 1
			var sets []int
			for i, it := range t.Items {
				if strings.HasPrefix(it.Label, "store state := ") {
					sets = append(sets, i)
				}
			}
			state := c.stateOn(t, len(t.Items), nil)
			if len(sets) > 0 {
				state = c.stateOn(t, sets[0], nil)
			}
			has := func(l string, from int) bool { return t.Index(l, from) >= 0 }
			if success {
				if !has("store lastSuccessTime := now", 0) {
					// informational field only; not required
				}
				switch state {
				case k.half:
					inc := t.Index("store successCount := (fld:"+cbT+"successCount + k:1)", 0)
					if inc < 0 {
						return "half-open success does not count the success"
					}
					r, ri, ok := c.findRel(t, cbT+"successCount", cbT+"successThreshold", inc, -1)
					if !ok {
						return "half-open success never compared with successThreshold"
					}
					reached := r.Lo == 0 && r.Hi == posInf
					notReached := r.Lo == negInf && r.Hi == -1
					if !reached && !notReached {
						return "close threshold is not successCount ≥ successThreshold: " + r.String()
					}
					if reached {
						if len(sets) != 1 || t.Items[sets[0]].Label != "store state := k:"+itoa(k.closed) || sets[0] < ri {
							return "success threshold reached but breaker not closed"
						}
						if !has("store failureCount := k:0", sets[0]) {
							return "closing does not clear failureCount"
						}
					} else if len(sets) != 0 {
						return "state changed before the success threshold was reached"
					}
				default:
					if len(sets) != 0 {
						return fmt.Sprintf("success in state %d changes the state", state)
					}
					for _, it := range t.Items {
						if strings.HasPrefix(it.Label, "store successCount") || strings.HasPrefix(it.Label, "store failureCount") || strings.HasPrefix(it.Label, "store requestCount") {
							if state != k.half && state != -1 {
								return "success outside half-open modifies counters: " + it.Label
							}
						}
					}
				}
				return ""
			}
			// failure
			inc := t.Index("store failureCount := (fld:"+cbT+"failureCount + k:1)", 0)
			if inc < 0 {
				return "failure is not counted (failureCount+1 missing)"
			}
			if !has("store lastFailureTime := now", 0) {
				return "failure does not record lastFailureTime = now (interval window cannot work)"
			}
			openAt := -1
			if len(sets) > 0 {
				openAt = sets[0]
			}
			checkOpen := func() string {
				if len(sets) != 1 || t.Items[openAt].Label != "store state := k:"+itoa(k.open) {
					return "expected exactly one transition to Open"
				}
				if !has("store nextAttempt := add(now,fld:"+cbT+"timeout)", openAt) {
					return "entering Open does not set nextAttempt = now + timeout"
				}
				return ""
			}
			switch state {
			case k.closed:
				r, ri, ok := c.findRel(t, cbT+"failureCount", cbT+"failureThreshold", inc, -1)
				if !ok {
					return "closed-state failure never compared with failureThreshold (after counting it)"
				}
				reached := r.Lo == 0 && r.Hi == posInf
				notReached := r.Lo == negInf && r.Hi == -1
				if !reached && !notReached {
					return "open threshold is not failureCount ≥ failureThreshold: " + r.String()
				}
				if reached {
					if openAt < ri {
						return "failure threshold reached but breaker not opened"
					}
					return checkOpen()
				}
				if len(sets) != 0 {
					return "breaker opened below the failure threshold"
				}
			case k.half:
				return checkOpen()
			default:
				if len(sets) != 0 {
					return fmt.Sprintf("failure in state %d changes the state", state)
				}
			}
			return ""
		})

	// ---- beforeRequest -------------------------------------------------------------------------
	c.admissionRule(k, exec)

	// ---- Execute ---------------------------------------------------------------------------------
	c.traceRule("blocked-means-not-contacted", "circuitbreaker.(*CircuitBreaker).Execute", exec, c.cbSpec(true),
		"fn runs only after beforeRequest returned nil, a rejection returns the error without calling fn, every completed call reports to afterRequest exactly once, panics report failure and are re-raised",
		func(t *Trace) string {
			fi := t.Index("call-fn", 0)
			// the admission test: some test of the breaker state precedes the call (or the refusal)
			bi := -1
			for i, it := range t.Items {
				if fi >= 0 && i >= fi {
					break
				}
				if _, isIf := it.Instr.(*ssa.If); isIf {
					if o, ok := c.condRel(it).Orient(cbT+"state", ""); ok && o.Y == "" {
						bi = i
						break
					}
				}
			}
			if bi < 0 {
				return "beforeRequest is not consulted"
			}
			nilRet := fi >= 0
			for i, it := range t.Items {
				if fi >= 0 && i < fi && strings.HasPrefix(it.Label, "ret:err:") && it.Label != "ret:err:nil" {
					return "fn is called although the admission logic refused the request (" + strings.TrimPrefix(it.Label, "ret:err:") + ")"
				}
			}
			if !nilRet && t.Exit == ExitNormal && len(t.Ret) == 1 && t.Ret[0].K == ANil {
				return "admitted request does not call fn (after the admission test)"
			}
			nAfter := 0
			var afterLbl string
			for _, it := range t.Items {
				if strings.HasPrefix(it.Label, "afterRequest(") {
					nAfter++
					afterLbl = it.Label
				}
			}
			if !nilRet {
				if t.Exit != ExitNormal || len(t.Ret) != 1 || t.Ret[0].K != ANonNil {
					return "rejection does not return the rejection error"
				}
				if nAfter != 0 {
					return "rejected request reported to afterRequest"
				}
				return ""
			}
			if fi < 0 || fi < bi {
				return "admitted request does not call fn (after the admission test)"
			}
			if nAfter != 1 {
				return fmt.Sprintf("admitted request reports to afterRequest %d times", nAfter)
			}
			if t.Has("panic-in:dyn:func() error") {
				if afterLbl != "afterRequest(k:false)" {
					return "panicking request not reported as a failure"
				}
				if t.Exit != ExitPanic {
					return "panic from fn is swallowed instead of re-raised"
				}
			} else {
				if !strings.Contains(afterLbl, "== k:nil") {
					return "outcome reported to afterRequest is not (err == nil): " + afterLbl
				}
				if t.Exit != ExitNormal {
					return "undecided: unexpected panic exit"
				}
			}
			return ""
		})

	// ---- admission atomicity (E1 check-then-act) ----------------------------------------------------
	c.traceRule("admission-atomic", "circuitbreaker.(*CircuitBreaker).Execute/requestCount", exec, c.cbSpec(true),
		"requestCount++ happens in the critical section of the requestCount<maxRequests test that admitted the trial, and every half-open admission spends one",
		func(t *Trace) string {
			spent := 0
			for i, it := range t.Items {
				if it.Label != "store requestCount := (fld:"+cbT+"requestCount + k:1)" {
					if strings.HasPrefix(it.Label, "store requestCount := ") && it.Label != "store requestCount := k:0" {
						return "trial budget modified by something other than +1 / reset: " + it.Label
					}
					continue
				}
				spent++
				// walk back to the start of this critical section
				admitted := false
				for j := i - 1; j >= 0; j-- {
					l := t.Items[j].Label
					if strings.HasPrefix(l, "unlock:") {
						break
					}
					if strings.HasPrefix(l, "lock:") {
						if l != "lock:W" {
							return "half-open trial spent under a read lock"
						}
						break
					}
					if o, ok := c.condRel(t.Items[j]).Orient(cbT+"requestCount", cbT+"maxRequests"); ok && o.Pred == "" && o.Hi == -1 {
						if live, why := c.loadedUnder(t.Items[j], cbT+"requestCount", cbT+"mutex", 'W'); !live {
							return "the admitting test uses a stale requestCount: " + why
						}
						admitted = true
					}
				}
				if !admitted {
					return "trial budget spent in a different critical section than the test that admitted it (two concurrent callers can both pass the test)"
				}
			}
			fi := t.Index("call-fn", 0)
			if fi >= 0 {
				sc := c.cbScan(t, fi)
				if sc.state == k.half && spent == 0 {
					return "half-open admission does not spend a trial"
				}
				if spent > 1 {
					return "one admission spends more than one trial"
				}
			}
			return ""
		})

	c.reportSnapshotRule(exec)
	c07Wiring(c)
}

// reportSnapshotRule: whatever admission context travels with a half-open trial to the outcome
// report (a generation, an epoch, a token) must have been read in the critical section that spent
// the trial.  A value read in an earlier section is stale as soon as another caller performs the
// open→half-open transition in between: the reporter then cannot match the trial to the state it
// was admitted in, the spent trial is never counted, and with the budget leaked below the success
// threshold the breaker refuses traffic for ever.
func (c *Ctx) reportSnapshotRule(exec *ssa.Function) {
	p := c.P
	li := p.Locks()
	nArgs := 0
	c.traceRule("report-snapshot-current", "circuitbreaker.(*CircuitBreaker).Execute/report-arguments", exec, c.cbSpec(true),
		"every breaker field that reaches the outcome report of a half-open trial as an argument is read under the write lock that spent the trial",
		func(t *Trace) string {
			spent := -1
			for i, it := range t.Items {
				if it.Label == "store requestCount := (fld:"+cbT+"requestCount + k:1)" {
					spent = i
				}
			}
			if spent < 0 {
				return ""
			}
			for _, it := range t.Items[spent:] {
				if !strings.HasPrefix(it.Label, "afterRequest(") {
					continue
				}
				ci, _ := it.Instr.(ssa.CallInstruction)
				si := cbSuccessIndex(StaticFn(ci))
				for ai, a := range it.Args {
					if ai == 0 || ai == 1+si {
						continue // receiver, success flag
					}
					nArgs++
					var loads []*ssa.UnOp
					fieldLoads(a.V, 0, map[ssa.Value]bool{}, &loads)
					for _, ld := range loads {
						fr, ok := fieldRefOf(ld.X)
						if !ok || !strings.HasPrefix(fr.Key(), cbT) {
							continue
						}
						fl := li.Fns[ld.Parent()]
						if fl == nil || fl.Must[ld].HoldsClass(cbT+"mutex") != 'W' {
							return fmt.Sprintf("the half-open trial is reported with %s read at %s, outside the write-locked section that spent the trial: after a concurrent open→half-open transition the value is stale, the outcome of the spent trial is discarded and the budget never comes back", fr.Key(), p.InstrPos(ld))
						}
					}
				}
			}
			return ""
		})
	c.Count("report_context_arguments", nArgs)
}

// lastLockBefore returns the most recent "lock:X" label not yet released before index i.
func (t *Trace) lastLockBefore(i int) string {
	for j := i - 1; j >= 0; j-- {
		l := t.Items[j].Label
		if strings.HasPrefix(l, "unlock:") {
			return ""
		}
		if strings.HasPrefix(l, "lock:") {
			return l
		}
	}
	return ""
}

// c07Wiring: LoadBalancer.ServeHTTP ↔ breaker.
func c07Wiring(c *Ctx) {
	p := c.P
	serve := p.Fn("internal/loadbalancer", "LoadBalancer", "ServeHTTP")
	spec := &Spec{
		Event: func(in ssa.Instruction, fr *Frame) string {
			ci, ok := in.(ssa.CallInstruction)
			if !ok {
				return ""
			}
			n := CalleeName(ci)
			switch {
			case strings.HasSuffix(n, "LoadBalancer).handleRequest"):
				return "handle"
			case n == "(*net/http/httputil.ReverseProxy).ServeHTTP":
				return "proxy"
			case strings.HasSuffix(n, "CircuitBreaker).Execute"):
				return "execute"
			}
			if code, ok := httpStatusCall(ci); ok {
				return "status:" + itoa(code)
			}
			return ""
		},
		Cond:   p.condMentions("LoadBalancer.circuitBreaker", "ErrCircuitBreakerOpen", "ErrTooManyRequests"),
		Expand: expandAllHelios("TokenBucketRateLimiter", "afterRequest", "recordResult", "metrics."),
		RetLabel: func(callee *ssa.Function) string {
			if callee.Name() == "beforeRequest" {
				return "ret:beforeRequest"
			}
			return ""
		},
	}
	c.traceRule("breaker-wiring", "loadbalancer.(*LoadBalancer).ServeHTTP", serve, spec,
		"with a breaker configured the request is handled only inside Execute after admission; a rejection is answered 503 (open) / 429 (half-open limit) and never reaches a backend",
		func(t *Trace) string {
			r, _, ok := c.findRel(t, "LoadBalancer.circuitBreaker", "", 0, -1)
			if !ok {
				if t.Has("handle") || t.Has("execute") {
					return "undecided: breaker presence is not tested"
				}
				return ""
			}
			configured := r.Neq || r.Lo != 0
			hi := t.Index("handle", 0)
			if !configured {
				return ""
			}
			ei := t.Index("execute", 0)
			if hi >= 0 && (ei < 0 || hi < ei) {
				return "breaker configured but the request bypasses Execute"
			}
			bi := -1
			for i, it := range t.Items {
				if strings.HasPrefix(it.Label, "ret:beforeRequest:") {
					bi = i
				}
			}
			if bi < 0 {
				return ""
			}
			lbl := t.Items[bi].Label
			if lbl == "ret:beforeRequest:nil" {
				return ""
			}
			if hi >= 0 || t.Has("proxy") {
				return "rejected request still reaches the backend path"
			}
			want := "status:503"
			if strings.Contains(lbl, "ErrTooManyRequests") {
				want = "status:429"
			}
			if !t.Has(want) {
				return "breaker rejection (" + strings.TrimPrefix(lbl, "ret:beforeRequest:") + ") not answered with " + want
			}
			return ""
		})

	// the status the breaker's closure judges is the final one the backend wrote (shared with C04/C13)
	c.statusCaptured()
	c.breakerSettingsFromConfig()

	// failures are reported: the function handed to Execute can return a non-nil error
	rule, construct := "failures-reported", "loadbalancer.(*LoadBalancer).ServeHTTP/Execute-argument"
	if serve == nil {
		c.Missing(rule, construct)
		return
	}
	var closure *ssa.Function
	var site ssa.Instruction
	for _, ci := range callsIn(serve) {
		if strings.HasSuffix(CalleeName(ci), "CircuitBreaker).Execute") {
			args := CallArgs(ci)
			if len(args) == 1 {
				if mc, ok := args[0].(*ssa.MakeClosure); ok {
					closure = mc.Fn.(*ssa.Function)
					site = ci
				} else if f, ok := args[0].(*ssa.Function); ok {
					closure = f
					site = ci
				}
			}
		}
	}
	if closure == nil {
		c.Missing(rule, construct)
		return
	}
	sp := &Spec{P: p,
		Event: func(in ssa.Instruction, fr *Frame) string {
			if ci, ok := in.(ssa.CallInstruction); ok && CalleeName(ci) == "(*net/http/httputil.ReverseProxy).ServeHTTP" {
				return "proxy"
			}
			return ""
		},
		Cond:   p.condMentions("statusCode"),
		Expand: expandAllHelios("metrics.", "TokenBucketRateLimiter"),
	}
	ts := sp.Walk(closure)
	c.Count("paths_enumerated", len(ts))
	nonNil := 0
	for _, t := range ts {
		if t.Exit == ExitNormal && t.Has("proxy") && len(t.Ret) == 1 && t.Ret[0].K != ANil {
			nonNil++
		}
	}
	// … and a success reported to the breaker is a backend that answered: the function returns nil only
	// on paths that proxied the request.  A half-open trial that was answered without any backend being
	// contacted ("no healthy backend") must not count towards success_threshold.
	unproxied := 0
	for _, t := range ts {
		if t.Exit == ExitNormal && !t.Has("proxy") && len(t.Ret) == 1 && t.Ret[0].K == ANil {
			unproxied++
		}
	}
	c.Check(unproxied == 0, "success-means-backend-answered", construct, p.InstrPos(site),
		"every path that reports success to the breaker has proxied the request",
		fmt.Sprintf("%d path(s) of the function handed to Execute return nil without having proxied the request (the 503 \"no healthy backend\" answer): in half-open state such a request spends a trial and counts as a trial success, so with every backend ejected the breaker closes after success_threshold requests that contacted no backend at all", unproxied))
	// … and a proxied request is reported as a success only when the captured status was found below
	// 500: a path that took the "status ≥ 500" edge and still returns nil (whatever further condition
	// excused it — the breaker has no neutral outcome, nil *is* a success) lets a failed trial close the
	// breaker
	failedAsSuccess, unjudged := 0, 0
	for _, t := range ts {
		if !(t.Exit == ExitNormal && t.Has("proxy") && len(t.Ret) == 1 && t.Ret[0].K == ANil) {
			continue
		}
		sawFailed, sawOK := false, false
		for _, it := range t.Items {
			if _, isIf := it.Instr.(*ssa.If); !isIf {
				continue
			}
			// what decides the value returned is tested before the return; the deferred accounting, which
			// looks at the status again, runs afterwards
			inDeferred := false
			for fr := it.Frame; fr != nil; fr = fr.Parent {
				if _, isDefer := fr.Site.(*ssa.Defer); isDefer {
					inDeferred = true
				}
			}
			if inDeferred {
				continue
			}
			r := c.condRel(it)
			if !r.OK || r.Pred != "" || r.Y != "" || !strings.Contains(r.X, "statusCode") {
				continue
			}
			if r.Lo >= 500 && r.Hi == posInf {
				sawFailed = true
			}
			if r.Lo == negInf && r.Hi <= 499 {
				sawOK = true
			}
		}
		if sawFailed {
			failedAsSuccess++
		} else if !sawOK {
			unjudged++
		}
	}
	c.Check(failedAsSuccess == 0 && unjudged == 0, "success-means-backend-answered", construct+"/proxied", p.InstrPos(site),
		"a proxied request is reported as a success only on the status < 500 edge",
		fmt.Sprintf("%d path(s) report a proxied request whose status was found ≥ 500 to the breaker as a success (nil), %d without having compared the status: the breaker has no neutral outcome, so a failed half-open trial excused for any reason (the client went away, a retry is pending) counts towards success_threshold and closes the breaker", failedAsSuccess, unjudged))
	c.Check(nonNil > 0, rule, construct, p.InstrPos(site),
		fmt.Sprintf("%d of %d paths through the proxied call return a possibly non-nil error to the breaker", nonNil, len(ts)),
		"every path of the function handed to Execute returns the constant nil after proxying: 5xx and unreachable backends are never counted as failures, so the breaker can only trip on panics",
		fmt.Sprintf("%d paths enumerated through %s, all returning nil", len(ts), p.FuncKey(closure)))
}

// ---- C08 ---------------------------------------------------------------------------------------

func checkC08(c *Ctx) {
	p := c.P
	k, ok := c.cbStateConsts()
	if !ok {
		c.Missing("breaker-constants", "circuitbreaker.State{Closed,Open,HalfOpen}")
		return
	}
	c.Clause("no lock is held across a state-change callback that re-enters the breaker; no lock-order cycle (shared with C03/C12)")
	c.Clause("the half-open trial budget cannot be exhausted below the success threshold: construction/validation relates maxRequests ≥ successThreshold, or a replenishing transition exists")
	c.Clause("every edge entering Open stores nextAttempt, and the Open branch of beforeRequest admits on nextAttempt<now")
	c.Clause("the Closed branch of beforeRequest only ever returns nil")
	c.Clause("every lock of the breaker is released on every exit of every method (also on early returns of a re-check under the write lock); every admitted trial reports an outcome, judged against the state current at the report")
	c.NotDecided("the time bound 'timeout plus a bounded number of successes'; reachability over bounded histories")

	c.Clause("each breaker setting is computed from the configuration field of the same meaning and from no other (success_threshold is not filled from failure_threshold)")
	lockOrder(c)
	c.breakerSettingsFromConfig()
	// no path of a breaker function returns with the breaker's lock still held (every later Execute,
	// State and Counts call would block for ever)
	lockPairing(c, func(fn *ssa.Function) bool {
		pk := fnPkg(fn)
		return pk != nil && strings.HasSuffix(pk.Pkg.Path(), "/circuitbreaker")
	})

	// (3),(4): the admission relation (closed never rejects, open+elapsed admits) — shared with C07
	exec := p.Fn("internal/circuitbreaker", "CircuitBreaker", "Execute")
	c.admissionRule(k, exec)
	c.traceRule("trial-always-reported", "circuitbreaker.(*CircuitBreaker).Execute", exec, c.cbSpec(true),
		"every admitted request reports its outcome to afterRequest exactly once, so a spent half-open trial always leads to a transition; a refused request reports nothing",
		func(t *Trace) string {
			n := 0
			for _, it := range t.Items {
				if strings.HasPrefix(it.Label, "afterRequest(") {
					n++
				}
			}
			if !t.Has("call-fn") {
				if n != 0 {
					return "a request that was refused reports an outcome: a refusal while a half-open trial is in flight re-opens the breaker and discards the trial, so overlapping traffic keeps it open for ever"
				}
				return ""
			}
			if n != 1 {
				return fmt.Sprintf("an admitted request reports its outcome %d times: an unreported half-open trial leaves the breaker half-open with its budget spent for ever", n)
			}
			return ""
		})
	c.reportSnapshotRule(exec)
	after := c.cbReportFn()
	c.traceRule("open-sets-next-attempt", "circuitbreaker.(*CircuitBreaker).afterRequest", after, c.cbSpec(true),
		"each transition to Open stores nextAttempt = now + timeout",
		func(t *Trace) string {
			for i, it := range t.Items {
				if it.Label == "store state := k:"+itoa(k.open) && t.Index("store nextAttempt := add(now,fld:"+cbT+"timeout)", i) < 0 {
					return "transition to Open without nextAttempt = now + timeout (breaker would never leave Open, or leave it at once)"
				}
			}
			return ""
		})
	c08Budget(c)
}

// c08Budget: no absorbing half-open state for accepted configurations.
func c08Budget(c *Ctx) {
	p := c.P
	rule := "halfopen-budget"
	construct := "circuitbreaker.NewCircuitBreaker/maxRequests-vs-successThreshold"
	// (b) a replenishing transition: a store to requestCount other than +1 / zero-on-entering-half-open,
	//     or a setState reachable when the budget is exhausted.
	replenish := false
	var pos string
	for _, fn := range p.Funcs {
		if fnPkg(fn) == nil || !strings.HasSuffix(fnPkg(fn).Pkg.Path(), "/circuitbreaker") {
			continue
		}
		if fn.Name() == "beforeRequest" {
			sp := c.cbSpec(false)
			sp.P = p
			for _, t := range sp.Walk(fn) {
				if r, ri, ok := c.findRel(t, cbT+"requestCount", cbT+"maxRequests", 0, -1); ok && r.Lo == 0 && r.Hi == posInf {
					for _, it := range t.Items[ri:] {
						if strings.HasPrefix(it.Label, "setState(") || it.Label == "store requestCount := k:0" {
							replenish = true
						}
					}
				}
			}
		}
	}
	// (a) a relation between the two settings where they are constructed or validated
	related := false
	for _, spec := range [][3]string{{"internal/circuitbreaker", "", "NewCircuitBreaker"}, {"internal/loadbalancer", "LoadBalancer", "setupCircuitBreaker"}, {"internal/config", "Config", "validateCircuitBreaker"}} {
		fn := p.Fn(spec[0], spec[1], spec[2])
		if fn == nil {
			continue
		}
		if pos == "" {
			pos = p.Pos(fn.Pos())
		}
		instrsOf(fn, func(in ssa.Instruction) {
			ifi, ok := in.(*ssa.If)
			if !ok {
				return
			}
			d := strings.ToLower(p.Desc(ifi.Cond, nil))
			if strings.Contains(d, "maxrequests") && strings.Contains(d, "successthreshold") {
				related = true
			}
		})
	}
	c.Check(related || replenish, rule, construct, pos,
		"maxRequests is related to successThreshold at construction/validation, or the trial budget is replenished",
		"nothing relates max_requests to success_threshold and no transition replenishes the half-open trial budget: a configuration with max_requests < success_threshold (including the default max_requests 0→1 with success_threshold ≥ 2) is accepted and leaves the breaker half-open forever after the first trip",
		"searched NewCircuitBreaker, setupCircuitBreaker, validateCircuitBreaker for a comparison of the two settings",
		"searched beforeRequest for a setState / requestCount reset on the requestCount ≥ maxRequests edge")
}

// cbScanT is what a path has established about the breaker state at some point.
type cbScanT struct {
	state    int64          // known state constant, -1 unknown
	not      map[int64]bool // states excluded in the current knowledge
	lock     string         // "", "lock:R", "lock:W" — innermost lock held
	secStart int            // index where the current critical section started
}

// cbScan replays state tests and stores up to index upto.  Knowledge obtained before a lock was
// released is kept (a snapshot), but is overridden by later tests.
func (c *Ctx) cbScan(t *Trace, upto int) cbScanT {
	sc := cbScanT{state: -1, not: map[int64]bool{}}
	for i := 0; i < upto && i < len(t.Items); i++ {
		it := t.Items[i]
		switch {
		case strings.HasPrefix(it.Label, "lock:"):
			sc.lock = it.Label
			sc.secStart = i
		case strings.HasPrefix(it.Label, "unlock:"):
			sc.lock = ""
		case strings.HasPrefix(it.Label, "store state := k:"):
			var v int64
			fmt.Sscanf(strings.TrimPrefix(it.Label, "store state := k:"), "%d", &v)
			sc.state = v
			sc.not = map[int64]bool{}
		case strings.HasPrefix(it.Label, "store state := "):
			sc.state = -1
			sc.not = map[int64]bool{}
		}
		if _, isIf := it.Instr.(*ssa.If); isIf {
			if o, ok := c.condRel(it).Orient(cbT+"state", ""); ok && o.Y == "" && o.Pred == "" && o.Lo == o.Hi {
				if o.Neq {
					if sc.state == o.Lo {
						sc.state = -1
					}
					sc.not[o.Lo] = true
				} else {
					sc.state = o.Lo
					sc.not = map[int64]bool{}
				}
			}
		}
	}
	return sc
}

// admissionRule checks beforeRequest against the admission relation of the property, judged on the
// state the path last established (the authoritative test under the write lock when there is one).
func (c *Ctx) admissionRule(k cbConsts, exec *ssa.Function) {
	sp := c.cbSpec(true)
	c.traceRule("admission-relation", "circuitbreaker.(*CircuitBreaker).Execute/admission", exec, sp,
		"closed admits; open rejects until nextAttempt<now, then moves to half-open under the write lock with counters zeroed; half-open admits iff requestCount < maxRequests; the error names the state",
		func(full *Trace) string {
			// the admission part of the path: everything before fn is called (admitted), or the whole
			// path of a refusal; what happens after fn returned is judged by the other rules
			t := full
			if fi := full.Index("call-fn", 0); fi >= 0 {
				t = &Trace{Items: full.Items[:fi], Exit: ExitNormal, Ret: []AbsVal{{K: ANil}}}
			} else if full.Exit != ExitNormal {
				return ""
			}
			if len(t.Ret) != 1 || t.Ret[0].K == AUnknown || (t.Ret[0].K == ANonNil && t.Ret[0].G == nil) {
				return "undecided: beforeRequest returns an error value that is neither nil nor a package error"
			}
			admitted := t.Ret[0].K == ANil
			errName := ""
			if t.Ret[0].G != nil {
				errName = t.Ret[0].G.Name()
			}
			sc := c.cbScan(t, len(t.Items))
			closedLike := sc.state == k.closed || (sc.state == -1 && sc.not[k.open] && sc.not[k.half])
			// last nextAttempt-vs-now test and last budget test
			var na, budget Rel
			naAt, budgetAt := -1, -1
			for i, it := range t.Items {
				if _, isIf := it.Instr.(*ssa.If); !isIf {
					continue
				}
				r := c.condRel(it)
				if o, ok := r.Orient(cbT+"nextAttempt", "now"); ok {
					na, naAt = o, i
				}
				if o, ok := r.Orient(cbT+"requestCount", cbT+"maxRequests"); ok {
					budget, budgetAt = o, i
				}
			}
			if naAt >= 0 && !(na.Lo == negInf && na.Hi == -1) && !(na.Lo == 0 && na.Hi == posInf) {
				return "retry test is not nextAttempt < now: " + na.String()
			}
			if budgetAt >= 0 && !(budget.Lo == 0 && budget.Hi == posInf) && !(budget.Lo == negInf && budget.Hi == -1) {
				return "half-open limit is not requestCount ≥ maxRequests: " + budget.String()
			}
			// transitions performed on this path
			for i, it := range t.Items {
				if !strings.HasPrefix(it.Label, "store state := ") {
					continue
				}
				if it.Label != "store state := k:"+itoa(k.half) {
					return "beforeRequest moves the breaker to a state other than half-open: " + it.Label
				}
				pre := c.cbScan(t, i)
				if pre.lock != "lock:W" {
					return "open→half-open transition outside the write lock"
				}
				if pre.state != k.open {
					return "transition to half-open from a state that is not (re-checked to be) Open under the write lock"
				}
				chk := false
				for j := pre.secStart; j < i; j++ {
					if o, ok := c.condRel(t.Items[j]).Orient(cbT+"nextAttempt", "now"); ok && o.Lo == negInf && o.Hi == -1 {
						if live, why := c.loadedUnder(t.Items[j], cbT+"nextAttempt", cbT+"mutex", 'W'); !live {
							return "open→half-open re-check uses a stale nextAttempt: " + why
						}
						chk = true
					}
					if o, ok := c.condRel(t.Items[j]).Orient(cbT+"state", ""); ok && o.Y == "" && !o.Neq && o.Lo == k.open && o.Hi == k.open {
						if live, why := c.loadedUnder(t.Items[j], cbT+"state", cbT+"mutex", 'W'); !live {
							return "open→half-open re-check uses a stale state: " + why
						}
					}
				}
				if !chk {
					return "open→half-open transition does not re-check nextAttempt < now under the write lock"
				}
				z1, z2 := false, false
				for j := i + 1; j < len(t.Items) && !strings.HasPrefix(t.Items[j].Label, "unlock:"); j++ {
					z1 = z1 || t.Items[j].Label == "store requestCount := k:0"
					z2 = z2 || t.Items[j].Label == "store successCount := k:0"
				}
				if !z1 || !z2 {
					return "entering half-open does not zero requestCount and successCount in the same critical section"
				}
			}
			// an authoritative 'open and elapsed' must lead to the transition
			for i, it := range t.Items {
				if o, ok := c.condRel(it).Orient(cbT+"nextAttempt", "now"); ok && o.Hi == -1 {
					pre := c.cbScan(t, i)
					if pre.lock == "lock:W" && pre.state == k.open && t.Index("store state := k:"+itoa(k.half), i) < 0 {
						return "breaker found open with the timeout elapsed under the write lock but not moved to half-open"
					}
				}
			}
			switch {
			case admitted && sc.state == k.open:
				return "request admitted while the breaker is open"
			case admitted && sc.state == k.half:
				if budgetAt < 0 || budget.Hi != -1 {
					return "half-open breaker admits without requestCount < maxRequests"
				}
			case admitted && closedLike:
				// closed admits; only the failure-window reset may be stored
				for i, it := range t.Items {
					if it.Label == "store failureCount := k:0" {
						var r Rel
						ok := false
						for j := 0; j < i; j++ {
							if r2, _, ok2 := c.findRel(t, "add(fld:"+cbT+"lastFailureTime,fld:"+cbT+"interval)", "now", j, j+1); ok2 {
								r, ok = r2, true
							}
						}
						if !ok || !(r.Lo == negInf && r.Hi == -1) {
							return "failure window reset not guarded by lastFailure + interval < now: " + r.String()
						}
						if c.cbScan(t, i).lock != "lock:W" {
							return "failure window reset outside the write lock"
						}
						for j := i - 1; j >= 0 && !strings.HasPrefix(t.Items[j].Label, "lock:"); j-- {
							if _, _, ok2 := c.findRel(t, "add(fld:"+cbT+"lastFailureTime,fld:"+cbT+"interval)", "now", j, j+1); ok2 {
								if live, why := c.loadedUnder(t.Items[j], cbT+"lastFailureTime", cbT+"mutex", 'W'); !live {
									return "failure window reset re-checks a stale lastFailureTime: " + why
								}
							}
						}
					} else if strings.HasPrefix(it.Label, "store ") {
						return "closed admission modifies " + it.Label
					}
				}
			case admitted:
				return "undecided: request admitted in a breaker state the path did not establish"
			case errName == "ErrTooManyRequests":
				if sc.state != k.half {
					return "ErrTooManyRequests returned outside half-open"
				}
				if budgetAt < 0 || budget.Lo != 0 {
					return "half-open breaker rejects below maxRequests"
				}
			case errName == "ErrCircuitBreakerOpen":
				if sc.state == k.closed {
					return "closed breaker rejects a request"
				}
				if sc.state == k.half {
					return "half-open breaker rejects with the open error"
				}
				if sc.state == k.open && naAt >= 0 && na.Hi == -1 {
					// elapsed according to the last test: only legitimate if that test was a stale snapshot
					// (a later write-locked section re-established Open without the timeout having elapsed)
					last := c.cbScan(t, len(t.Items))
					if !(last.secStart > naAt) {
						return "open breaker still rejects after the timeout elapsed"
					}
				}
			default:
				return "undecided: rejection with an unexpected error " + errName
			}
			return ""
		})
}

// breakerSettingsFromConfig: the thresholds the properties speak of are the *configured* ones.  Every
// field of circuitbreaker.Settings that Helios fills from the configuration must be computed from the
// configuration field of the same meaning and from no other: success_threshold filled from
// failure_threshold (a slip in a rewritten struct literal) passes every test that uses equal values and
// makes an accepted configuration (failure 5, success 1, max_requests 1) refuse traffic for ever.
func (c *Ctx) breakerSettingsFromConfig() {
	p := c.P
	want := map[string]string{
		"MaxRequests":      "MaxRequests",
		"FailureThreshold": "FailureThreshold",
		"SuccessThreshold": "SuccessThreshold",
		"Interval":         "IntervalSeconds",
		"Timeout":          "TimeoutSeconds",
	}
	origins := func(v ssa.Value, seen map[ssa.Value]bool, out map[string]bool, d int) {
		configOrigins(v, "config.CircuitBreakerConfig", seen, out, d)
	}
	got := map[string][]string{} // settings field → problems
	seenField := map[string]bool{}
	pos := map[string]string{}
	for _, fn := range p.Funcs {
		if !p.InScope(fn) {
			continue
		}
		instrsOf(fn, func(in ssa.Instruction) {
			st, ok := in.(*ssa.Store)
			if !ok {
				return
			}
			fa, ok := st.Addr.(*ssa.FieldAddr)
			if !ok {
				return
			}
			fr, ok := fieldRefOf(fa)
			if !ok || fr.Struct == nil || QualType(fr.Struct) != "circuitbreaker.Settings" {
				return
			}
			exp, tracked := want[fr.Name]
			if !tracked {
				return
			}
			// a setting overwritten with a value computed from *another* setting (success threshold
			// clamped to the half-open budget, say) is no longer the configured one either
			fromS := map[string]bool{}
			configOrigins(st.Val, "circuitbreaker.Settings", map[ssa.Value]bool{}, fromS, 0)
			for g := range fromS {
				if g != fr.Name {
					if pos[fr.Name] == "" {
						pos[fr.Name] = p.InstrPos(st)
					}
					got[fr.Name] = append(got[fr.Name], fmt.Sprintf("%s: Settings.%s is overwritten with a value computed from Settings.%s in %s: the breaker runs with another setting's value, not the configured %s", p.InstrPos(st), fr.Name, g, p.FuncKey(fn), exp))
				}
			}
			from := map[string]bool{}
			origins(st.Val, map[ssa.Value]bool{}, from, 0)
			if len(from) == 0 {
				return // a constant default
			}
			if pos[fr.Name] == "" {
				pos[fr.Name] = p.InstrPos(st)
			}
			for f := range from {
				if f == exp {
					seenField[fr.Name] = true
				} else {
					got[fr.Name] = append(got[fr.Name], fmt.Sprintf("%s: Settings.%s is computed from the configuration's %s (expected %s) in %s", p.InstrPos(st), fr.Name, f, exp, p.FuncKey(fn)))
				}
			}
		})
	}
	var names []string
	for k := range want {
		names = append(names, k)
	}
	sort.Strings(names)
	n := 0
	for _, f := range names {
		construct := "circuitbreaker.Settings." + f
		switch {
		case len(got[f]) > 0:
			c.Fail("breaker-settings-from-config", construct, pos[f], got[f][0], got[f]...)
			n++
		case seenField[f]:
			c.Pass("breaker-settings-from-config", construct, pos[f], "filled from CircuitBreakerConfig."+want[f]+" and from no other configuration field")
			n++
		default:
			c.Fail("breaker-settings-from-config", construct, "-", "no store fills Settings."+f+" from CircuitBreakerConfig."+want[f]+": the configured value is parsed and validated but not what the breaker runs with")
			n++
		}
	}
	c.Floor("breaker-settings-from-config", n, 5, "breaker settings")
}

// configOrigins collects the fields of the configuration struct `cfgStruct` that a value is computed
// from (through conversions, arithmetic, φs, local cells and the arguments of helper calls).
func configOrigins(v ssa.Value, cfgStruct string, seen map[ssa.Value]bool, out map[string]bool, d int) {
	if v == nil || seen[v] || d > 14 {
		return
	}
	seen[v] = true
	switch x := v.(type) {
	case *ssa.UnOp:
		if fa, ok := x.X.(*ssa.FieldAddr); ok {
			if fr, ok := fieldRefOf(fa); ok && fr.Struct != nil && QualType(fr.Struct) == cfgStruct {
				out[fr.Name] = true
				return
			}
		}
		if a, ok := x.X.(*ssa.Alloc); ok && a.Referrers() != nil {
			for _, r := range *a.Referrers() {
				if st, ok := r.(*ssa.Store); ok && st.Addr == ssa.Value(a) {
					configOrigins(st.Val, cfgStruct, seen, out, d+1)
				}
			}
		}
		configOrigins(x.X, cfgStruct, seen, out, d+1)
	case *ssa.Field:
		if fr, ok := fieldRefOf(x); ok && fr.Struct != nil && QualType(fr.Struct) == cfgStruct {
			out[fr.Name] = true
			return
		}
	case *ssa.Convert:
		configOrigins(x.X, cfgStruct, seen, out, d+1)
	case *ssa.ChangeType:
		configOrigins(x.X, cfgStruct, seen, out, d+1)
	case *ssa.BinOp:
		configOrigins(x.X, cfgStruct, seen, out, d+1)
		configOrigins(x.Y, cfgStruct, seen, out, d+1)
	case *ssa.Phi:
		for _, e := range x.Edges {
			configOrigins(e, cfgStruct, seen, out, d+1)
		}
	case *ssa.Extract:
		// a result of a Helios helper that is handed the configuration section whole
		// (`max, refill := rateLimiterParams(cfg.RateLimit)`): what the helper returns in that position
		if call, ok := x.Tuple.(*ssa.Call); ok {
			if g := call.Call.StaticCallee(); g != nil && g.Blocks != nil && g.Pkg != nil && strings.Contains(g.Pkg.Pkg.Path(), "0xReLogic/Helios") {
				for _, b := range g.Blocks {
					for _, in := range b.Instrs {
						if r, isRet := in.(*ssa.Return); isRet && x.Index < len(r.Results) {
							configOrigins(r.Results[x.Index], cfgStruct, seen, out, d+1)
						}
					}
				}
			}
		}
		configOrigins(x.Tuple, cfgStruct, seen, out, d+1)
	case *ssa.Call:
		if g := x.Call.StaticCallee(); g != nil && g.Blocks != nil && g.Pkg != nil && strings.Contains(g.Pkg.Pkg.Path(), "0xReLogic/Helios") && g.Signature.Results().Len() == 1 {
			for _, b := range g.Blocks {
				for _, in := range b.Instrs {
					if r, isRet := in.(*ssa.Return); isRet && len(r.Results) == 1 {
						configOrigins(r.Results[0], cfgStruct, seen, out, d+1)
					}
				}
			}
		}
		for _, a := range x.Call.Args {
			configOrigins(a, cfgStruct, seen, out, d+1)
		}
	}
}
