package main

import (
	"fmt"
	"sort"
	"strings"

	"golang.org/x/tools/go/ssa"
)

type acqInfo struct {
	Class string
	Mode  byte
	Chain []string // call chain (function @ pos) leading to the acquisition
}

// lockOrder: ORDER engine — while holding A, a call chain acquires B.  Reports self-deadlocks
// (A→A with a write involved), cycles between distinct classes, and locks held across handler calls.
func lockOrder(c *Ctx, only ...string) {
	relevant := func(a, b string) bool {
		if len(only) == 0 {
			return true
		}
		for _, o := range only {
			if strings.Contains(a, o) || strings.Contains(b, o) {
				return true
			}
		}
		return false
	}
	p := c.P
	li := p.Locks()
	memo := map[*ssa.Function][]acqInfo{}
	active := map[*ssa.Function]bool{}
	var acquires func(fn *ssa.Function, depth int) []acqInfo
	acquires = func(fn *ssa.Function, depth int) []acqInfo {
		if r, ok := memo[fn]; ok {
			return r
		}
		if active[fn] || depth > 8 || !p.IsHelios(fn) || fn.Blocks == nil {
			return nil
		}
		active[fn] = true
		defer func() { active[fn] = false }()
		var out []acqInfo
		seen := map[string]bool{}
		for _, ci := range callsIn(fn) {
			if _, isGo := ci.(*ssa.Go); isGo {
				continue
			}
			here := fmt.Sprintf("%s (%s)", p.FuncKey(fn), p.InstrPos(ci))
			if op, ok := asLockOp(ci); ok {
				if op.Acquire {
					k := op.Class + string(op.Mode)
					if !seen[k] {
						seen[k] = true
						out = append(out, acqInfo{Class: op.Class, Mode: op.Mode, Chain: []string{here + ": " + CalleeName(ci)}})
					}
				}
				continue
			}
			for _, cal := range p.Callees(ci) {
				for _, a := range acquires(cal, depth+1) {
					k := a.Class + string(a.Mode)
					if !seen[k] {
						seen[k] = true
						out = append(out, acqInfo{Class: a.Class, Mode: a.Mode, Chain: append([]string{here + ": calls " + p.FuncKey(cal)}, a.Chain...)})
					}
				}
			}
		}
		memo[fn] = out
		return out
	}
	type edge struct {
		from, to    string
		fromM, toM  byte
		witness     []string
		pos, fnKey  string
		viaCallback bool
	}
	var edges []edge
	nSites := 0
	for _, fn := range p.Funcs {
		if !p.InScope(fn) {
			continue
		}
		fl := li.Fns[fn]
		for _, ci := range callsIn(fn) {
			var call ssa.CallInstruction
			var held LockSet
			switch x := ci.(type) {
			case *ssa.Call:
				call, held = x, fl.May[x]
			case *ssa.Defer:
				if _, isLock := asLockOp(x); isLock {
					continue
				}
				call, held = x, fl.RunMay[x] // the locks still held when the deferred call runs (LIFO)
			default:
				continue
			}
			if len(held) == 0 {
				continue
			}
			nSites++
			name := CalleeName(call)
			if strings.HasSuffix(name, ").ServeHTTP") {
				for _, h := range held {
					c.Fail("lock-across-handler", p.FuncKey(fn)+"/"+h.Class, p.InstrPos(call), "lock "+h.Class+" held across a call into "+name+" (blocks every other user of the lock for the duration of the exchange)")
				}
			}
			if isClientWrite(call) {
				// a write to the client blocks for as long as the client does not read: a stalled scraper
				// then blocks every writer of the lock — a probe or request that has to publish its
				// result never finishes, and Stop, which joins them, never returns
				for _, h := range held {
					if relevant(h.Class, h.Class) {
						c.Fail("lock-across-handler", p.FuncKey(fn)+"/"+h.Class+"/client-write", p.InstrPos(call), "lock "+h.Class+" is held while the response is written to the client ("+name+"): a client that stops reading keeps the lock held; everything that needs it in write mode (publishing a probe result, recording a request) blocks behind it, and a shutdown that joins those goroutines hangs")
					}
				}
			}
			var acq []acqInfo
			if op, ok := asLockOp(call); ok {
				if op.Acquire {
					acq = []acqInfo{{Class: op.Class, Mode: op.Mode, Chain: []string{fmt.Sprintf("%s (%s): %s", p.FuncKey(fn), p.InstrPos(call), name)}}}
				}
			} else {
				for _, cal := range p.Callees(call) {
					for _, a := range acquires(cal, 1) {
						acq = append(acq, acqInfo{Class: a.Class, Mode: a.Mode, Chain: append([]string{fmt.Sprintf("%s (%s): calls %s", p.FuncKey(fn), p.InstrPos(call), p.FuncKey(cal))}, a.Chain...)})
					}
				}
			}
			for _, h := range held {
				if fl.Entry.HoldsClass(h.Class) != 0 {
					continue // inherited from the caller: reported at the function that took the lock
				}
				for _, a := range acq {
					edges = append(edges, edge{from: h.Class, to: a.Class, fromM: h.Mode, toM: a.Mode, witness: a.Chain, pos: p.InstrPos(call), fnKey: p.FuncKey(fn), viaCallback: strings.HasPrefix(name, "dyn:")})
				}
			}
		}
	}
	c.Count("call_sites_under_lock", nSites)
	c.Count("lock_order_edges", len(edges))
	// self loops
	graph := map[string]map[string]edge{}
	selfSeen := map[string]bool{}
	for _, e := range edges {
		if !relevant(e.from, e.to) {
			continue
		}
		if e.from == e.to {
			key := e.fnKey + "/" + e.from
			if selfSeen[key] {
				continue
			}
			selfSeen[key] = true
			w := append([]string{fmt.Sprintf("holding %s(%c) in %s", e.from, e.fromM, e.fnKey)}, e.witness...)
			detail := fmt.Sprintf("%s is re-acquired (%c) while already held (%c) on the same goroutine: sync mutexes are not reentrant, the goroutine blocks forever and every later user of the lock with it", e.from, e.toM, e.fromM)
			if e.fromM == 'R' && e.toM == 'R' {
				detail = fmt.Sprintf("%s is read-locked again while already read-locked by the same goroutine: a writer arriving between the two RLock calls blocks the second one and is itself blocked by the first (recursive read locking dead-locks)", e.from)
			}
			c.Fail("lock-reentry", key, e.pos, detail, w...)
			continue
		}
		if graph[e.from] == nil {
			graph[e.from] = map[string]edge{}
		}
		if _, ok := graph[e.from][e.to]; !ok {
			graph[e.from][e.to] = e
		}
	}
	// cycles between distinct classes (DFS)
	var nodes []string
	for n := range graph {
		nodes = append(nodes, n)
	}
	sort.Strings(nodes)
	color := map[string]int{}
	var stack []string
	reported := map[string]bool{}
	var dfs func(n string)
	dfs = func(n string) {
		color[n] = 1
		stack = append(stack, n)
		var succ []string
		for s := range graph[n] {
			succ = append(succ, s)
		}
		sort.Strings(succ)
		for _, s := range succ {
			if color[s] == 1 {
				// cycle: from s … n → s
				i := len(stack) - 1
				for i >= 0 && stack[i] != s {
					i--
				}
				cyc := append(append([]string(nil), stack[i:]...), s)
				key := strings.Join(cyc, "→")
				if !reported[key] {
					reported[key] = true
					var w []string
					for j := 0; j+1 < len(cyc); j++ {
						e := graph[cyc[j]][cyc[j+1]]
						w = append(w, fmt.Sprintf("%s → %s in %s:", cyc[j], cyc[j+1], e.fnKey))
						w = append(w, e.witness...)
					}
					c.Fail("lock-order-cycle", key, graph[cyc[0]][cyc[1]].pos, "lock classes are acquired in a cyclic order: "+key, w...)
				}
			} else if color[s] == 0 {
				dfs(s)
			}
		}
		stack = stack[:len(stack)-1]
		color[n] = 2
	}
	for _, n := range nodes {
		if color[n] == 0 {
			dfs(n)
		}
	}
	nEdges := 0
	for _, m := range graph {
		nEdges += len(m)
	}
	var order []string
	for _, n := range nodes {
		var succ []string
		for s := range graph[n] {
			succ = append(succ, s)
		}
		sort.Strings(succ)
		order = append(order, n+" → {"+strings.Join(succ, ", ")+"}")
	}
	if len(reported) == 0 {
		c.Pass("lock-order-cycle", "all-lock-classes", "-", fmt.Sprintf("lock-order graph over %d classes / %d distinct edges is acyclic", len(nodes), nEdges), order...)
	}
	if len(selfSeen) == 0 {
		c.Pass("lock-reentry", "all-lock-classes", "-", "no lock class is re-acquired while held (callbacks resolved through the VTA call graph)")
	}
	floor := 4
	if len(only) > 0 {
		floor = 1
	}
	c.Floor("lock-order-cycle", nEdges, floor, "lock-order edges")
}

// isClientWrite: the call writes response bytes to an http.ResponseWriter (directly, or through an
// encoder / fmt / io helper handed the writer).
func isClientWrite(call ssa.CallInstruction) bool {
	isRW := func(v ssa.Value) bool {
		for i := 0; i < 4; i++ {
			switch x := v.(type) {
			case *ssa.ChangeInterface:
				v = x.X
				continue
			case *ssa.MakeInterface:
				v = x.X
				continue
			}
			break
		}
		return v.Type().String() == "net/http.ResponseWriter"
	}
	cc := call.Common()
	if cc.IsInvoke() {
		return cc.Method.Name() == "Write" && cc.Value.Type().String() == "net/http.ResponseWriter"
	}
	switch CalleeName(call) {
	case "net/http.Error", "fmt.Fprintf", "fmt.Fprint", "fmt.Fprintln", "io.WriteString", "io.Copy":
		return len(cc.Args) > 0 && isRW(cc.Args[0])
	case "(*encoding/json.Encoder).Encode":
		if len(cc.Args) > 0 {
			if mk, ok := cc.Args[0].(*ssa.Call); ok && CalleeName(mk) == "encoding/json.NewEncoder" && len(mk.Call.Args) == 1 {
				return isRW(mk.Call.Args[0])
			}
		}
	}
	return false
}
