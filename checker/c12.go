package main

func init() {
	registry["C12"] = func(c *Ctx) {
		lockDiscipline(c, nil)
		lockPairing(c, nil)
	}
}
