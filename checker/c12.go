package main

func init() {
	registry["C12"] = func(c *Ctx) {
		c.Clause("every access to a field in the lock table happens with its lock class held (write mode for stores), on the same instance where comparable; thread-local objects (fresh allocations, pool copies, constructor phase) are exempt by computed provenance")
		c.Clause("fields in the atomic table are touched only through sync/atomic; fields in the immutable table are stored only before publication")
		c.Clause("no lock is re-acquired while held (callbacks resolved through the VTA call graph); the lock-order graph is acyclic; no lock is held across a handler call")
		c.Clause("every lock is released on every exit; no may-panic call between a non-deferred Lock and its Unlock")
		c.Clause("WaitGroup.Add for probe goroutines is joinable by Stop")
		c.Clause("an object put back into a sync.Pool is not used afterwards on any path (deferred calls in the order they run)")
		c.Clause("snapshots handed to readers (metrics, listings) are copies that share no mutable storage with the guarded original; no lock is held across a write to a client connection (a stalled client would block every writer of that lock)")
		c.Clause("a field of the loaded configuration that is stored at run time (the strategy name) is read only under the writer's lock or by start-up code that main runs before any goroutine that can reach the writer exists")
		c.Clause("every field operated on with sync/atomic's 64-bit functions lies at an 8-byte aligned offset of its allocation under the 386/arm layout (otherwise the operation panics on 32-bit platforms)")
		c.NotDecided("races through aliases the field-based analysis cannot see; races inside third-party code; deadlocks that need a specific blocking I/O pattern — this is a lint-grade race analysis, not a proof of race freedom")
		lockDiscipline(c, nil)
		lockPairing(c, nil)
		lockOrder(c)
		c.waitGroupJoinable()
		c.snapshotNoEscape()
		c.poolReleasedLast()
		c.configStableAfterStart()
		c.claimedFlagReleased()
		c.Floor("atomic64-aligned", atomic64Aligned(c, nil), 5, "fields operated on with 64-bit atomics")
	}
}
