package main

import (
	"fmt"
	"go/token"
	"go/types"
	"sort"
	"strings"

	"golang.org/x/tools/go/ssa"
)

func init() {
	registry["C16"] = checkC16
	registry["C17"] = checkC17
}

func (c *Ctx) idSpec() *Spec {
	p := c.P
	return &Spec{
		Event: func(in ssa.Instruction, fr *Frame) string {
			if mu, isMU := in.(*ssa.MapUpdate); isMU {
				// h[key] = values, written directly into a header map
				if QualType(namedOf(mu.Map.Type())) != "http.Header" {
					return ""
				}
				side := "?"
				d := p.Desc(mu.Map, fr)
				switch {
				case strings.Contains(d, "http.Request.Header"):
					side = "req"
				case strings.Contains(d, "ResponseWriter).Header("):
					side = "resp"
				}
				// `[]string{v}`: a fresh array of one element sliced in full owns its storage; any other
				// slice may share spare capacity with a neighbour, which a later Header.Add writes into
				if elem := singleFreshElement(mu.Value); elem != nil {
					return side + ".Set(" + p.Desc(mu.Key, fr) + ")=" + p.Desc(elem, fr)
				}
				return side + ".Alias(" + p.Desc(mu.Key, fr) + ")=" + p.Desc(mu.Value, fr)
			}
			ci, ok := in.(ssa.CallInstruction)
			if !ok {
				return ""
			}
			n := CalleeName(ci)
			args := ci.Common().Args
			switch n {
			case "(net/http.Header).Set", "(net/http.Header).Add", "(net/http.Header).Del":
				side := "?"
				d := p.Desc(args[0], fr)
				switch {
				case strings.Contains(d, "http.Request.Header"):
					side = "req"
				case strings.Contains(d, "ResponseWriter).Header("):
					side = "resp"
				}
				v := ""
				if len(args) > 2 {
					v = p.Desc(args[2], fr)
				}
				return side + "." + strings.TrimPrefix(n, "(net/http.Header).") + "(" + p.Desc(args[1], fr) + ")=" + v
			case "(net/http.Handler).ServeHTTP":
				return "next"
			}
			return ""
		},
		Cond: p.condMentions("Enabled", "strings.TrimSpace(", "Header).Values(", "Header).Get("),
		Expand: func(callee *ssa.Function, site ssa.CallInstruction) bool {
			pk := fnPkg(callee)
			if pk == nil || !strings.HasSuffix(pk.Pkg.Path(), "/internal/logging") {
				return false
			}
			if callee == c.idGenerator() {
				return false
			}
			switch callee.Name() {
			case "generateIdentifier", "RequestHeaderName", "TraceHeaderName", "L", "WithContext", "enrichLogger", "contextWithLogger":
				return false
			}
			return true // the per-identifier handlers and whatever helper they share
		},
	}
}

func checkC16(c *Ctx) {
	p := c.P

	c.Clause("feature disabled ⇒ the function returns before touching any header")
	c.Clause("enabled ⇒ the response header is set exactly once, under the configured name, before the chain runs")
	c.Clause("generated path: request and response receive the same generated value; supplied path: the request is left untouched (Header.Set would cut a header sent on several lines down to its first) and the value echoed is the value it carries")
	c.Clause("the header name is RequestHeaderName/TraceHeaderName(cfg) on both sides")
	c.Clause("generated identifiers derive from crypto/rand.Read over a buffer of ≥ 12 bytes")
	c.Clause("buildHandler applies RequestContextMiddleware outermost on every non-error path")
	c.Clause("the ID headers set before the chain survive an interim (1xx) response, after which httputil empties the header map: the writer given to the reverse proxy restores a snapshot of the pre-set headers")
	c.Clause("no other Helios code deletes or overwrites the ID headers on a response (header deletions under computed keys, wholesale map replacement)")
	c.Clause("RequestHeaderName / TraceHeaderName yield the configured name whenever one is configured: only emptiness sends them to the default")
	c.NotDecided("a second value added by inner layers (backend echo through httputil's additive header copy, the request-id plugin); statistical uniqueness")

	// The rules are stated end to end on the middleware's handler, with the logging package's own
	// helpers inlined: whether the two identifiers are handled by two functions, one shared helper or
	// inline code makes no difference.
	c.presetHeadersSurviveInterim()
	c.configuredNameHonoured()
	rcm := p.Fn("internal/logging", "", "RequestContextMiddleware")
	var inner *ssa.Function
	if rcm != nil {
		for _, cl := range Closures(rcm) {
			if cl.Signature.Params().Len() == 2 {
				inner = cl
			}
		}
	}
	genName := "generateIdentifier"
	if g := c.idGenerator(); g != nil {
		genName = g.Name()
	}
	const nameFn = "call:github.com/0xReLogic/Helios/internal/logging."
	isHdr := func(it Item) bool {
		return strings.HasPrefix(it.Label, "req.") || strings.HasPrefix(it.Label, "resp.") || strings.HasPrefix(it.Label, "?.")
	}
	keyOf := func(it Item) string { // the header-name descriptor of a header item
		l := it.Label[strings.Index(it.Label, "(")+1:]
		if i := strings.LastIndex(l, ")="); i >= 0 {
			l = l[:i]
		}
		// the canonical spelling of the configured name is the configured name
		if strings.HasPrefix(l, "call:net/http.CanonicalHeaderKey(") && strings.HasSuffix(l, ")") {
			l = strings.TrimSuffix(strings.TrimPrefix(l, "call:net/http.CanonicalHeaderKey("), ")")
		}
		return l
	}
	for _, spec := range [][3]string{{"request-id", "config.RequestIDConfig.Enabled", "RequestHeaderName("}, {"trace-id", "config.TraceConfig.Enabled", "TraceHeaderName("}} {
		spec := spec
		mine := func(it Item) bool { return isHdr(it) && strings.HasPrefix(keyOf(it), nameFn+spec[2]) }
		c.traceRule("id-propagation", "logging.RequestContextMiddleware/"+spec[0], inner, c.idSpec(),
			"disabled: no header touched; enabled: one response Set under the configured name; the value echoed is the value the request carries to the backend (generated or supplied)",
			func(t *Trace) string {
				en, _, ok := c.findRel(t, spec[1], "", 0, -1)
				if !ok {
					return "the enable flag is not tested"
				}
				var hdr []Item
				for _, it := range t.Items {
					if mine(it) {
						hdr = append(hdr, it)
					}
				}
				if en.Lo == 0 {
					if len(hdr) != 0 {
						return "feature disabled but a header is modified: " + hdr[0].Label
					}
					return ""
				}
				var resp, req []Item
				for _, it := range hdr {
					if strings.HasPrefix(it.Label, "resp.") {
						resp = append(resp, it)
					} else {
						req = append(req, it)
					}
				}
				for _, it := range resp {
					if strings.HasPrefix(it.Label, "resp.Alias(") {
						return "the slice stored into the response header map is not a fresh one-element slice (" + firstN(strings.TrimPrefix(it.Label, "resp.Alias("), 120) + "): it can share spare capacity with another header's values, so a value the backend adds to one identifier header overwrites the other"
					}
				}
				if len(resp) != 1 || !strings.HasPrefix(resp[0].Label, "resp.Set(") {
					return fmt.Sprintf("enabled but the response header is not set exactly once under the configured name (%d response header operations)", len(resp))
				}
				rv := resp[0].Label[strings.LastIndex(resp[0].Label, ")=")+2:]
				key := keyOf(resp[0])
				var sup Rel
				okS := false
				for _, it := range t.Items {
					if _, isIf := it.Instr.(*ssa.If); !isIf {
						continue
					}
					r := c.condRel(it)
					if r.OK && strings.Contains(r.X, "strings.TrimSpace(") && strings.Contains(r.X, "(net/http.Header).Get(fld:http.Request.Header,"+key+")") {
						sup, okS = r, true
						break
					}
				}
				if !okS {
					return "undecided: the identifier supplied under the configured request header is not tested for emptiness (after trimming)"
				}
				supplied := sup.Neq || sup.Lo != 0
				sameValue := func() bool {
					a, b := headerValueOf(req[0].Instr), headerValueOf(resp[0].Instr)
					if a != nil && a == b {
						return true
					}
					if phi, ok := b.(*ssa.Phi); ok {
						for _, e := range phi.Edges {
							if e == a {
								return true
							}
						}
					}
					return false
				}
				if supplied {
					// "the value the backend sees equals the value the client gets": either the request is
					// left alone and the very value it carries is echoed, or the value that is echoed is
					// also placed on the request
					switch {
					case len(req) == 0:
						if strings.Contains(rv, "strings.TrimSpace(") {
							return "a client-supplied identifier is echoed trimmed while the request keeps it as sent: for a value wrapped in blanks the header parser does not strip (U+00A0, U+2003, U+0085 …) the backend sees one value and the client gets another"
						}
					case len(req) == 1 && strings.HasPrefix(req[0].Label, "req.Set("):
						if !sameValue() {
							return "client-supplied identifier: the value placed on the request is not the value echoed to the client: " + req[0].Label
						}
						// Header.Get yields the first line only and Header.Set replaces them all: a header the
						// client sent on several lines reaches the backend cut down to the first
						return "a client-supplied identifier is written back onto the request with Header.Set: Get returned its first line only, so every further line the client sent under that name is dropped before the backend sees the request (the supplied value is passed on unchanged only if the request is left alone)"
					default:
						return "client-supplied identifier is altered on the request: " + req[0].Label
					}
				} else {
					if len(req) != 1 || !strings.HasPrefix(req[0].Label, "req.Set(") {
						return "generated identifier is not placed on the request under the configured name"
					}
					v := req[0].Label[strings.LastIndex(req[0].Label, ")=")+2:]
					if !strings.Contains(rv, v) && !strings.Contains(v, genName) {
						return "request and response receive different generated values"
					}
				}
				// the response value is the (phi of) trimmed supplied value and generated value
				if !(strings.Contains(rv, "strings.TrimSpace(") || strings.Contains(rv, "(net/http.Header).Get(fld:http.Request.Header,")) || !strings.Contains(rv, genName+"(") {
					return "response value is not the supplied identifier / the generated identifier: " + rv
				}
				// same SSA value on both sides on the generated path
				if !supplied && !sameValue() {
					return "the value the backend sees is not the value the client gets"
				}
				return ""
			})
	}
	c.traceRule("ids-before-chain", "logging.RequestContextMiddleware/handler", inner, c.idSpec(),
		"every identifier header is written before next.ServeHTTP and the chain runs exactly once",
		func(t *Trace) string {
			ni := t.Index("next", 0)
			if ni < 0 {
				return "the chain is never invoked"
			}
			if t.Count("next") != 1 {
				return "the chain is invoked more than once"
			}
			for i, it := range t.Items {
				if isHdr(it) && i > ni {
					return "an identifier header is written after the chain ran (a header set after the chain has written is lost): " + it.Label
				}
			}
			return ""
		})
	c.traceRule("configured-header-name", "logging.RequestContextMiddleware/handler", inner, c.idSpec(),
		"every header the middleware touches is named by RequestHeaderName(cfg) or TraceHeaderName(cfg)",
		func(t *Trace) string {
			for _, it := range t.Items {
				if !isHdr(it) {
					continue
				}
				if k := keyOf(it); !strings.HasPrefix(k, nameFn+"RequestHeaderName(") && !strings.HasPrefix(k, nameFn+"TraceHeaderName(") {
					return "header name is not the configured one: " + it.Label
				}
			}
			return ""
		})
	// generator
	gen := c.idGenerator()
	if gen == nil {
		c.Missing("identifier-entropy", "logging.generateIdentifier")
	} else {
		var size int64 = -1
		readOK := false
		instrsOf(gen, func(in ssa.Instruction) {
			if ci, ok := in.(ssa.CallInstruction); ok && CalleeName(ci) == "crypto/rand.Read" {
				readOK = true
				// the buffer: slice of a fixed-size array or make([]byte, k)
				v := ci.Common().Args[0]
				switch b := v.(type) {
				case *ssa.Slice:
					if a, ok := b.X.(*ssa.Alloc); ok {
						if arr, ok := a.Type().(*types.Pointer).Elem().Underlying().(*types.Array); ok {
							size = arr.Len()
						}
					}
				case *ssa.MakeSlice:
					if k, ok := constInt(b.Len); ok {
						size = k
					}
				}
			}
		})
		var randBuf ssa.Value
		sp := &Spec{
			Event: func(in ssa.Instruction, fr *Frame) string {
				if ci, ok := in.(ssa.CallInstruction); ok {
					switch CalleeName(ci) {
					case "crypto/rand.Read":
						randBuf = ci.Common().Args[0]
						return "rand"
					case "encoding/hex.EncodeToString":
						if ci.Common().Args[0] == randBuf {
							return "hex(rand-buffer)"
						}
						return "hex(other)"
					}
				}
				return ""
			},
			Cond: p.condMentions("rand.Read"), Expand: func(*ssa.Function, ssa.CallInstruction) bool { return false }}
		sp.P = p
		okRet := true
		for _, t := range sp.Walk(gen) {
			if e, _, ok := c.findRel(t, "crypto/rand.Read(", "", 0, -1); ok && !e.Neq && e.Lo == 0 && e.Hi == 0 {
				if !t.Has("hex(rand-buffer)") {
					okRet = false
				}
			}
		}
		c.Check(readOK && size >= 12 && okRet, "identifier-entropy", "logging.generateIdentifier", p.Pos(gen.Pos()),
			fmt.Sprintf("crypto/rand.Read over %d bytes, hex-encoded on the success edge", size),
			fmt.Sprintf("identifiers are not derived from ≥ 12 bytes of crypto/rand (read=%v, bytes=%d, encoded=%v): concurrent requests can collide", readOK, size, okRet))
	}
	c.idHeadersSurvive()
	c.outermostMiddleware()
}

// idHeadersSurvive: inner layers (plugins, the balancer, wrappers) never remove or blank response
// headers wholesale or the ID headers specifically, so error responses written inside the chain
// (429, 503, 413, 401) still carry what RequestContextMiddleware set.
func (c *Ctx) idHeadersSurvive() {
	p := c.P
	n := 0
	var bad []string
	for _, fn := range p.Funcs {
		if !p.InScope(fn) {
			continue
		}
		for _, ci := range callsIn(fn) {
			name := CalleeName(ci)
			args := ci.Common().Args
			switch name {
			case "(net/http.Header).Del", "(net/http.Header).Set":
				if d := p.Desc(args[0], nil); strings.Contains(d, "fld:http.Response.Header") {
					// the backend's response on its way through the reverse proxy (a ModifyResponse hook):
					// the same headers, one step earlier
					n++
					if _, isConst := constStr(args[1]); !isConst || name == "(net/http.Header).Del" {
						bad = append(bad, p.InstrPos(ci)+": "+p.FuncKey(fn)+" removes or rewrites a header of the backend's response under "+p.Desc(args[1], nil)+": with the ID features disabled the header is the backend's own and must reach the client untouched; enabled, what reaches the client is decided by the ID middleware")
					}
					continue
				}
				if !strings.Contains(p.Desc(args[0], nil), "ResponseWriter).Header(") {
					continue
				}
				n++
				key, isConst := constStr(args[1])
				if name == "(net/http.Header).Del" && !isConst {
					bad = append(bad, p.InstrPos(ci)+": "+p.FuncKey(fn)+" deletes response headers under a computed key ("+p.Desc(args[1], nil)+"): the request/trace ID headers set by the outer middleware are removed from this response")
				}
				if isConst && (strings.EqualFold(key, "X-Request-ID") || strings.EqualFold(key, "X-Trace-ID")) && !strings.HasSuffix(fnPkg(fn).Pkg.Path(), "/internal/logging") {
					// An opt-in plugin may publish an identifier of its own (the request-id plugin does);
					// what must not happen inside the chain is removing the header or pinning it to a
					// fixed value, and nothing outside the plugin package has business writing it at all.
					inPlugin := strings.HasSuffix(fnPkg(fn).Pkg.Path(), "/internal/plugins")
					_, fixed := constStr(args[len(args)-1])
					if name == "(net/http.Header).Del" || !inPlugin || (len(args) == 3 && fixed) {
						bad = append(bad, p.InstrPos(ci)+": "+p.FuncKey(fn)+" removes or overwrites the "+key+" response header inside the chain")
					}
				}
			case "builtin:delete":
				if strings.Contains(p.Desc(args[0], nil), "ResponseWriter).Header(") {
					n++
					bad = append(bad, p.InstrPos(ci)+": "+p.FuncKey(fn)+" deletes entries of the response header map directly")
				}
			}
		}
	}
	if len(bad) == 0 {
		c.Pass("id-headers-survive", "response-header-writers", "-", fmt.Sprintf("%d response header Set/Del sites inside the chain, none removes headers wholesale or touches the ID headers", n))
	} else {
		c.Fail("id-headers-survive", "response-header-writers", "-", bad[0], bad...)
	}
}

// outermostMiddleware: buildHandler returns RequestContextMiddleware(...)(handler) on every
// non-error path (shared by C16 and C01).
func (c *Ctx) outermostMiddleware() {
	p := c.P

	bh := c.handlerBuilder()
	construct := "cmd/helios.buildHandler"
	if bh == nil {
		c.Missing("context-middleware-outermost", construct)
		return
	}
	var bad []string
	n := 0
	instrsOf(bh, func(in ssa.Instruction) {
		r, ok := in.(*ssa.Return)
		if !ok || len(r.Results) != 2 {
			return
		}
		if !isConstNil(r.Results[1]) {
			return // error path
		}
		n++
		d := p.Desc(r.Results[0], nil)
		if !strings.HasPrefix(d, "call:dyn[call:github.com/0xReLogic/Helios/internal/logging.RequestContextMiddleware(fld:config.Config.Logging)](") {
			bad = append(bad, p.InstrPos(r)+": returned handler is not RequestContextMiddleware(cfg.Logging)(…): "+d)
		} else if !strings.Contains(d, "param:lb") {
			bad = append(bad, p.InstrPos(r)+": the wrapped handler does not contain the load balancer")
		}
	})
	c.servedHandlerIsBuiltHandler(bh)
	if n == 0 {
		c.Undecided("context-middleware-outermost", construct, p.Pos(bh.Pos()), "no success return found")
	} else if len(bad) == 0 {
		c.Pass("context-middleware-outermost", construct, p.Pos(bh.Pos()), "every success return yields RequestContextMiddleware(cfg.Logging)(plugins…(lb))")
	} else {
		c.Fail("context-middleware-outermost", construct, p.Pos(bh.Pos()), bad[0], bad...)
	}
}

// chainGuardsEveryRequest: with plugins configured, every request reaches the balancer through the
// chain.  In the handler builder the balancer (as an http.Handler) is used for exactly two things — as
// the base BuildChain wraps, and as the handler itself on the path without plugins — and what the
// builder hands on (to the context middleware, to its caller) is, with plugins, BuildChain's own
// result: nothing sits between them that could route a request around the chain.
func (c *Ctx) chainGuardsEveryRequest() {
	p := c.P
	rule, construct := "chain-guards-every-request", "cmd/helios.buildHandler"
	bh := c.handlerBuilder()
	if bh == nil {
		c.Missing(rule, construct)
		return
	}
	var build *ssa.Call
	var baseArg ssa.Value
	for _, ci := range callsIn(bh) {
		if call, ok := ci.(*ssa.Call); ok && strings.HasSuffix(CalleeName(ci), "plugins.BuildChain") {
			build = call
			if a := call.Call.Args; len(a) >= 2 {
				baseArg = a[len(a)-1]
			}
		}
	}
	if build == nil {
		// the chain is applied by a helper of the command (`wrapWithPlugins(cfg, next)`): the helper
		// must hand on BuildChain's result built around its own parameter, and the builder must give
		// it the balancer; from there on the helper's call plays BuildChain's role
		for _, ci := range callsIn(bh) {
			call, ok := ci.(*ssa.Call)
			h := StaticFn(ci)
			if !ok || h == nil || h.Blocks == nil || fnPkg(h) != fnPkg(bh) {
				continue
			}
			for _, c2 := range callsIn(h) {
				inner, ok := c2.(*ssa.Call)
				if !ok || !strings.HasSuffix(CalleeName(c2), "plugins.BuildChain") {
					continue
				}
				args := inner.Call.Args
				pm, isParam := stripConv(args[len(args)-1]).(*ssa.Parameter)
				if !isParam {
					continue
				}
				handsOn := true
				instrsOf(h, func(in ssa.Instruction) {
					if r, isRet := in.(*ssa.Return); isRet && len(r.Results) == 2 && isConstNil(r.Results[1]) {
						ex, isEx := stripConv(r.Results[0]).(*ssa.Extract)
						if !isEx || ex.Tuple != ssa.Value(inner) || ex.Index != 0 {
							if stripConv(r.Results[0]) != ssa.Value(pm) { // the no-plugin path may hand back its parameter
								handsOn = false
							}
						}
					}
				})
				if handsOn {
					build = call
					for j, hp := range h.Params {
						if hp == pm && j < len(call.Call.Args) {
							baseArg = call.Call.Args[j]
						}
					}
				}
			}
		}
	}
	if build == nil {
		c.Missing(rule, construct+"/BuildChain")
		return
	}
	isLB := func(v ssa.Value) bool {
		v = stripConv(v)
		if mi, ok := v.(*ssa.MakeInterface); ok {
			v = mi.X
		}
		return QualType(namedOf(v.Type())) == "loadbalancer.LoadBalancer"
	}
	var bad []string
	// (1) the base of the chain is the balancer itself
	if baseArg == nil || !isLB(baseArg) {
		// (the base may be a variable initialised with the balancer)
		var os []ssa.Value
		if baseArg != nil {
			seen := map[ssa.Value]bool{}
			var walk func(v ssa.Value)
			walk = func(v ssa.Value) {
				if v == nil || seen[v] {
					return
				}
				seen[v] = true
				if ph, ok := v.(*ssa.Phi); ok {
					for _, e := range ph.Edges {
						walk(e)
					}
					return
				}
				os = append(os, v)
			}
			walk(baseArg)
		}
		allLB := len(os) > 0
		for _, o := range os {
			if !isLB(o) {
				allLB = false
			}
		}
		if !allLB {
			bad = append(bad, p.InstrPos(build)+": the chain is not built around the load balancer itself")
		}
	}
	// (2) every other use of the balancer as a handler is the no-plugin fallback: a φ/variable that
	//     merges it with BuildChain's result, or the argument of the context middleware
	var chained ssa.Value
	if refs := build.Referrers(); refs != nil {
		for _, r := range *refs {
			if ex, ok := r.(*ssa.Extract); ok && ex.Index == 0 {
				chained = ex
			}
		}
	}
	var origins func(v ssa.Value, seen map[ssa.Value]bool, out *[]ssa.Value)
	origins = func(v ssa.Value, seen map[ssa.Value]bool, out *[]ssa.Value) {
		if v == nil || seen[v] {
			return
		}
		seen[v] = true
		switch x := v.(type) {
		case *ssa.Phi:
			for _, e := range x.Edges {
				origins(e, seen, out)
			}
			return
		case *ssa.ChangeInterface:
			origins(x.X, seen, out)
			return
		case *ssa.UnOp:
			if a, ok := x.X.(*ssa.Alloc); ok && x.Op == token.MUL {
				if refs := a.Referrers(); refs != nil {
					for _, r := range *refs {
						if st, ok := r.(*ssa.Store); ok && st.Addr == ssa.Value(a) {
							origins(st.Val, seen, out)
						}
					}
				}
				return
			}
		}
		*out = append(*out, v)
	}
	checkHandedOn := func(v ssa.Value, at ssa.Instruction, what string) {
		var os []ssa.Value
		origins(v, map[ssa.Value]bool{}, &os)
		for _, o := range os {
			if o == chained || isLB(o) {
				continue
			}
			if call, ok := o.(*ssa.Call); ok && strings.Contains(CalleeName(call), "RequestContextMiddleware") {
				continue
			}
			if call, ok := o.(*ssa.Call); ok {
				// the application of the context middleware: dyn[RequestContextMiddleware(cfg)](h)
				if strings.Contains(p.Desc(call.Call.Value, nil), "RequestContextMiddleware(") {
					continue
				}
			}
			bad = append(bad, p.InstrPos(at)+": "+what+" can be "+firstN(p.Desc(o, nil), 160)+", which is neither the chain BuildChain returned nor the bare balancer: a handler in between can hand requests to the balancer without running the chain (a rejecting plugin never sees them)")
		}
	}
	n := 0
	instrsOf(bh, func(in ssa.Instruction) {
		switch x := in.(type) {
		case *ssa.Return:
			if len(x.Results) == 2 && isConstNil(x.Results[1]) {
				n++
				// look through the context middleware application
				v := x.Results[0]
				var os []ssa.Value
				origins(v, map[ssa.Value]bool{}, &os)
				for _, o := range os {
					if call, ok := o.(*ssa.Call); ok && strings.Contains(p.Desc(call.Call.Value, nil), "RequestContextMiddleware(") && len(call.Call.Args) == 1 {
						checkHandedOn(call.Call.Args[0], x, "the handler wrapped by the context middleware")
					} else {
						checkHandedOn(o, x, "the handler returned")
					}
				}
			}
		case ssa.CallInstruction:
			// the balancer handed to any other function as a handler
			if x == ssa.CallInstruction(build) {
				return
			}
			for _, a := range x.Common().Args {
				if isLB(a) {
					if _, isIface := a.Type().Underlying().(*types.Interface); isIface {
						if strings.Contains(p.Desc(x.Common().Value, nil), "RequestContextMiddleware(") {
							continue
						}
						bad = append(bad, p.InstrPos(x)+": the balancer is handed to "+CalleeName(x)+" as a handler besides being the base of the chain: requests that reach it that way skip every plugin")
					}
				}
			}
		}
	})
	if n == 0 {
		c.Undecided(rule, construct, p.Pos(bh.Pos()), "no success return found")
		return
	}
	if len(bad) == 0 {
		c.Pass(rule, construct, p.Pos(bh.Pos()), "the balancer is the base of BuildChain and otherwise only the no-plugin fallback; what is handed on is BuildChain's result")
	} else {
		c.Fail(rule, construct, p.Pos(bh.Pos()), bad[0], bad...)
	}
}

// ---- C17 -----------------------------------------------------------------------------------------

func checkC17(c *Ctx) {
	p := c.P
	c.Clause("BuildChain: an unknown plugin name or a failing factory returns (nil, error) without applying anything; buildHandler propagates it; main's error edge reaches Fatal and never starts the server")
	c.Clause("plugin option reads use checked assertions only and every failed read makes the factory return an error")
	c.Clause("after a handler wrote an error response (status ≥ 400) it never delegates to the next handler / the proxy (all middleware-shaped functions)")
	c.Clause("BuildChain wraps h = mw(h) once per element, iterating from the last index down to 0, uniformly in the element")
	c.Clause("registered plugin names are distinct constants, registered from init functions only")
	c.Clause("with plugins configured every request reaches the balancer through the chain: the handler builder uses the balancer only as BuildChain's base (and as the no-plugin fallback) and hands on BuildChain's own result")
	c.Clause("a plugin that authenticates compares with a credential its factory refused when empty; a failing listener start is reported to main (no shadowed error), and no fallible start-up step runs after the listener was started")
	c.Clause("size_limit's rejection covers every request: no path reaches the next handler without the Content-Length test and the MaxBytesReader body (no method or header exempts a request)")
	c.Clause("size_limit's numeric options fall back to their default only when the key is absent: a value that is present and unusable (null, wrong type, not positive) makes the factory fail")
	c.NotDecided("run-time nesting for specific permutations (argued from the uniform loop shape, not enumerated)")

	c.byteLimitOptions()
	bc := p.Fn("internal/plugins", "", "BuildChain")
	sp := &Spec{
		Event: func(in ssa.Instruction, fr *Frame) string {
			if ci, ok := in.(ssa.CallInstruction); ok {
				n := CalleeName(ci)
				if strings.HasPrefix(n, "dyn:func(next net/http.Handler) net/http.Handler") || strings.HasPrefix(n, "dyn:func(net/http.Handler) net/http.Handler") {
					return "apply"
				}
				if strings.HasPrefix(n, "dyn:func(name string, cfg map[string]interface{})") {
					return "factory"
				}
			}
			return ""
		},
		Cond: p.condMentions("builtins", "PluginsConfig", "param:base"),
		Expand: func(callee *ssa.Function, site ssa.CallInstruction) bool {
			pk := fnPkg(callee)
			return pk != nil && strings.HasSuffix(pk.Pkg.Path(), "/internal/plugins") && callee.Parent() == nil && callee.Name() != "BuildChain"
		},
	}
	c.traceRule("chain-fails-closed", "plugins.BuildChain", bc, sp,
		"unknown name / factory error ⇒ (nil, non-nil error); a handler is only returned with a nil error",
		func(t *Trace) string {
			if len(t.Ret) != 2 {
				return "undecided: arity"
			}
			failed := false
			for _, it := range t.Items {
				if _, isIf := it.Instr.(*ssa.If); !isIf {
					continue
				}
				r := c.condRel(it)
				if strings.HasPrefix(r.X, "glob:plugins.builtins[") && strings.HasSuffix(r.X, "#1") && r.Lo == 0 && r.Hi == 0 {
					failed = true // unknown plugin
				}
				if strings.HasPrefix(r.X, "call:dyn[glob:plugins.builtins[") && strings.HasSuffix(r.X, "#1") && (r.Neq || r.Lo != 0) {
					failed = true // factory error
				}
			}
			if failed {
				if t.Ret[1].K != ANonNil {
					return "unknown plugin / invalid plugin configuration does not produce an error (the proxy would start with that protection missing)"
				}
				if t.Ret[0].K != ANil {
					return "a handler is returned together with the error"
				}
				return ""
			}
			if t.Ret[1].K == ANonNil && t.Ret[0].K != ANil {
				return "a handler is returned together with an error"
			}
			return ""
		})
	// loop shape / order
	c.chainOrder(bc)
	// propagation: buildHandler and main
	bh := c.handlerBuilder()
	spB := c.handlerSpec("BuildChain")
	c.traceRule("startup-propagates-error", "cmd/helios.buildHandler", bh, spB, "a BuildChain error is returned to the caller",
		func(t *Trace) string {
			if e, _, ok := c.findRel(t, "plugins.BuildChain(", "", 0, -1); ok && (e.Neq || e.Lo != 0) {
				if len(t.Ret) != 2 || t.Ret[1].K != ANonNil {
					return "plugin chain construction failed but buildHandler reports success"
				}
			}
			return ""
		})
	c.mainFatal()
	c.chainGuardsEveryRequest()

	// 2. factories validate
	nAss := 0
	var panicking []string
	for _, fn := range p.Funcs {
		pk := fnPkg(fn)
		if pk == nil || !strings.HasSuffix(pk.Pkg.Path(), "/internal/plugins") {
			continue
		}
		instrsOf(fn, func(in ssa.Instruction) {
			ta, ok := in.(*ssa.TypeAssert)
			if !ok {
				return
			}
			if call, isCall := stripConv(ta.X).(*ssa.Call); isCall && CalleeName(call) == "(*sync.Pool).Get" {
				return // the pool's own New decides the dynamic type; not an option value
			}
			nAss++
			if !ta.CommaOk {
				panicking = append(panicking, p.InstrPos(ta)+": "+p.FuncKey(fn)+" asserts "+ta.AssertedType.String()+" without the comma-ok form (an unexpected YAML type panics at start-up or per request)")
			}
		})
	}
	// … and an option value is never *formatted* into the setting it configures: fmt.Sprint(cfg["apiKey"])
	// turns null, a list or a map into "<nil>", "[a b]", "map[…]" — every YAML value becomes a valid
	// setting, so an invalid configuration no longer prevents start-up
	for _, fn := range p.Funcs {
		pk := fnPkg(fn)
		if pk == nil || !strings.HasSuffix(pk.Pkg.Path(), "/internal/plugins") {
			continue
		}
		for _, ci := range callsIn(fn) {
			call, isCall := ci.(*ssa.Call)
			if !isCall {
				continue
			}
			switch CalleeName(call) {
			case "fmt.Sprint", "fmt.Sprintf", "fmt.Sprintln":
			default:
				continue
			}
			// the variadic slice's elements
			fromOption := false
			for _, a := range call.Call.Args {
				if c.flowsFrom(a, func(v ssa.Value) bool {
					lk, isLk := v.(*ssa.Lookup)
					if !isLk {
						return false
					}
					mt, isMap := lk.X.Type().Underlying().(*types.Map)
					if !isMap {
						return false
					}
					_, isIface := mt.Elem().Underlying().(*types.Interface)
					return isIface
				}) {
					fromOption = true
				}
			}
			// only when the formatted text is used as a value (not inside an error message)
			if fromOption && call.Referrers() != nil {
				usedAsValue := false
				for _, r := range *call.Referrers() {
					switch r.(type) {
					case *ssa.Store, *ssa.Phi, *ssa.BinOp, *ssa.MakeClosure:
						usedAsValue = true
					}
				}
				if usedAsValue {
					panicking = append(panicking, p.InstrPos(call)+": "+p.FuncKey(fn)+" formats an option value with "+CalleeName(call)+" and uses the text as the setting: any YAML value (null, a list, a map) is accepted as \"<nil>\", \"[a b]\", \"map[…]\" instead of being refused at start-up")
				}
			}
		}
	}
	if len(panicking) == 0 {
		c.Pass("options-checked-assertions", "plugins/*", "-", fmt.Sprintf("%d type assertions in the plugins package, all in comma-ok / type-switch form", nAss))
	} else {
		c.Fail("options-checked-assertions", "plugins/*", "-", panicking[0], panicking...)
	}
	c.Floor("options-checked-assertions", nAss, 8, "type assertions on plugin options")
	c.factoriesFail()

	// 3. rejection stops the chain
	c.rejectionStops()
	// … and size_limit, the rejecting plugin the property names, rejects every request it is meant to:
	// the length test and the bounded body apply on every path to the next handler (shared with C14)
	if w := c.wrapperNamed("plugins.limitedResponseWriter"); w != nil {
		c.requestBound(w)
	}

	// 5. registered names
	var names []string
	var bad []string
	for _, fn := range p.Funcs {
		if !p.InScope(fn) {
			continue
		}
		for _, ci := range callsIn(fn) {
			if strings.HasSuffix(CalleeName(ci), "plugins.RegisterBuiltin") {
				s, ok := constStr(ci.Common().Args[0])
				if !ok {
					bad = append(bad, p.InstrPos(ci)+": plugin registered under a non-constant name")
					continue
				}
				names = append(names, s)
				if outermost(fn).Name() != "init" && !strings.HasPrefix(outermost(fn).Name(), "init#") {
					bad = append(bad, p.InstrPos(ci)+": plugin "+s+" registered outside init (the registry map is unsynchronised)")
				}
			}
		}
	}
	sort.Strings(names)
	for i := 1; i < len(names); i++ {
		if names[i] == names[i-1] {
			bad = append(bad, "plugin name registered twice: "+names[i]+" (the later factory silently replaces the earlier)")
		}
	}
	if len(bad) == 0 {
		c.Pass("registry-names-distinct", "plugins.RegisterBuiltin", "-", fmt.Sprintf("registered: %v", names))
	} else {
		c.Fail("registry-names-distinct", "plugins.RegisterBuiltin", "-", bad[0], bad...)
	}
	c.Floor("registry-names-distinct", len(names), 6, "registered builtin plugins")
}

// chainOrder: structural shape of BuildChain's loop.
func (c *Ctx) chainOrder(bc *ssa.Function) {
	p := c.P
	construct := "plugins.BuildChain/loop"
	if bc == nil {
		c.Missing("chain-order", construct)
		return
	}
	var apply *ssa.Call
	instrsOf(bc, func(in ssa.Instruction) {
		if call, ok := in.(*ssa.Call); ok {
			n := CalleeName(call)
			if strings.HasPrefix(n, "dyn:func(next net/http.Handler) net/http.Handler") || strings.HasPrefix(n, "dyn:func(net/http.Handler) net/http.Handler") {
				apply = call
			}
		}
	})
	var bad []string
	if apply == nil {
		c.Fail("chain-order", construct, p.Pos(bc.Pos()), "no middleware is ever applied")
		return
	}
	// h phi: edges {base, apply result}
	hphi, ok := apply.Call.Args[0].(*ssa.Phi)
	if !ok {
		bad = append(bad, "the middleware is not applied to the handler accumulated so far")
	} else {
		fromBase, fromApply := false, false
		for _, e := range hphi.Edges {
			if _, isP := e.(*ssa.Parameter); isP {
				fromBase = true
			}
			if e == ssa.Value(apply) {
				fromApply = true
			}
		}
		if !fromBase || !fromApply || len(hphi.Edges) != 2 {
			bad = append(bad, "the accumulated handler is not {base, mw(previous)}")
		}
	}
	// the middleware comes from the registered factory of chain[E], built from that element's own
	// configuration — directly, or through a helper that is handed the element
	const want = "call:dyn[glob:plugins.builtins[fld:config.PluginConfig.Name]#0](fld:config.PluginConfig.Name,fld:config.PluginConfig.Config)#0"
	mwDesc := p.SuccDesc(apply.Call.Value, 0)
	mwOK := mwDesc == want
	if !mwOK {
		bad = append(bad, "the middleware applied for an element is not exactly the registered factory of that element's name called with that element's own configuration (every listed entry must be built and validated from its own payload): "+mwDesc)
	}
	// iteration order: the element index runs from len(chain)-1 down to 0
	var idxExpr ssa.Value
	instrsOf(bc, func(in ssa.Instruction) {
		if ia, ok := in.(*ssa.IndexAddr); ok && strings.Contains(p.Desc(ia.X, nil), "PluginsConfig.Chain") {
			idxExpr = ia.Index
		}
	})
	const lenM1 = "(len(fld:config.PluginsConfig.Chain) - k:1)"
	orderOK, why := false, "chain elements are not indexed by a loop counter"
	isCounter := func(v ssa.Value, start int64, step string) (*ssa.Phi, bool) {
		// v is phi or phi±1 of a counter starting at `start` and moving by one per iteration
		var ph *ssa.Phi
		switch x := v.(type) {
		case *ssa.Phi:
			ph = x
		case *ssa.BinOp:
			if q, ok := x.X.(*ssa.Phi); ok {
				ph = q
			}
		}
		if ph == nil {
			return nil, false
		}
		startOK, stepOK := false, false
		for _, e := range ph.Edges {
			if k, ok := constInt(e); ok && k == start {
				startOK = true
			}
			if d := p.Desc(e, nil); start == -2 && d == lenM1 {
				startOK = true
			}
			if b, ok := e.(*ssa.BinOp); ok && b.Op.String() == step {
				if k, ok := constInt(b.Y); ok && k == 1 {
					stepOK = true
				}
			}
		}
		return ph, startOK && stepOK
	}
	hasCond := func(pred func(r Rel) bool) bool {
		found := false
		instrsOf(bc, func(in ssa.Instruction) {
			if ifi, ok := in.(*ssa.If); ok {
				if pred(p.RelOf(ifi.Cond, true, nil)) {
					found = true
				}
			}
		})
		return found
	}
	descending := func() bool {
		// idx = φ + a ;  φ starts at len(chain) + s with s + a = −1, steps by −1, and the body runs while φ + a ≥ 0
		base, a := p.linear(idxExpr, nil)
		var ph *ssa.Phi
		switch x := idxExpr.(type) {
		case *ssa.Phi:
			ph = x
		case *ssa.BinOp:
			ph, _ = x.X.(*ssa.Phi)
		}
		if ph == nil || len(ph.Edges) != 2 || p.Desc(ph, nil) != base {
			return false
		}
		startOK, stepOK := false, false
		for _, e := range ph.Edges {
			if bo, ok := e.(*ssa.BinOp); ok && bo.Op == token.SUB && bo.X == ssa.Value(ph) {
				if k, ok := constInt(bo.Y); ok && k == 1 {
					stepOK = true
					continue
				}
			}
			sb, so := p.linear(e, nil)
			if sb == "len(fld:config.PluginsConfig.Chain)" && so+a == -1 {
				startOK = true
			}
		}
		if !startOK || !stepOK {
			return false
		}
		return hasCond(func(r Rel) bool { return r.X == base && r.Y == "" && !r.Neq && r.Lo == -a && r.Hi == posInf })
	}
	if idxExpr != nil {
		if descending() {
			orderOK = true
		} else if ph, ok := isCounter(idxExpr, -2, "-"); ok && idxExpr == ssa.Value(ph) {
			// i := len-1; i >= 0; i--
			if hasCond(func(r Rel) bool { return strings.HasPrefix(r.X, "phi(") && r.Y == "" && r.Lo == 0 && r.Hi == posInf }) {
				orderOK = true
			} else {
				why = "loop condition is not i ≥ 0 (an element would be skipped)"
			}
		} else if sub, ok := idxExpr.(*ssa.BinOp); ok && sub.Op.String() == "-" && p.Desc(sub.X, nil) == lenM1 {
			// index = (len-1) - U with U = φ+a counting 0,1,2,… while U < len
			ub, uo := p.linear(sub.Y, nil)
			var ph *ssa.Phi
			switch y := sub.Y.(type) {
			case *ssa.Phi:
				ph = y
			case *ssa.BinOp:
				ph, _ = y.X.(*ssa.Phi)
			}
			counts := false
			if ph != nil {
				startOK, stepOK := false, false
				for _, e := range ph.Edges {
					if k, ok := constInt(e); ok && k+uo == 0 {
						startOK = true
					} else if bo, ok := e.(*ssa.BinOp); ok && bo.Op == token.ADD && bo.X == ssa.Value(ph) {
						if k, ok := constInt(bo.Y); ok && k == 1 {
							stepOK = true
						}
					}
				}
				counts = startOK && stepOK && len(ph.Edges) == 2
			}
			if counts {
				if hasCond(func(r Rel) bool {
					return r.X == ub && strings.Contains(r.Y, "len(fld:config.PluginsConfig.Chain)") && r.Hi == -1-uo && r.Lo == negInf
				}) {
					orderOK = true
				} else {
					why = "the ascending counter is not bounded by len(chain)"
				}
			} else {
				why = "the offset subtracted from len(chain)-1 is not a counter 0,1,2,…"
			}
		} else {
			why = "the loop does not run from len(chain)-1 down in steps of 1 (the first listed plugin would not be outermost)"
		}
	}
	if !orderOK {
		bad = append(bad, why)
	}
	// the success return yields the accumulated handler
	retOK := false
	instrsOf(bc, func(in ssa.Instruction) {
		if r, ok := in.(*ssa.Return); ok && len(r.Results) == 2 && isConstNil(r.Results[1]) && r.Results[0] == ssa.Value(hphi) {
			retOK = true
		}
	})
	if hphi != nil && !retOK {
		bad = append(bad, "the chain built is not what BuildChain returns")
	}
	if len(bad) == 0 {
		c.Pass("chain-order", construct, p.InstrPos(apply), "h ∈ {base, mw(h)}; i = len-1 … 0; mw = builtins[chain[i].Name](…); returns h")
	} else {
		c.Fail("chain-order", construct, p.InstrPos(apply), bad[0], bad...)
	}
}

// mainFatal: each fallible start-up step's error edge reaches the Fatal chain before the listener
// is started (C17 clause 1, C18 clause 6).
func (c *Ctx) mainFatal() {
	p := c.P
	mainFn := p.Fn("cmd/helios", "", "main")
	if mainFn == nil {
		c.Missing("startup-all-or-nothing", "cmd/helios.main")
		return
	}
	// the fallible start-up steps: every call in main to a Helios function whose last result is an
	// error (LoadConfig, NewLoadBalancer, the handler builder, the TLS file check, …) — discovered
	var steps []string
	short := map[string]string{}
	for _, ci := range callsIn(mainFn) {
		f := StaticFn(ci)
		if f == nil || !p.IsHelios(f) {
			continue
		}
		rs := f.Signature.Results()
		if rs.Len() == 0 || rs.At(rs.Len()-1).Type().String() != "error" {
			continue
		}
		full := f.String()
		if f.Signature.Recv() == nil {
			full = f.Pkg.Pkg.Path()[strings.LastIndex(f.Pkg.Pkg.Path(), "/")+1:] + "." + f.Name()
		}
		steps = append(steps, full)
		short[full] = f.Name()
	}
	steps = uniqueStrings(steps)
	// what starts serving: the functions of the command that (directly or in a goroutine) call
	// ListenAndServe / ListenAndServeTLS on the main server, and the function that builds that server
	starters := map[*ssa.Function]bool{}
	for _, fn := range p.Funcs {
		if pk := fnPkg(fn); pk == nil || !strings.HasSuffix(pk.Pkg.Path(), "/cmd/helios") {
			continue
		}
		for _, ci := range callsIn(fn) {
			// the proxy's own listener is the one that can serve TLS (the metrics and admin listeners cannot)
			if n := CalleeName(ci); n == "(*net/http.Server).ListenAndServeTLS" {
				starters[outermost(fn)] = true
			}
		}
	}
	isStart := func(ci ssa.CallInstruction) bool {
		if f := StaticFn(ci); f != nil && starters[f] && f != mainFn {
			return true
		}
		n := CalleeName(ci)
		return starters[mainFn] && n == "(*net/http.Server).ListenAndServeTLS"
	}
	sp := &Spec{
		Event: func(in ssa.Instruction, fr *Frame) string {
			ci, ok := in.(ssa.CallInstruction)
			if !ok {
				return ""
			}
			n := CalleeName(ci)
			switch {
			case n == "(*github.com/rs/zerolog.Logger).Fatal":
				return "fatal"
			case isStart(ci):
				return "start"
			}
			if _, isGo := in.(*ssa.Go); isGo {
				if mc, ok := ci.Common().Value.(*ssa.MakeClosure); ok {
					if f, ok := mc.Fn.(*ssa.Function); ok {
						for _, c2 := range callsIn(f) {
							if n2 := CalleeName(c2); n2 == "(*net/http.Server).ListenAndServeTLS" {
								return "start"
							}
						}
					}
				}
			}
			return ""
		},
		Cond:   p.condMentions(steps...),
		Expand: func(*ssa.Function, ssa.CallInstruction) bool { return false },
	}
	sp.P = p
	ts := sp.Walk(mainFn)
	c.Count("paths_enumerated", len(ts))
	c.Floor("startup-all-or-nothing", len(steps), 3, "fallible start-up steps in main")
	for _, step := range steps {
		short := short[step]
		seen, bad := false, ""
		for _, t := range ts {
			for i, it := range t.Items {
				if _, isIf := it.Instr.(*ssa.If); !isIf {
					continue
				}
				r := c.condRel(it)
				if !strings.Contains(r.X, step+"(") {
					continue
				}
				seen = true
				if r.Neq || r.Lo != 0 { // error edge
					nf := t.Index("fatal", i)
					if nf < 0 {
						bad = "the error of " + short + " does not lead to Fatal"
						continue
					}
					// zerolog's Fatal()…Msg() exits: nothing that starts serving may precede it on this edge
					for _, jt := range t.Items[i:nf] {
						if jt.Label == "start" {
							bad = "the listener is started although " + short + " failed"
						}
					}
				}
			}
		}
		construct := "cmd/helios.main/" + short
		switch {
		case !seen:
			c.Fail("startup-all-or-nothing", construct, p.Pos(mainFn.Pos()), "the error result of "+short+" is never tested in main")
		case bad != "":
			c.Fail("startup-all-or-nothing", construct, p.Pos(mainFn.Pos()), bad)
		default:
			c.Pass("startup-all-or-nothing", construct, p.Pos(mainFn.Pos()), "error edge reaches the Fatal chain before any listener is started")
		}
	}
	// the Fatal edge must come before the start calls in program order: every `start` is dominated
	// by the nil-error edges of all four steps
	var starts []ssa.Instruction
	instrsOf(mainFn, func(in ssa.Instruction) {
		if ci, ok := in.(ssa.CallInstruction); ok {
			if sp.Event(in, nil) == "start" {
				_ = ci
				starts = append(starts, in)
			}
		}
	})
	c.Check(len(starts) == 1, "startup-all-or-nothing", "cmd/helios.main/single-start", p.Pos(mainFn.Pos()), "the listener is started at exactly one site", fmt.Sprintf("%d start sites", len(starts)))
	c.listenErrorReported(starters)
}

// listenErrorReported: the proxy's own listener failing to start (port in use, privileged port,
// unreadable key pair) must stop the process: the error every ListenAndServe/ListenAndServeTLS call
// of the starter functions returns flows — through φs and local variables — into a channel send (main
// receives it and calls Fatal) or into a Fatal log chain.  An error that is assigned and never read
// leaves the process running with metrics, admin API and health checks but no proxy.
func (c *Ctx) listenErrorReported(starters map[*ssa.Function]bool) {
	p := c.P
	rule := "listen-error-reported"
	n := 0
	for _, fn := range p.Funcs {
		if !starters[outermost(fn)] {
			continue
		}
		for _, ci := range callsIn(fn) {
			call, isCall := ci.(*ssa.Call)
			if !isCall {
				continue
			}
			switch CalleeName(ci) {
			case "(*net/http.Server).ListenAndServe", "(*net/http.Server).ListenAndServeTLS", "(*net/http.Server).Serve", "(*net/http.Server).ServeTLS":
			default:
				continue
			}
			n++
			construct := p.FuncKey(outermost(fn)) + "/" + strings.TrimPrefix(CalleeName(ci), "(*net/http.Server).")
			reported := false
			seen := map[ssa.Value]bool{}
			var follow func(v ssa.Value, d int)
			follow = func(v ssa.Value, d int) {
				if v == nil || seen[v] || d > 12 || reported {
					return
				}
				seen[v] = true
				refs := v.Referrers()
				if refs == nil {
					return
				}
				for _, r := range *refs {
					switch x := r.(type) {
					case *ssa.Send:
						if x.X == v {
							reported = true
						}
					case *ssa.Phi:
						follow(x, d+1)
					case *ssa.MakeInterface:
						follow(x, d+1)
					case *ssa.ChangeInterface:
						follow(x, d+1)
					case *ssa.Store:
						if a, ok := x.Addr.(*ssa.Alloc); ok && x.Val == v {
							if ar := a.Referrers(); ar != nil {
								for _, l := range *ar {
									if u, ok := l.(*ssa.UnOp); ok && u.Op == token.MUL {
										follow(u, d+1)
									}
								}
							}
						}
					case *ssa.Call:
						cn := CalleeName(x)
						if cn == "(*github.com/rs/zerolog.Event).Err" {
							// …Fatal().Err(err).Msg(…): the event must be a Fatal one
							if strings.Contains(p.Desc(x.Call.Args[0], nil), "Logger).Fatal(") {
								reported = true
							}
						}
						if cn == "fmt.Errorf" || cn == "errors.Join" {
							follow(x, d+1)
						}
					case *ssa.Return:
						// handed to the caller: the callers' use of the result
						h := x.Parent()
						for _, caller := range p.Funcs {
							for _, c2 := range callsIn(caller) {
								if StaticFn(c2) == h {
									if cv, ok := c2.(*ssa.Call); ok {
										follow(cv, d+1)
									}
								}
							}
						}
					}
				}
			}
			follow(call, 0)
			c.Check(reported, rule, construct, p.InstrPos(ci), "the listener's error reaches a channel send / Fatal",
				"the error returned by the proxy's listener is never delivered to main (it is assigned to a variable that is not read, or dropped): when the port cannot be bound the process keeps running with its side servers and health checks but serves no traffic, instead of failing with a clear error")
		}
	}
	c.Floor(rule, n, 2, "listener start calls of the proxy server")
}

// factoriesFail: every plugin factory returns a non-nil error when an option read fails.
func (c *Ctx) factoriesFail() {
	p := c.P
	n := 0
	inPlugins := func(fn *ssa.Function) bool {
		pk := fnPkg(fn)
		return pk != nil && strings.HasSuffix(pk.Pkg.Path(), "/internal/plugins")
	}
	// option values come out of map[string]interface{}: the asserted operand is an empty interface
	assertsOption := func(fn *ssa.Function) bool {
		has := false
		instrsOf(fn, func(in ssa.Instruction) {
			if ta, ok := in.(*ssa.TypeAssert); ok && ta.CommaOk {
				if it, ok := ta.X.Type().Underlying().(*types.Interface); ok && it.NumMethods() == 0 {
					if call, isCall := stripConv(ta.X).(*ssa.Call); isCall && CalleeName(call) == "(*sync.Pool).Get" {
						return
					}
					has = true
				}
			}
		})
		return has
	}
	// converters: helpers that assert an option value and report success as a trailing bool
	converters := map[*ssa.Function]bool{}
	for _, fn := range p.Funcs {
		if !inPlugins(fn) || !assertsOption(fn) {
			continue
		}
		rs := fn.Signature.Results()
		if rs.Len() >= 2 && types.Identical(rs.At(rs.Len()-1).Type(), types.Typ[types.Bool]) {
			converters[fn] = true
		}
	}
	// the tested "did the option have an acceptable type" bit and the option value it is about
	okBit := func(cond ssa.Value) (ssa.Value, bool) {
		e, ok := cond.(*ssa.Extract)
		if !ok {
			return nil, false
		}
		switch t := e.Tuple.(type) {
		case *ssa.TypeAssert:
			if e.Index == 1 {
				return t.X, true
			}
		case *ssa.Call:
			if f := StaticFn(t); f != nil && converters[f] && e.Index == f.Signature.Results().Len()-1 && len(t.Call.Args) > 0 {
				return t.Call.Args[0], true
			}
		}
		return nil, false
	}
	for _, fn := range p.Funcs {
		if !inPlugins(fn) {
			continue
		}
		sig := fn.Signature
		if sig.Results().Len() == 0 || sig.Results().At(sig.Results().Len()-1).Type().String() != "error" {
			continue
		}
		uses := assertsOption(fn)
		for _, ci := range callsIn(fn) {
			if f := StaticFn(ci); f != nil && converters[f] {
				uses = true
			}
		}
		if !uses {
			continue
		}
		n++
		errIdx := sig.Results().Len() - 1
		sp := &Spec{Cond: func(in *ssa.If, fr *Frame) string {
			cond := in.Cond
			if u, ok := cond.(*ssa.UnOp); ok {
				cond = u.X
			}
			if _, ok := okBit(cond); ok {
				return "assert-ok " + p.Desc(in.Cond, fr)
			}
			return ""
		}, Expand: func(*ssa.Function, ssa.CallInstruction) bool { return false }}
		c.traceRule("factory-rejects-bad-option", p.FuncKey(fn), fn, sp,
			"whenever every accepted dynamic type was refused for an option value the function returns an error",
			func(t *Trace) string {
				// group consecutive failed assertions on the same value (type switch); if all alternatives
				// failed and the function still returns nil error, the bad value was accepted
				if len(t.Ret) <= errIdx || t.Ret[errIdx].K != ANil {
					return ""
				}
				failedOn := map[ssa.Value][]bool{}
				for _, it := range t.Items {
					ifi := it.Instr.(*ssa.If)
					cond := ifi.Cond
					pol := it.Pol
					if u, ok := cond.(*ssa.UnOp); ok {
						cond = u.X
						pol = !pol
					}
					if v, ok := okBit(cond); ok {
						failedOn[v] = append(failedOn[v], pol)
					}
				}
				for v, res := range failedOn {
					any := false
					for _, r := range res {
						if r {
							any = true
						}
					}
					if !any {
						return "an option value of an unexpected type is accepted (no assertion on " + p.Desc(v, nil) + " succeeded, yet no error is returned)"
					}
				}
				return ""
			})
	}
	c.Floor("factory-rejects-bad-option", n, 4, "option-parsing functions")
}

// rejectionStops: generic rule over every middleware-shaped function.
func (c *Ctx) rejectionStops() {
	p := c.P
	n := 0
	for _, fn := range p.Funcs {
		if !p.InScope(fn) {
			continue
		}
		sig := fn.Signature
		np := sig.Params().Len()
		if np != 2 || sig.Params().At(0).Type().String() != "net/http.ResponseWriter" || sig.Params().At(1).Type().String() != "*net/http.Request" {
			continue
		}
		delegates := false
		for _, ci := range callsIn(fn) {
			n := CalleeName(ci)
			if n == "(net/http.Handler).ServeHTTP" || n == "(*net/http/httputil.ReverseProxy).ServeHTTP" || strings.HasSuffix(n, "LoadBalancer).handleRequest") {
				delegates = true
			}
		}
		if !delegates {
			continue
		}
		n++
		sp := c.lbSpec()
		base := sp.Event
		sp.Event = func(in ssa.Instruction, fr *Frame) string {
			if ci, ok := in.(ssa.CallInstruction); ok {
				if CalleeName(ci) == "(net/http.Handler).ServeHTTP" {
					return "proxy"
				}
			}
			return base(in, fr)
		}
		sp.MayPanic = nil
		c.traceRule("rejection-stops-chain", p.FuncKey(fn), fn, sp, "no path delegates after having written an error status",
			func(t *Trace) string {
				rejected := ""
				for _, it := range t.Items {
					if strings.HasPrefix(it.Label, "status:") {
						var code int64
						fmt.Sscanf(strings.TrimPrefix(it.Label, "status:"), "%d", &code)
						if code >= 400 {
							rejected = it.Label
						}
					}
					if it.Label == "proxy" && rejected != "" {
						return "request was answered " + strings.TrimPrefix(rejected, "status:") + " and is still handed to the next handler/backend"
					}
				}
				return ""
			})
	}
	c.Floor("rejection-stops-chain", n, 8, "delegating HTTP handlers")
	c.credentialNonEmpty()
}

// credentialNonEmpty: a plugin that admits a request because a request header equals a configured
// secret must have refused, at construction, the empty secret — for the very value it compares with
// (a value normalised after the emptiness check can be empty again, and then a request without the
// header is admitted).
func (c *Ctx) credentialNonEmpty() {
	p := c.P
	n := 0
	for _, fn := range p.Funcs {
		pk := fnPkg(fn)
		if pk == nil || !strings.HasSuffix(pk.Pkg.Path(), "/internal/plugins") || fn.Parent() == nil {
			continue
		}
		instrsOf(fn, func(in ssa.Instruction) {
			ifi, ok := in.(*ssa.If)
			if !ok {
				return
			}
			// a credential admitted through an inexact comparison (case-folded, prefix, suffix, substring)
			// accepts keys that are not the configured one
			cond := ifi.Cond
			if u, isNot := cond.(*ssa.UnOp); isNot && u.Op == token.NOT {
				cond = u.X
			}
			if call, isCall := cond.(*ssa.Call); isCall && len(call.Call.Args) == 2 {
				switch cn := CalleeName(call); cn {
				case "strings.EqualFold", "strings.HasPrefix", "strings.HasSuffix", "strings.Contains", "bytes.EqualFold", "bytes.HasPrefix", "bytes.HasSuffix", "bytes.Contains":
					for i := 0; i < 2; i++ {
						g, isGet := stripConv(call.Call.Args[i]).(*ssa.Call)
						if !isGet || CalleeName(g) != "(net/http.Header).Get" || !strings.Contains(p.Desc(g.Call.Args[0], nil), "http.Request.Header") {
							continue
						}
						other := stripConv(call.Call.Args[1-i])
						if _, isConst := other.(*ssa.Const); isConst {
							continue
						}
						n++
						c.Fail("credential-nonempty", p.FuncKey(fn)+"/header-equals-secret", p.InstrPos(ifi), "the request's credential header is compared with a configured value through "+cn+", not for equality: keys that differ from the configured one (in letter case, or by extra characters) are admitted")
					}
				}
				return
			}
			b, ok := ifi.Cond.(*ssa.BinOp)
			if !ok || (b.Op != token.EQL && b.Op != token.NEQ) {
				return
			}
			var secret ssa.Value
			pairs := [][2]ssa.Value{{b.X, b.Y}, {b.Y, b.X}}
			// subtle.ConstantTimeCompare([]byte(header), []byte(secret)) == 1 is the same comparison; its
			// operands have to be the two strings themselves (a copy into a buffer sized after the secret
			// truncates the header: every key that merely starts with the secret is accepted)
			for _, side := range []ssa.Value{b.X, b.Y} {
				if call, isCall := side.(*ssa.Call); isCall && CalleeName(call) == "crypto/subtle.ConstantTimeCompare" && len(call.Call.Args) == 2 {
					a0, a1 := stripConv(call.Call.Args[0]), stripConv(call.Call.Args[1])
					pairs = [][2]ssa.Value{{a0, a1}, {a1, a0}}
					isGet := func(v ssa.Value) bool {
						g, ok := v.(*ssa.Call)
						return ok && CalleeName(g) == "(net/http.Header).Get"
					}
					if !isGet(a0) && !isGet(a1) {
						n++
						c.Fail("credential-nonempty", p.FuncKey(fn)+"/header-equals-secret", p.InstrPos(ifi), "the credential is compared in constant time through a transformed copy of the header value (a buffer, a slice), not the header value itself: truncating or padding it changes which keys are accepted (a key that starts with the secret passes)")
						return
					}
				}
			}
			for _, pair := range pairs {
				if call, isCall := stripConv(pair[0]).(*ssa.Call); isCall && CalleeName(call) == "(net/http.Header).Get" {
					if strings.Contains(p.Desc(call.Call.Args[0], nil), "http.Request.Header") {
						secret = stripConv(pair[1])
					}
				}
			}
			if secret == nil {
				return
			}
			if _, isConst := secret.(*ssa.Const); isConst {
				return
			}
			n++
			construct := p.FuncKey(fn) + "/header-equals-secret"
			// resolve the compared value through the closure bindings up to the factory
			v, owner := secret, fn
			if ld, isLoad := v.(*ssa.UnOp); isLoad {
				v = ld.X // captured variables are cells
			}
			for hops := 0; hops < 4; hops++ {
				fv, isFree := v.(*ssa.FreeVar)
				if !isFree || owner.Parent() == nil {
					break
				}
				idx := -1
				for i, f := range owner.FreeVars {
					if f == fv {
						idx = i
					}
				}
				var bound ssa.Value
				instrsOf(owner.Parent(), func(pi ssa.Instruction) {
					if mc, isMC := pi.(*ssa.MakeClosure); isMC && mc.Fn == ssa.Value(owner) && idx >= 0 && idx < len(mc.Bindings) {
						bound = mc.Bindings[idx]
					}
				})
				if bound == nil {
					break
				}
				v, owner = bound, owner.Parent()
			}
			// v is now a value, or a variable cell, of the factory `owner`
			if _, stillFree := v.(*ssa.FreeVar); stillFree {
				c.Undecided("credential-nonempty", construct, p.InstrPos(ifi), "cannot resolve where the compared secret comes from")
				return
			}
			cell, _ := v.(*ssa.Alloc)
			// the secret is a result of a Helios helper that reads the option
			// (`apiKey, err := apiKeyFromConfig(name, cfg); if err != nil { return nil, err }`): the helper
			// must refuse the empty value on every successful return, and the factory must return
			// successfully only where the helper's error was found nil
			{
				var ex *ssa.Extract
				if e, isEx := v.(*ssa.Extract); isEx {
					ex = e
				} else if cell != nil && cell.Referrers() != nil {
					stores := 0
					for _, r := range *cell.Referrers() {
						if st, isSt := r.(*ssa.Store); isSt && st.Addr == ssa.Value(cell) {
							stores++
							ex, _ = st.Val.(*ssa.Extract)
						}
					}
					if stores != 1 {
						ex = nil
					}
				}
				if ex != nil {
					if call, isCall := ex.Tuple.(*ssa.Call); isCall {
						if g := call.Call.StaticCallee(); g != nil && g.Blocks != nil && p.IsHelios(g) {
							why := helperRefusesEmpty(g, ex.Index)
							if why == "" {
								why = successOnlyWhereErrNil(owner, call)
							}
							if why == "" {
								c.Pass("credential-nonempty", construct, p.InstrPos(ifi), "the compared secret is the result of "+p.FuncKey(g)+", which refuses the empty value, and the factory succeeds only where that helper did")
							} else {
								c.Fail("credential-nonempty", construct, p.InstrPos(ifi), "the secret compared with the request header comes from "+p.FuncKey(g)+": "+why+": an empty secret admits every request that lacks the header")
							}
							return
						}
					}
				}
			}
			isSecret := func(x ssa.Value) bool {
				x = stripConv(x)
				if cell == nil {
					return x == v
				}
				ld, isLoad := x.(*ssa.UnOp)
				return isLoad && ld.Op == token.MUL && ld.X == ssa.Value(cell)
			}
			// the secret must be tested non-empty in the factory on the way to every successful return,
			// and (for a variable) not be assigned again after that test
			tested := false
			instrsOf(owner, func(oi ssa.Instruction) {
				oif, isIf := oi.(*ssa.If)
				if !isIf {
					return
				}
				ob, isBin := oif.Cond.(*ssa.BinOp)
				if !isBin || (ob.Op != token.EQL && ob.Op != token.NEQ) {
					return
				}
				var other ssa.Value
				if isSecret(ob.X) {
					other = ob.Y
				} else if isSecret(ob.Y) {
					other = ob.X
				} else {
					return
				}
				if s, isStr := constStr(other); !isStr || s != "" {
					return
				}
				nonEmpty := oif.Block().Succs[1] // EQL: the false edge means non-empty
				if ob.Op == token.NEQ {
					nonEmpty = oif.Block().Succs[0]
				}
				okAll := len(nonEmpty.Preds) == 1
				instrsOf(owner, func(ri ssa.Instruction) {
					switch r := ri.(type) {
					case *ssa.Return:
						if len(r.Results) == 2 && isConstNil(r.Results[1]) && !nonEmpty.Dominates(r.Block()) {
							okAll = false
						}
					case *ssa.Store:
						if cell != nil && r.Addr == ssa.Value(cell) && nonEmpty.Dominates(r.Block()) {
							okAll = false // reassigned after the emptiness test
						}
					}
				})
				if okAll {
					tested = true
				}
			})
			var bad []string
			if !tested {
				bad = append(bad, "the secret compared with the request header ("+p.Desc(v, nil)+") is not the value whose emptiness the factory refuses (not tested, or normalised/reassigned after the test): an empty secret admits every request that lacks the header")
			}
			if len(bad) == 0 {
				c.Pass("credential-nonempty", construct, p.InstrPos(ifi), "the compared secret is the value whose emptiness the factory refuses")
			} else {
				c.Fail("credential-nonempty", construct, p.InstrPos(ifi), bad[0], bad...)
			}
		})
	}
	c.Floor("credential-nonempty", n, 1, "header-equals-secret comparisons in plugins")
}

// singleFreshElement: v is `[]T{x}` — a fresh one-element array sliced in full — and x is returned;
// nil otherwise.
func singleFreshElement(v ssa.Value) ssa.Value {
	sl, ok := v.(*ssa.Slice)
	if !ok || sl.Low != nil || sl.High != nil || sl.Max != nil {
		return nil
	}
	a, ok := sl.X.(*ssa.Alloc)
	if !ok {
		return nil
	}
	arr, ok := a.Type().Underlying().(*types.Pointer).Elem().Underlying().(*types.Array)
	if !ok || arr.Len() != 1 {
		return nil
	}
	var elem ssa.Value
	if refs := a.Referrers(); refs != nil {
		for _, r := range *refs {
			if ia, ok := r.(*ssa.IndexAddr); ok && ia.Referrers() != nil {
				for _, u := range *ia.Referrers() {
					if st, ok := u.(*ssa.Store); ok && st.Addr == ssa.Value(ia) {
						elem = st.Val
					}
				}
			}
		}
	}
	return elem
}

// headerValueOf: the value a header operation item stores (Set/Add call, or direct map assignment).
func headerValueOf(in ssa.Instruction) ssa.Value {
	switch x := in.(type) {
	case ssa.CallInstruction:
		if args := x.Common().Args; len(args) > 2 {
			return args[2]
		}
	case *ssa.MapUpdate:
		return singleFreshElement(x.Value)
	}
	return nil
}

// servedHandlerIsBuiltHandler: "outermost" is about what the listener serves, not about what
// buildHandler returns.  The handler installed in the proxy's http.Server must be the handler builder's
// result itself: a wrapper added afterwards (http.TimeoutHandler around it, say) sits outside the
// request-context middleware, and the responses it produces on its own (a 503 on timeout) carry no
// request/trace ID although the backend was given one.  Every store to http.Server.Handler in
// cmd/helios is traced back — through locals, φs and the parameters of helper constructors, to their
// call sites — until it reaches the builder's result (the proxy's server: no call may lie in between)
// or something else (a side server's own mux: not this rule's business).
func (c *Ctx) servedHandlerIsBuiltHandler(bh *ssa.Function) {
	p := c.P
	rule := "context-middleware-outermost"
	n := 0
	// origin of a handler value: "built" (with the wrapping calls met on the way), or "other"
	var origin func(v ssa.Value, fn *ssa.Function, seen map[ssa.Value]bool, d int) (built bool, wraps []string)
	origin = func(v ssa.Value, fn *ssa.Function, seen map[ssa.Value]bool, d int) (bool, []string) {
		if v == nil || seen[v] || d > 14 {
			return false, nil
		}
		// `seen` holds the values on the current derivation only: the same parameter may be reached
		// bare through one φ edge and wrapped through another
		seen[v] = true
		defer delete(seen, v)
		switch x := v.(type) {
		case *ssa.Extract:
			return origin(x.Tuple, fn, seen, d+1)
		case *ssa.Call:
			if bh != nil && x.Call.StaticCallee() == bh {
				return true, nil
			}
			for _, a := range x.Call.Args {
				if b, w := origin(a, fn, seen, d+1); b {
					return true, append(w, p.InstrPos(x)+": "+CalleeName(x))
				}
			}
			return false, nil
		case *ssa.Phi:
			// every edge counts: the handler is the built one if any edge is, and wrapped if any is
			built := false
			var wraps []string
			for _, e := range x.Edges {
				if b, w := origin(e, fn, seen, d+1); b {
					built = true
					wraps = append(wraps, w...)
				}
			}
			return built, wraps
		case *ssa.MakeInterface:
			return origin(x.X, fn, seen, d+1)
		case *ssa.ChangeInterface:
			return origin(x.X, fn, seen, d+1)
		case *ssa.UnOp:
			if a, ok := x.X.(*ssa.Alloc); ok && a.Referrers() != nil {
				for _, r := range *a.Referrers() {
					if s2, ok := r.(*ssa.Store); ok && s2.Addr == ssa.Value(a) {
						if b, w := origin(s2.Val, fn, seen, d+1); b {
							return true, w
						}
					}
				}
			}
		case *ssa.Parameter:
			// a constructor helper: what its callers hand in
			idx := -1
			for i, prm := range fn.Params {
				if prm == x {
					idx = i
				}
			}
			if idx < 0 {
				return false, nil
			}
			for _, caller := range p.Funcs {
				if !p.InScope(caller) {
					continue
				}
				for _, ci := range callsIn(caller) {
					if StaticFn(ci) == fn && idx < len(ci.Common().Args) {
						if b, w := origin(ci.Common().Args[idx], caller, seen, d+1); b {
							return true, w
						}
					}
				}
			}
		}
		return false, nil
	}
	for _, fn := range p.Funcs {
		if !p.InScope(fn) {
			continue
		}
		pk := fnPkg(fn)
		if pk == nil || !strings.HasSuffix(pk.Pkg.Path(), "/cmd/helios") {
			continue
		}
		instrsOf(fn, func(in ssa.Instruction) {
			k, st := storeKey(in)
			if k != "http.Server.Handler" {
				return
			}
			built, wraps := origin(st.Val, fn, map[ssa.Value]bool{}, 0)
			if !built {
				return
			}
			n++
			construct := p.FuncKey(fn) + "/http.Server.Handler"
			if len(wraps) > 0 {
				c.Fail(rule, construct, p.InstrPos(st), "the handler the listener serves is the built handler wrapped once more ("+strings.Join(wraps, "; ")+"): the wrapper sits outside the request-context middleware, so the responses it answers itself (a timeout's 503) carry no request/trace ID")
				return
			}
			c.Pass(rule, construct, p.InstrPos(st), "the listener serves the handler builder's result itself")
		})
	}
	c.Floor(rule, n, 1, "servers serving the built handler")
}

// handlerParamOf: the http.Handler parameter v derives from (through φs, conversions and calls), if any.
func handlerParamOf(v ssa.Value, seen map[ssa.Value]bool, d int) *ssa.Parameter {
	if v == nil || seen[v] || d > 10 {
		return nil
	}
	seen[v] = true
	switch x := v.(type) {
	case *ssa.Parameter:
		if x.Type().String() == "net/http.Handler" {
			return x
		}
	case *ssa.Phi:
		for _, e := range x.Edges {
			if p := handlerParamOf(e, seen, d+1); p != nil {
				return p
			}
		}
	case *ssa.Call:
		for _, a := range x.Call.Args {
			if p := handlerParamOf(a, seen, d+1); p != nil {
				return p
			}
		}
	case *ssa.MakeInterface:
		return handlerParamOf(x.X, seen, d+1)
	case *ssa.ChangeInterface:
		return handlerParamOf(x.X, seen, d+1)
	}
	return nil
}

// suppliedIDLeavesRequestAlone (C01): with the ID features on, the only header the middleware may add
// to a request is an identifier the client did not send.  On every path on which the identifier was
// found supplied (non-blank), the request's headers are not written — Set would replace all the lines
// the client sent under that name by the first one.
func (c *Ctx) suppliedIDLeavesRequestAlone() {
	p := c.P
	rcm := p.Fn("internal/logging", "", "RequestContextMiddleware")
	var inner *ssa.Function
	if rcm != nil {
		for _, cl := range Closures(rcm) {
			if cl.Signature.Params().Len() == 2 {
				inner = cl
			}
		}
	}
	c.traceRule("supplied-id-request-untouched", "logging.RequestContextMiddleware/handler", inner, c.idSpec(),
		"a request header is written only on a path on which that identifier was found blank",
		func(t *Trace) string {
			for i, it := range t.Items {
				if !strings.HasPrefix(it.Label, "req.") {
					continue
				}
				key := it.Label[strings.Index(it.Label, "(")+1:]
				if j := strings.LastIndex(key, ")="); j >= 0 {
					key = key[:j]
				}
				blank := false
				for _, prev := range t.Items[:i] {
					if _, isIf := prev.Instr.(*ssa.If); !isIf {
						continue
					}
					r := c.condRel(prev)
					if r.OK && strings.Contains(r.X, "(net/http.Header).Get(fld:http.Request.Header,"+key+")") && !r.Neq && r.Lo == 0 && r.Hi == 0 {
						blank = true
					}
				}
				if !blank {
					return "the request header " + key + " is written on a path that has not found it blank: a value the client supplied (possibly on several lines) is replaced before the backend sees the request: " + it.Label
				}
			}
			return ""
		})
}

// helperRefusesEmpty: on every return of g whose last result is a nil error, result idx is a value
// found different from "" on an edge that dominates the return.  "" when that holds, a reason otherwise.
func helperRefusesEmpty(g *ssa.Function, idx int) string {
	n := 0
	for _, b := range g.Blocks {
		for _, in := range b.Instrs {
			r, isRet := in.(*ssa.Return)
			if !isRet || len(r.Results) < 2 || idx >= len(r.Results) || !isConstNil(r.Results[len(r.Results)-1]) {
				continue
			}
			n++
			rv := stripConv(r.Results[idx])
			if s, isStr := constStr(rv); isStr {
				if s == "" {
					return "it returns the empty string with a nil error"
				}
				continue
			}
			ok := false
			for _, b2 := range g.Blocks {
				oif, isIf := b2.Instrs[len(b2.Instrs)-1].(*ssa.If)
				if !isIf {
					continue
				}
				ob, isBin := oif.Cond.(*ssa.BinOp)
				if !isBin || (ob.Op != token.EQL && ob.Op != token.NEQ) {
					continue
				}
				var other ssa.Value
				if stripConv(ob.X) == rv {
					other = ob.Y
				} else if stripConv(ob.Y) == rv {
					other = ob.X
				} else {
					continue
				}
				if s, isStr := constStr(other); !isStr || s != "" {
					continue
				}
				nonEmpty := b2.Succs[1]
				if ob.Op == token.NEQ {
					nonEmpty = b2.Succs[0]
				}
				if len(nonEmpty.Preds) == 1 && nonEmpty.Dominates(r.Block()) {
					ok = true
				}
			}
			if !ok {
				return "a successful return of it hands out a value it did not find non-empty"
			}
		}
	}
	if n == 0 {
		return "it has no successful return the rule can see"
	}
	return ""
}

// successOnlyWhereErrNil: every return of the factory with a nil error is dominated by the edge on
// which the error result of `call` was found nil.
func successOnlyWhereErrNil(owner *ssa.Function, call *ssa.Call) string {
	var okBlocks []*ssa.BasicBlock
	for _, b := range owner.Blocks {
		oif, isIf := b.Instrs[len(b.Instrs)-1].(*ssa.If)
		if !isIf {
			continue
		}
		ob, isBin := oif.Cond.(*ssa.BinOp)
		if !isBin || (ob.Op != token.EQL && ob.Op != token.NEQ) {
			continue
		}
		var e ssa.Value
		if isConstNil(ob.Y) {
			e = ob.X
		} else if isConstNil(ob.X) {
			e = ob.Y
		} else {
			continue
		}
		ex, isEx := stripConv(e).(*ssa.Extract)
		if !isEx || ex.Tuple != ssa.Value(call) || ex.Index != call.Call.Signature().Results().Len()-1 {
			continue
		}
		nilEdge := b.Succs[0]
		if ob.Op == token.NEQ {
			nilEdge = b.Succs[1]
		}
		if len(nilEdge.Preds) == 1 {
			okBlocks = append(okBlocks, nilEdge)
		}
	}
	for _, b := range owner.Blocks {
		for _, in := range b.Instrs {
			r, isRet := in.(*ssa.Return)
			if !isRet || len(r.Results) != 2 || !isConstNil(r.Results[1]) {
				continue
			}
			dom := false
			for _, ok := range okBlocks {
				if ok.Dominates(r.Block()) {
					dom = true
				}
			}
			if !dom {
				return "the factory returns successfully on a path where that helper's error was not found nil"
			}
		}
	}
	return ""
}
