package main

import (
	"fmt"
	"go/token"
	"go/types"
	"math"
	"sort"
	"strings"

	"golang.org/x/tools/go/ssa"
)

// The TRACE engine enumerates the control-flow paths of a function (each block at most MaxVisits
// times), inlining selected Helios callees, deferred calls and panic unwinding, and projects every
// path onto the events a rule cares about.  Branches whose condition is decided by an abstract
// value already known on the path (constant arguments, nil/non-nil results of inlined callees,
// recover()) are pruned; nothing else about values is interpreted.

type AbsKind int

const (
	AUnknown AbsKind = iota
	ATrue
	AFalse
	ANil
	ANonNil
	ANonEmpty // slice known to hold at least one element (result of append)
	ANonZero  // integer known to differ from zero (len of a non-empty slice)
	AMaxInt   // the largest value of its integer type (sentinel of a minimum search)
)

type AbsVal struct {
	K  AbsKind
	Fn *ssa.Function // function value, when known
	G  *ssa.Global   // identity of a package-level error variable, when known
}

func (a AbsVal) String() string {
	s := [...]string{"?", "true", "false", "nil", "nonnil", "nonempty", "nonzero", "maxint"}[a.K]
	if a.Fn != nil {
		s += ":" + a.Fn.Name()
	}
	if a.G != nil {
		s += ":" + a.G.Name()
	}
	return s
}

type ExitKind int

const (
	ExitNormal ExitKind = iota
	ExitPanic
)

// Frame is one activation on the inlining stack.
type Frame struct {
	Fn     *ssa.Function
	Site   ssa.CallInstruction // call in the parent frame (nil for the root)
	Parent *Frame
	Args   []ssa.Value // actual arguments at Site (incl. receiver)
	Depth  int
}

// Item is one projected event on a path.
type Item struct {
	Label string
	Instr ssa.Instruction
	Pol   bool // branch polarity for *ssa.If items
	Frame *Frame
	// Cond, for *ssa.If items, is the branch condition as it is on this path: a condition that was
	// materialised into a boolean variable (`trip := a >= b; …; if trip`) is resolved through the φ
	// to the comparison the path actually came through.
	Cond      ssa.Value
	CondFrame *Frame // the frame Cond is to be described in (the callee's, when it is a helper's result)
	CondNeg   bool   // Cond is the negation of the branch condition (`if !helper()`)
	// Args, for call items, are the call's arguments as they are on this path: φs resolved to the
	// operand the path came through, results of inlined helpers to the value their taken return
	// yields, local cells to the value last stored, parameters of inlined frames to the caller's argument.
	Args []PathVal
}

// PathVal is a value together with the frame it is to be described in.
type PathVal struct {
	V  ssa.Value
	Fr *Frame
}

type Trace struct {
	Items     []Item
	Exit      ExitKind
	Ret       []AbsVal
	RetInstr  ssa.Instruction
	Recovered bool // a deferred call recovered the panic
	sig       string
	facts     map[string]factVal
	final     *walkState // the path's selections (φ operands, helper returns, cells) when it ended
}

func (t *Trace) Labels() []string {
	out := make([]string, len(t.Items))
	for i, it := range t.Items {
		out[i] = it.Label
		if _, ok := it.Instr.(*ssa.If); ok {
			if it.Pol {
				out[i] += "=T"
			} else {
				out[i] += "=F"
			}
		}
	}
	return out
}

func (t *Trace) String() string { return strings.Join(t.Labels(), " ; ") }

// Index returns the index of the first item with the label at or after from, or -1.
func (t *Trace) Index(label string, from int) int {
	for i := from; i < len(t.Items); i++ {
		if t.Items[i].Label == label {
			return i
		}
	}
	return -1
}

func (t *Trace) Count(label string) int {
	n := 0
	for _, it := range t.Items {
		if it.Label == label {
			n++
		}
	}
	return n
}

func (t *Trace) Has(label string) bool { return t.Index(label, 0) >= 0 }

// Spec tells the walker what to keep and what to inline.
type Spec struct {
	P *Program
	// Event labels an instruction ("" = drop).  Called for every non-branch instruction.
	Event func(in ssa.Instruction, fr *Frame) string
	// Cond labels a branch ("" = drop).
	Cond func(in *ssa.If, fr *Frame) string
	// Expand decides whether a resolved Helios callee is inlined.
	Expand func(callee *ssa.Function, site ssa.CallInstruction) bool
	// RetLabel, when it returns a non-empty label L for an inlined callee, makes the walker emit an
	// item "L:<abstract result>" after the callee returns normally.
	RetLabel func(callee *ssa.Function) string
	// MayPanic marks opaque calls that can panic (forks an unwinding path).
	MayPanic func(site ssa.CallInstruction) bool
	// SeqFacts: reason about one goroutine running alone (e.g. the same entry point called twice in
	// a row): path facts about Helios fields then survive calls that cannot run Helios code (lock
	// operations, the standard library), and are only dropped by opaque calls that may.
	SeqFacts  bool
	MaxVisits int
	MaxTraces int

	memo     map[string][]*Trace
	frames   map[string]*Frame
	overflow bool
	active   map[*ssa.Function]int
}

// subFrame returns the (unique) frame for a call site within a parent frame.
func (s *Spec) subFrame(parent *Frame, site ssa.CallInstruction, callee *ssa.Function) *Frame {
	if s.frames == nil {
		s.frames = map[string]*Frame{}
	}
	k := fmt.Sprintf("%p|%p|%p", parent, site, callee)
	if f, ok := s.frames[k]; ok {
		return f
	}
	f := &Frame{Fn: callee, Site: site, Parent: parent, Args: site.Common().Args, Depth: parent.Depth + 1}
	s.frames[k] = f
	return f
}

func (s *Spec) Overflow() bool { return s.overflow }

type walkState struct {
	env      map[ssa.Value]AbsVal
	tuple    map[ssa.Value][]AbsVal
	visits   map[*ssa.BasicBlock]int
	defers   []*ssa.Defer
	items    []Item
	decided  map[ssa.Value]bool     // branch decisions taken on this path (frame-local values)
	cells    map[*ssa.Alloc]AbsVal  // abstract contents of local variable cells (spilled results)
	facts    map[string]factVal     // what earlier branches/stores established about memory locations
	phiSel   map[*ssa.Phi]ssa.Value // which operand each φ took the last time the path entered its block
	callRet  map[*ssa.Call]retSel   // for an inlined single-result helper: the value its taken return yields
	tupleRet map[*ssa.Call][]retSel // the same for an inlined helper with several results
	cellSel  map[*ssa.Alloc]retSel  // the value last stored into a local variable cell on this path
	panicing bool
	recov    bool
}

type retSel struct {
	v  ssa.Value
	fr *Frame
}

// adopt takes over the selections a finished callee path made (they describe values the caller may
// go on to test: the helper's result, a φ inside it).
func (w *walkState) adopt(f *walkState) {
	if f == nil {
		return
	}
	for k, v := range f.phiSel {
		if w.phiSel == nil {
			w.phiSel = map[*ssa.Phi]ssa.Value{}
		}
		w.phiSel[k] = v
	}
	for k, v := range f.callRet {
		if w.callRet == nil {
			w.callRet = map[*ssa.Call]retSel{}
		}
		w.callRet[k] = v
	}
	for k, v := range f.tupleRet {
		if w.tupleRet == nil {
			w.tupleRet = map[*ssa.Call][]retSel{}
		}
		w.tupleRet[k] = v
	}
	for k, v := range f.cellSel {
		if w.cellSel == nil {
			w.cellSel = map[*ssa.Alloc]retSel{}
		}
		w.cellSel[k] = v
	}
}

func (w *walkState) clone() *walkState {
	n := &walkState{
		env: make(map[ssa.Value]AbsVal, len(w.env)), tuple: make(map[ssa.Value][]AbsVal, len(w.tuple)),
		visits: make(map[*ssa.BasicBlock]int, len(w.visits)), decided: make(map[ssa.Value]bool, len(w.decided)),
		cells:    make(map[*ssa.Alloc]AbsVal, len(w.cells)),
		panicing: w.panicing, recov: w.recov,
	}
	for k, v := range w.cells {
		n.cells[k] = v
	}
	n.phiSel = make(map[*ssa.Phi]ssa.Value, len(w.phiSel))
	for k, v := range w.phiSel {
		n.phiSel[k] = v
	}
	n.callRet = make(map[*ssa.Call]retSel, len(w.callRet))
	for k, v := range w.callRet {
		n.callRet[k] = v
	}
	n.tupleRet = make(map[*ssa.Call][]retSel, len(w.tupleRet))
	for k, v := range w.tupleRet {
		n.tupleRet[k] = v
	}
	n.cellSel = make(map[*ssa.Alloc]retSel, len(w.cellSel))
	for k, v := range w.cellSel {
		n.cellSel[k] = v
	}
	n.facts = make(map[string]factVal, len(w.facts))
	for k, v := range w.facts {
		n.facts[k] = v
	}
	for k, v := range w.env {
		n.env[k] = v
	}
	for k, v := range w.tuple {
		n.tuple[k] = v
	}
	for k, v := range w.visits {
		n.visits[k] = v
	}
	for k, v := range w.decided {
		n.decided[k] = v
	}
	n.defers = append([]*ssa.Defer(nil), w.defers...)
	n.items = append([]Item(nil), w.items...)
	return n
}

// Walk returns the projected traces of fn.
func (s *Spec) Walk(fn *ssa.Function) []*Trace {
	if s.MaxVisits == 0 {
		s.MaxVisits = 2
	}
	if s.MaxTraces == 0 {
		s.MaxTraces = 40000
	}
	if s.memo == nil {
		s.memo = map[string][]*Trace{}
		s.active = map[*ssa.Function]int{}
	}
	root := &Frame{Fn: fn}
	return s.walkFn(root, nil, false, nil)
}

func (s *Spec) walkFn(fr *Frame, argAbs []AbsVal, panicing bool, initFacts map[string]factVal) []*Trace {
	fn := fr.Fn
	key := fmt.Sprintf("%p|%v|%v|%s", fr, argAbs, panicing, factsSig(initFacts))
	if t, ok := s.memo[key]; ok {
		return t
	}
	if s.active[fn] > 0 || fn.Blocks == nil { // recursion: treat as opaque
		return []*Trace{{}}
	}
	s.active[fn]++
	defer func() { s.active[fn]-- }()
	st := &walkState{env: map[ssa.Value]AbsVal{}, tuple: map[ssa.Value][]AbsVal{}, visits: map[*ssa.BasicBlock]int{}, decided: map[ssa.Value]bool{}, cells: map[*ssa.Alloc]AbsVal{}, facts: map[string]factVal{}, panicing: panicing}
	for k, v := range initFacts {
		st.facts[k] = v
	}
	for i, p := range fn.Params {
		if i < len(argAbs) {
			st.env[p] = argAbs[i]
		}
	}
	var out []*Trace
	seen := map[string]bool{}
	emit := func(t *Trace) {
		if len(out) >= s.MaxTraces {
			s.overflow = true
			return
		}
		t.sig = traceSig(t)
		if !seen[t.sig] {
			seen[t.sig] = true
			out = append(out, t)
		}
	}
	s.walkBlock(fr, fn.Blocks[0], nil, st, 0, emit)
	s.memo[key] = out
	return out
}

func traceSig(t *Trace) string {
	var b strings.Builder
	for _, it := range t.Items {
		fmt.Fprintf(&b, "%s@%p/%v;", it.Label, it.Instr, it.Pol)
	}
	fmt.Fprintf(&b, "|%d|%v|%v", t.Exit, t.Ret, t.Recovered)
	return b.String()
}

func (s *Spec) walkBlock(fr *Frame, b *ssa.BasicBlock, pred *ssa.BasicBlock, st *walkState, start int, emit func(*Trace)) {
	if s.overflow {
		return
	}
	if start == 0 {
		if st.visits[b] >= s.MaxVisits {
			return // loop bound: abandon this path
		}
		st.visits[b]++
		// φ-nodes are evaluated in parallel against the state of the predecessor (a loop-carried
		// φ may refer to itself or to another φ of the same block)
		var phiVals map[*ssa.Phi]AbsVal
		if pred != nil {
			for pi, pb := range b.Preds {
				if pb != pred {
					continue
				}
				for _, in := range b.Instrs {
					ph, isPhi := in.(*ssa.Phi)
					if !isPhi {
						break
					}
					if phiVals == nil {
						phiVals = map[*ssa.Phi]AbsVal{}
					}
					phiVals[ph] = s.abs(ph.Edges[pi], st)
					if st.phiSel == nil {
						st.phiSel = map[*ssa.Phi]ssa.Value{}
					}
					sel := ph.Edges[pi]
					if inner, isPhi := sel.(*ssa.Phi); isPhi {
						if v, ok := st.phiSel[inner]; ok && inner.Block() != b {
							sel = v
						}
					}
					st.phiSel[ph] = sel
				}
				break
			}
		}
		if st.visits[b] > 1 {
			// values are recomputed on re-entry
			for v := range st.decided {
				if in, ok := v.(ssa.Instruction); ok && in.Block() == b {
					delete(st.decided, v)
				}
			}
			for v := range st.env {
				if in, ok := v.(ssa.Instruction); ok && in.Block() == b {
					delete(st.env, v)
				}
			}
			for v := range st.tuple {
				if in, ok := v.(ssa.Instruction); ok && in.Block() == b {
					delete(st.tuple, v)
				}
			}
		}
		for ph, v := range phiVals {
			st.env[ph] = v
		}
	}
	for i := start; i < len(b.Instrs); i++ {
		in := b.Instrs[i]
		switch x := in.(type) {
		case *ssa.Phi:
			_ = x // evaluated on block entry (in parallel)
			continue
		case *ssa.If:
			s.doIf(fr, b, x, st, emit)
			return
		case *ssa.Jump:
			s.walkBlock(fr, b.Succs[0], b, st, 0, emit)
			return
		case *ssa.Return:
			s.note(fr, in, st)
			t := &Trace{Items: st.items, Exit: ExitNormal, RetInstr: x, Recovered: st.recov, facts: st.facts, final: st}
			for _, r := range x.Results {
				t.Ret = append(t.Ret, s.abs(r, st))
			}
			emit(t)
			return
		case *ssa.Panic:
			s.note(fr, in, st)
			s.unwind(fr, st, x, emit)
			return
		case *ssa.Defer:
			s.note(fr, in, st)
			st.defers = append(st.defers, x)
			continue
		case *ssa.RunDefers:
			// run deferred calls LIFO, then continue after this instruction
			s.runDefers(fr, st, len(st.defers)-1, false, func(st2 *walkState, stillPanicking bool) {
				st2.defers = nil
				s.walkBlock(fr, b, pred, st2, i+1, emit)
			}, emit)
			return
		case *ssa.Go:
			s.note(fr, in, st)
			st.facts = map[string]factVal{}
			continue
		case *ssa.Call:
			done := s.doCall(fr, x, st, func(st2 *walkState) {
				s.walkBlock(fr, b, pred, st2, i+1, emit)
			}, emit)
			if done {
				return
			}
			continue
		case *ssa.Store:
			if a, ok := x.Addr.(*ssa.Alloc); ok {
				st.cells[a] = s.abs(x.Val, st)
				if st.cellSel == nil {
					st.cellSel = map[*ssa.Alloc]retSel{}
				}
				rv, rf := st.resolve(x.Val, fr)
				st.cellSel[a] = retSel{v: rv, fr: rf}
			}
			s.storeFact(fr, x, st)
			s.note(fr, in, st)
		case *ssa.MapUpdate:
			st.facts = map[string]factVal{}
			s.note(fr, in, st)
		case *ssa.FieldAddr:
			// x.f was evaluated, so the pointer x is not nil on this path
			if _, isPtr := x.X.Type().Underlying().(*types.Pointer); isPtr {
				if s.abs(x.X, st).K == ANil {
					// … unless the path has established that it is: a nil dereference
					st.items = append(st.items, Item{Label: "nil-deref:" + types.TypeString(x.X.Type(), func(*types.Package) string { return "" }), Instr: in, Frame: fr})
				} else if cur, ok := st.env[x.X]; !ok || cur.K == AUnknown {
					st.env[x.X] = AbsVal{K: ANonNil}
				}
			}
			s.note(fr, in, st)
		default:
			s.note(fr, in, st)
		}
	}
}

func (s *Spec) note(fr *Frame, in ssa.Instruction, st *walkState) {
	if s.Event == nil {
		return
	}
	if l := s.Event(in, fr); l != "" {
		switch in.(type) {
		case *ssa.Defer:
			l = "defer:" + l
		case *ssa.Go:
			l = "go:" + l
		}
		// one instruction may stand for several events in a row ("a\x00b": http.Error sends the
		// status and then writes its message)
		for _, one := range strings.Split(l, "\x00") {
			it := Item{Label: one, Instr: in, Frame: fr}
			if ci, isCall := in.(ssa.CallInstruction); isCall {
				for _, a := range ci.Common().Args {
					rv, rf := st.resolve(a, fr)
					it.Args = append(it.Args, PathVal{V: rv, Fr: rf})
				}
			}
			st.items = append(st.items, it)
		}
	}
}

// resolve follows a value back along the current path: through the φ operand the path came
// through, the value an inlined helper's taken return yields, the value last stored into a local
// cell (also one captured by a closure), and from a parameter of an inlined frame to the caller's
// argument.  It stops at the first value that is none of these.
func (st *walkState) resolve(v ssa.Value, fr *Frame) (ssa.Value, *Frame) {
	for i := 0; i < 16; i++ {
		switch x := v.(type) {
		case *ssa.Phi:
			if sel, ok := st.phiSel[x]; ok {
				v = sel
				continue
			}
		case *ssa.Call:
			if rs, ok := st.callRet[x]; ok {
				v, fr = rs.v, rs.fr
				continue
			}
		case *ssa.Extract:
			if call, ok := x.Tuple.(*ssa.Call); ok {
				if rs, ok := st.tupleRet[call]; ok && x.Index < len(rs) {
					v, fr = rs[x.Index].v, rs[x.Index].fr
					continue
				}
			}
		case *ssa.ChangeType:
			v = x.X
			continue
		case *ssa.MakeInterface:
			v = x.X
			continue
		case *ssa.ChangeInterface:
			v = x.X
			continue
		case *ssa.UnOp:
			if x.Op != token.MUL {
				break
			}
			addr, afr := x.X, fr
			if fv, ok := addr.(*ssa.FreeVar); ok && fr != nil && fr.Site != nil {
				if mc, ok := fr.Site.Common().Value.(*ssa.MakeClosure); ok {
					for j, f := range fr.Fn.FreeVars {
						if f == fv && j < len(mc.Bindings) {
							addr, afr = mc.Bindings[j], fr.Parent
						}
					}
				}
			}
			if a, ok := addr.(*ssa.Alloc); ok {
				if sv, ok := st.cellSel[a]; ok {
					_ = afr
					v, fr = sv.v, sv.fr
					continue
				}
			}
		case *ssa.FreeVar:
			// a captured value (not a variable cell): what the closure was bound to
			if fr != nil && fr.Site != nil {
				if mc, ok := fr.Site.Common().Value.(*ssa.MakeClosure); ok {
					hit := false
					for j, f := range fr.Fn.FreeVars {
						if f == x && j < len(mc.Bindings) {
							v, fr = mc.Bindings[j], fr.Parent
							hit = true
						}
					}
					if hit {
						continue
					}
				}
			}
		case *ssa.Parameter:
			if fr != nil && fr.Parent != nil && fr.Site != nil {
				hit := false
				for j, pm := range fr.Fn.Params {
					if pm == x && j < len(fr.Args) {
						v, fr = fr.Args[j], fr.Parent
						hit = true
					}
				}
				if hit {
					continue
				}
			}
		}
		break
	}
	return v, fr
}

func (s *Spec) doIf(fr *Frame, b *ssa.BasicBlock, x *ssa.If, st *walkState, emit func(*Trace)) {
	cond := x.Cond
	condFrame, condNeg := fr, false
	for i := 0; i < 6; i++ {
		if u, isNot := cond.(*ssa.UnOp); isNot && u.Op == token.NOT {
			if _, isCall := u.X.(*ssa.Call); isCall {
				cond, condNeg = u.X, !condNeg
				continue
			}
		}
		if ph, isPhi := cond.(*ssa.Phi); isPhi {
			// (also a φ inside the helper whose result is being tested: the helper has just run on
			// this path, so the recorded selection is the current one)
			if sel, ok := st.phiSel[ph]; ok {
				cond = sel
				continue
			}
		}
		if call, isCall := cond.(*ssa.Call); isCall && condFrame == fr {
			// the result of a helper that was inlined on this path: the value its taken return yields
			if rs, ok := st.callRet[call]; ok {
				if _, stillConst := rs.v.(*ssa.Const); !stillConst {
					cond, condFrame = rs.v, rs.fr
					continue
				}
			}
		}
		break
	}
	a := s.abs(x.Cond, st)
	if a.K == AUnknown && condFrame == fr && !condNeg {
		a = s.abs(cond, st)
	}
	factCond := x.Cond
	if condFrame == fr && !condNeg {
		factCond = cond
	}
	fk, fkOK := s.factKey(factCond, fr)
	if a.K == AUnknown && fkOK {
		if v, ok := fk.lookup(st.facts); ok {
			if v {
				a.K = ATrue
			} else {
				a.K = AFalse
			}
		}
	}
	try := func(pol bool, w *walkState) {
		if prev, ok := w.decided[x.Cond]; ok && prev != pol {
			return // same SSA condition taken both ways on one path: infeasible
		}
		w.decided[x.Cond] = pol
		// propagate the decision to the operands (x == nil, !x, …) so later tests agree
		s.assume(factCond, pol, w)
		if fkOK {
			fk.record(w.facts, pol)
		}
		if s.Cond != nil {
			if l := s.Cond(x, fr); l != "" {
				w.items = append(w.items, Item{Label: l, Instr: x, Pol: pol, Frame: fr, Cond: cond, CondFrame: condFrame, CondNeg: condNeg})
			}
		}
		succ := b.Succs[0]
		if !pol {
			succ = b.Succs[1]
		}
		s.walkBlock(fr, succ, b, w, 0, emit)
	}
	switch a.K {
	case ATrue:
		try(true, st)
	case AFalse:
		try(false, st)
	default:
		w2 := st.clone()
		try(true, st)
		try(false, w2)
	}
}

// assume records what a taken branch implies about simple operands.
func (s *Spec) assume(cond ssa.Value, pol bool, st *walkState) {
	switch c := cond.(type) {
	case *ssa.UnOp:
		if c.Op == token.NOT {
			s.assume(c.X, !pol, st)
			return
		}
	case *ssa.BinOp:
		if c.Op == token.EQL || c.Op == token.NEQ {
			eq := (c.Op == token.EQL) == pol
			x, y := c.X, c.Y
			if isConstNil(x) {
				x, y = y, x
			}
			if isConstNil(y) {
				if s.abs(x, st).K == AUnknown {
					if eq {
						st.env[x] = AbsVal{K: ANil}
					} else {
						st.env[x] = AbsVal{K: ANonNil}
					}
				}
				if !eq {
					s.nilOnError(x, st)
				}
				return
			}
			if bv, ok := constBool(y); ok {
				want := bv == eq
				s.assume(x, want, st)
				return
			}
		}
	}
	if _, isConst := cond.(*ssa.Const); isConst {
		return
	}
	if cur, ok := st.env[cond]; !ok || cur.K == AUnknown {
		if pol {
			st.env[cond] = AbsVal{K: ATrue}
		} else {
			st.env[cond] = AbsVal{K: AFalse}
		}
	}
}

// abs evaluates the abstract value of v on the current path.
func (s *Spec) abs(v ssa.Value, st *walkState) AbsVal {
	if a, ok := st.env[v]; ok && (a.K != AUnknown || a.Fn != nil) {
		return a
	}
	switch x := v.(type) {
	case *ssa.Const:
		if x.Value == nil {
			return AbsVal{K: ANil}
		}
		if b, ok := constBool(x); ok {
			if b {
				return AbsVal{K: ATrue}
			}
			return AbsVal{K: AFalse}
		}
		if k, ok := constInt(x); ok {
			if b, isB := x.Type().Underlying().(*types.Basic); isB {
				if (b.Kind() == types.Int32 && k == math.MaxInt32) || ((b.Kind() == types.Int64 || b.Kind() == types.Int) && k == math.MaxInt64) {
					return AbsVal{K: AMaxInt}
				}
			}
		}
		return AbsVal{}
	case *ssa.Function:
		return AbsVal{K: ANonNil, Fn: x}
	case *ssa.MakeClosure:
		return AbsVal{K: ANonNil, Fn: x.Fn.(*ssa.Function)}
	case *ssa.Alloc:
		return AbsVal{K: ANonNil}
	case *ssa.MakeInterface:
		return AbsVal{K: ANonNil}
	case *ssa.ChangeInterface:
		return s.abs(x.X, st)
	case *ssa.ChangeType:
		return s.abs(x.X, st)
	case *ssa.UnOp:
		if x.Op == token.NOT {
			a := s.abs(x.X, st)
			switch a.K {
			case ATrue:
				return AbsVal{K: AFalse}
			case AFalse:
				return AbsVal{K: ATrue}
			}
			return AbsVal{}
		}
		if x.Op == token.MUL {
			if g, ok := x.X.(*ssa.Global); ok && s.P != nil && s.P.globalNonNil(g) {
				return AbsVal{K: ANonNil, G: g}
			}
			if a, ok := x.X.(*ssa.Alloc); ok {
				if v, ok := st.cells[a]; ok {
					return v
				}
			}
		}
	case *ssa.BinOp:
		if x.Op == token.LSS {
			// v < MaxOfItsType holds for every value a counter realistically takes (sentinel minimum
			// search); the sentinel may reach the comparison through a loop-carried φ
			if s.abs(x.Y, st).K == AMaxInt && s.abs(x.X, st).K != AMaxInt {
				return AbsVal{K: ATrue}
			}
		}
		if x.Op == token.EQL || x.Op == token.NEQ {
			a, b := s.abs(x.X, st), s.abs(x.Y, st)
			res := AbsVal{}
			if k, ok := constInt(x.Y); ok && k == 0 && a.K == ANonZero {
				res.K = AFalse
				if x.Op == token.NEQ {
					res.K = ATrue
				}
				return res
			}
			switch {
			case a.K == ANil && b.K == ANil:
				res.K = ATrue
			case (a.K == ANil && b.K == ANonNil) || (a.K == ANonNil && b.K == ANil):
				res.K = AFalse
			case a.G != nil && b.G != nil:
				if a.G == b.G {
					res.K = ATrue
				} else {
					res.K = AFalse
				}
			case (a.K == ATrue || a.K == AFalse) && (b.K == ATrue || b.K == AFalse):
				if a.K == b.K {
					res.K = ATrue
				} else {
					res.K = AFalse
				}
			}
			if res.K != AUnknown && x.Op == token.NEQ {
				if res.K == ATrue {
					res.K = AFalse
				} else {
					res.K = ATrue
				}
			}
			return res
		}
	case *ssa.Extract:
		if t, ok := st.tuple[x.Tuple]; ok && x.Index < len(t) && t[x.Index].K != AUnknown {
			return t[x.Index]
		}
		// result of an inlined helper that itself hands on a library call's results: what is known
		// about the value the helper's taken return yields
		if rv, _ := st.resolve(x, nil); rv != ssa.Value(x) {
			if a, ok := st.env[rv]; ok && a.K != AUnknown {
				return a
			}
		}
		if t, ok := st.tuple[x.Tuple]; ok && x.Index < len(t) {
			return t[x.Index]
		}
	case *ssa.Call:
		switch CalleeName(x) {
		case "fmt.Errorf", "errors.New":
			return AbsVal{K: ANonNil}
		case "builtin:append":
			if len(x.Call.Args) == 2 {
				return AbsVal{K: ANonEmpty}
			}
		case "builtin:len":
			if len(x.Call.Args) == 1 && s.abs(x.Call.Args[0], st).K == ANonEmpty {
				return AbsVal{K: ANonZero}
			}
		}
	}
	return AbsVal{}
}

// globalNonNil: package-level variable initialised once (in init) from errors.New / fmt.Errorf.
func (p *Program) globalNonNil(g *ssa.Global) bool {
	if g.Pkg == nil {
		return false
	}
	init := g.Pkg.Func("init")
	if init == nil {
		return false
	}
	ok := false
	instrsOf(init, func(in ssa.Instruction) {
		if st, isStore := in.(*ssa.Store); isStore && st.Addr == g {
			if c, isCall := stripConv(st.Val).(*ssa.Call); isCall {
				switch CalleeName(c) {
				case "errors.New", "fmt.Errorf":
					ok = true
				}
			}
		}
	})
	return ok
}

// resolveCallee finds the single Helios function a call transfers to, if any.
func (s *Spec) resolveCallee(x ssa.CallInstruction, st *walkState) *ssa.Function {
	if f := StaticFn(x); f != nil {
		return f
	}
	cc := x.Common()
	if !cc.IsInvoke() {
		if a := s.abs(cc.Value, st); a.Fn != nil {
			return a.Fn
		}
	}
	if s.P != nil {
		cs := s.P.Callees(x)
		var hel []*ssa.Function
		for _, c := range cs {
			if s.P.IsHelios(c) && c.Blocks != nil {
				hel = append(hel, c)
			}
		}
		if len(hel) == 1 && len(cs) == 1 {
			return hel[0]
		}
	}
	return nil
}

// doCall handles a synchronous call.  It returns true when it has taken over the continuation
// (because the path forked); false when the caller should simply continue with st.
func (s *Spec) doCall(fr *Frame, x *ssa.Call, st *walkState, cont func(*walkState), emit func(*Trace)) bool {
	name := CalleeName(x)
	if name == "builtin:recover" {
		if st.panicing {
			st.env[x] = AbsVal{K: ANonNil}
			st.recov = true
		} else {
			st.env[x] = AbsVal{K: ANil}
		}
		s.note(fr, x, st)
		return false
	}
	callee := s.resolveCallee(x, st)
	if callee != nil && callee.Blocks != nil && s.P.IsHelios(callee) && s.Expand != nil && s.Expand(callee, x) && fr.Depth < 12 {
		s.note(fr, x, st)
		sub := s.subFrame(fr, x, callee)
		var argAbs []AbsVal
		for _, a := range x.Call.Args {
			argAbs = append(argAbs, s.abs(a, st))
		}
		// closures capture variables: bindings are not tracked (unknown)
		subs := s.walkFn(sub, argAbs, false, st.facts)
		for _, t := range subs {
			w := st.clone()
			w.items = append(w.items, t.Items...)
			w.adopt(t.final)
			if t.Exit == ExitPanic {
				s.unwind(fr, w, x, emit)
				continue
			}
			if len(t.Ret) == 1 {
				w.env[x] = t.Ret[0]
				if r, isRet := t.RetInstr.(*ssa.Return); isRet && len(r.Results) == 1 {
					if w.callRet == nil {
						w.callRet = map[*ssa.Call]retSel{}
					}
					w.callRet[x] = retSel{v: r.Results[0], fr: sub}
				}
			} else if len(t.Ret) > 1 {
				w.tuple[x] = t.Ret
				if r, isRet := t.RetInstr.(*ssa.Return); isRet && len(r.Results) == len(t.Ret) {
					if w.tupleRet == nil {
						w.tupleRet = map[*ssa.Call][]retSel{}
					}
					var rs []retSel
					for _, rv := range r.Results {
						rs = append(rs, retSel{v: rv, fr: sub})
					}
					w.tupleRet[x] = rs
				}
			}
			w.facts = t.facts
			if s.RetLabel != nil {
				if l := s.RetLabel(callee); l != "" {
					var rs []string
					sig := callee.Signature.Results()
					for ri, r := range t.Ret {
						// a helper answering (context…, error): its verdict is the error
						if len(t.Ret) > 1 && ri < sig.Len() && sig.At(sig.Len()-1).Type().String() == "error" && ri != sig.Len()-1 {
							continue
						}
						rs = append(rs, r.String())
					}
					w.items = append(w.items, Item{Label: l + ":" + strings.Join(rs, ","), Instr: x, Frame: fr})
				}
			}
			cont(w)
		}
		return true
	}
	s.note(fr, x, st)
	if !pureCall(name) && s.mayWriteHelios(x) {
		st.facts = map[string]factVal{}
	}
	if s.MayPanic != nil && s.MayPanic(x) {
		w := st.clone()
		w.items = append(w.items, Item{Label: "panic-in:" + name, Instr: x, Frame: fr})
		s.unwind(fr, w, x, emit)
		cont(st)
		return true
	}
	return false
}

// unwind runs the deferred calls of the current frame in panicking mode and emits the exit.
func (s *Spec) unwind(fr *Frame, st *walkState, at ssa.Instruction, emit func(*Trace)) {
	st.panicing = true
	st.recov = false
	s.runDefers(fr, st, len(st.defers)-1, true, func(st2 *walkState, stillPanicking bool) {
		t := &Trace{Items: st2.items, RetInstr: at}
		if stillPanicking {
			t.Exit = ExitPanic
		} else {
			t.Exit = ExitNormal
			t.Recovered = true
			for range fr.Fn.Signature.Results().Len() {
				t.Ret = append(t.Ret, AbsVal{})
			}
			_ = t
		}
		emit(t)
	}, emit)
}

// runDefers executes deferred calls idx..0.  done receives the state after all of them.
func (s *Spec) runDefers(fr *Frame, st *walkState, idx int, panicking bool, done func(*walkState, bool), emit func(*Trace)) {
	if idx < 0 {
		done(st, panicking)
		return
	}
	d := st.defers[idx]
	callee := s.resolveCallee(d, st)
	if callee != nil && callee.Blocks != nil && s.P.IsHelios(callee) && s.Expand != nil && s.Expand(callee, d) {
		sub := s.subFrame(fr, d, callee)
		var argAbs []AbsVal
		for _, a := range d.Call.Args {
			argAbs = append(argAbs, s.abs(a, st))
		}
		subs := s.walkFn(sub, argAbs, panicking, st.facts)
		for _, t := range subs {
			w := st.clone()
			w.items = append(w.items, Item{Label: s.eventLabel(d, fr, "run:"), Instr: d, Frame: fr})
			if w.items[len(w.items)-1].Label == "" {
				w.items = w.items[:len(w.items)-1]
			}
			w.items = append(w.items, t.Items...)
			if t.facts != nil {
				w.facts = t.facts
			}
			p := panicking
			if t.Exit == ExitPanic {
				p = true
			} else if panicking && t.Recovered {
				p = false
			}
			s.runDefers(fr, w, idx-1, p, done, emit)
		}
		return
	}
	if l := s.eventLabel(d, fr, "run:"); l != "" {
		it := Item{Label: l, Instr: d, Frame: fr}
		// (arguments of a deferred call were evaluated when it was registered; resolving them now
		// gives the same values for everything but cells reassigned in between)
		for _, a := range d.Call.Args {
			rv, rf := st.resolve(a, fr)
			it.Args = append(it.Args, PathVal{V: rv, Fr: rf})
		}
		st.items = append(st.items, it)
	}
	if !pureCall(CalleeName(d)) && s.mayWriteHelios(d) {
		st.facts = map[string]factVal{}
	}
	s.runDefers(fr, st, idx-1, panicking, done, emit)
}

// eventLabel labels the execution of a deferred call: the rule's label for the instruction with a
// "run:" prefix replaced by the plain label (so `defer x.Done()` yields the same event as a call).
func (s *Spec) eventLabel(d *ssa.Defer, fr *Frame, prefix string) string {
	if s.Event == nil {
		return ""
	}
	return s.Event(d, fr)
}

// ---- helpers for rules --------------------------------------------------------------------

// uniqueStrings returns the sorted distinct strings.
func uniqueStrings(in []string) []string {
	m := map[string]bool{}
	for _, s := range in {
		m[s] = true
	}
	var out []string
	for s := range m {
		out = append(out, s)
	}
	sort.Strings(out)
	return out
}

func factsSig(f map[string]factVal) string {
	if len(f) == 0 {
		return ""
	}
	var ks []string
	for k, v := range f {
		ks = append(ks, fmt.Sprintf("%s=%v/%s/%v", k, v.eq, v.k, v.notEq))
	}
	sort.Strings(ks)
	return strings.Join(ks, ";")
}

// ---- path facts about memory locations -----------------------------------------------------
//
// Two loads of the same field of the same object (equal DescQ) agree as long as nothing on the
// path in between could have written it: a store to that field (any object), a lock operation
// (another goroutine may write once the lock is dropped), a map update, a `go`, or a call that
// is neither inlined nor known to be free of Helios-visible side effects.

type factVal struct {
	eq    bool
	k     string   // value the location is known to equal (when eq)
	notEq []string // values it is known to differ from
}

type factKeyT struct {
	loc  string // qualified location / expression
	k    string // constant compared with ("true" for plain boolean tests)
	isEq bool   // cond is loc == k (true) or loc != k (false)
}

func (s *Spec) factKey(cond ssa.Value, fr *Frame) (factKeyT, bool) {
	if s.P == nil {
		return factKeyT{}, false
	}
	neg := false
	for {
		u, ok := cond.(*ssa.UnOp)
		if !ok || u.Op != token.NOT {
			break
		}
		neg = !neg
		cond = u.X
	}
	var fk factKeyT
	if b, ok := cond.(*ssa.BinOp); ok && (b.Op == token.EQL || b.Op == token.NEQ) {
		x, y := b.X, b.Y
		if _, isC := x.(*ssa.Const); isC {
			x, y = y, x
		}
		kd := s.P.Desc(y, fr) // resolves parameters bound to constants at the call site
		if !strings.HasPrefix(kd, "k:") {
			x, y = y, x
			kd = s.P.Desc(y, fr)
			if !strings.HasPrefix(kd, "k:") {
				return fk, false
			}
		}
		fk = factKeyT{loc: s.P.DescQ(x, fr), k: strings.TrimPrefix(kd, "k:"), isEq: (b.Op == token.EQL) != neg}
	} else {
		fk = factKeyT{loc: s.P.DescQ(cond, fr), k: "true", isEq: !neg}
	}
	for _, bad := range []string{"call:", "now", "since(", "phi(", "next(", "range(", "<-", "dyn:", "…", "var:", "*ssa."} {
		if strings.Contains(fk.loc, bad) {
			return fk, false
		}
	}
	if !strings.Contains(fk.loc, "fld:") {
		return fk, false
	}
	return fk, true
}

func (fk factKeyT) lookup(facts map[string]factVal) (bool, bool) {
	f, ok := facts[fk.loc]
	if !ok {
		return false, false
	}
	if f.eq {
		return (f.k == fk.k) == fk.isEq, true
	}
	for _, n := range f.notEq {
		if n == fk.k {
			return !fk.isEq, true
		}
	}
	if fk.k == "true" || fk.k == "false" { // booleans: not one value means the other
		for _, n := range f.notEq {
			if (n == "true" || n == "false") && n != fk.k {
				return fk.isEq, true
			}
		}
	}
	return false, false
}

func (fk factKeyT) record(facts map[string]factVal, pol bool) {
	f := facts[fk.loc]
	if fk.isEq == pol {
		f = factVal{eq: true, k: fk.k}
	} else if !f.eq {
		f.notEq = append(append([]string(nil), f.notEq...), fk.k)
	}
	facts[fk.loc] = f
}

// storeFact: a field store invalidates what was known about that field (of any object) and, for
// constant values, establishes the new fact.
func (s *Spec) storeFact(fr *Frame, st *ssa.Store, w *walkState) {
	fa, ok := st.Addr.(*ssa.FieldAddr)
	if !ok {
		if _, isAlloc := st.Addr.(*ssa.Alloc); !isAlloc {
			w.facts = map[string]factVal{} // store through an unknown pointer
		}
		return
	}
	frf, ok := fieldRefOf(fa)
	if !ok || s.P == nil {
		return
	}
	tag := "fld:" + frf.Key() + "@"
	for k := range w.facts {
		if strings.Contains(k, tag) {
			delete(w.facts, k)
		}
	}
	if kd := s.P.Desc(st.Val, fr); strings.HasPrefix(kd, "k:") {
		s.P.qual = true
		loc := "fld:" + frf.Key() + "@(" + s.P.desc(fa.X, fr, 1) + ")"
		s.P.qual = false
		w.facts[loc] = factVal{eq: true, k: strings.TrimPrefix(kd, "k:")}
	}
}

// mayWriteHelios: can this opaque call run Helios code (and so change Helios fields)?  Without
// SeqFacts every call may, because other goroutines run meanwhile.
func (s *Spec) mayWriteHelios(site ssa.CallInstruction) bool {
	if !s.SeqFacts || s.P == nil {
		return true
	}
	if f := StaticFn(site); f != nil {
		return s.P.IsHelios(f)
	}
	for _, f := range s.P.Callees(site) {
		if s.P.IsHelios(f) {
			return true
		}
	}
	return false
}

// pureCall: callees that cannot write Helios-visible memory (so path facts survive them).
func pureCall(name string) bool {
	for _, p := range []string{"time.", "(time.", "strings.", "strconv.", "fmt.Sprint", "fmt.Errorf", "errors.", "builtin:len", "builtin:cap", "builtin:append",
		"builtin:recover", "net.ParseIP", "net.SplitHostPort", "net.ParseCIDR", "math.", "(*github.com/rs/zerolog.", "(github.com/rs/zerolog.",
		"github.com/0xReLogic/Helios/internal/logging.", "(net/http.Header).Get", "(*net/http.Request).Context", "(net.IP).", "(*net.IPNet).Contains",
		"hash/fnv.", "(hash.Hash32).", "bytes.", "(*bytes.Buffer).Len", "(*bytes.Buffer).Bytes", "net/http.Error", "(net/http.ResponseWriter).Header",
		"unicode", "sort."} {
		if strings.HasPrefix(name, p) {
			return true
		}
	}
	return false
}

// nilOnError: err was found non-nil.  When err is the error result of a library call that also
// returns a pointer ((*http.Client).Do, url.Parse, os.Open, …), that pointer is to be treated as nil
// on this path: the library's contract is "on error the other result is nil (or must be ignored)",
// so a dereference that is not preceded by its own nil test is a crash waiting for the fault.
func (s *Spec) nilOnError(errv ssa.Value, st *walkState) {
	rv, _ := st.resolve(errv, nil)
	ex, ok := rv.(*ssa.Extract)
	if !ok {
		return
	}
	call, ok := ex.Tuple.(*ssa.Call)
	if !ok {
		return
	}
	sig := call.Call.Signature()
	if sig == nil || sig.Results().Len() != 2 || ex.Index != 1 || sig.Results().At(1).Type().String() != "error" {
		return
	}
	if _, isPtr := sig.Results().At(0).Type().Underlying().(*types.Pointer); !isPtr {
		return
	}
	if callee := StaticFn(call); callee != nil && s.P != nil && s.P.IsHelios(callee) {
		return // a Helios helper: judged by its own returns when inlined
	}
	if refs := call.Referrers(); refs != nil {
		for _, r := range *refs {
			if e0, ok := r.(*ssa.Extract); ok && e0.Index == 0 {
				st.env[e0] = AbsVal{K: ANil}
			}
		}
	}
}
