package main

import (
	"encoding/json"
	"flag"
	"fmt"
	"os"
	"path/filepath"
	"sort"
	"strconv"
	"strings"
	"time"
)

var registry = map[string]func(c *Ctx){}

type multiFlag []string

func (m *multiFlag) String() string     { return strings.Join(*m, ";") }
func (m *multiFlag) Set(s string) error { *m = append(*m, s); return nil }

// buildOverlay applies textual replacements to copies of repo files held in memory.
func buildOverlay(repo string, muts []string) (map[string][]byte, error) {
	if len(muts) == 0 {
		return nil, nil
	}
	ov := map[string][]byte{}
	for _, m := range muts {
		sep := "|"
		if strings.Contains(m, "\x1f") {
			sep = "\x1f" // used by the self-test runner: Go source may contain '|'
		}
		parts := strings.SplitN(m, sep, 3)
		if len(parts) != 3 {
			return nil, fmt.Errorf("bad -mut %q", m)
		}
		path := filepath.Join(repo, parts[0])
		src, ok := ov[path]
		if !ok {
			b, err := os.ReadFile(path)
			if err != nil {
				return nil, err
			}
			src = b
		}
		if n := strings.Count(string(src), parts[1]); n != 1 {
			return nil, fmt.Errorf("%s: pattern occurs %d times (need exactly 1): %q", parts[0], n, parts[1])
		}
		ov[path] = []byte(strings.Replace(string(src), parts[1], parts[2], 1))
	}
	return ov, nil
}

func main() {
	prop := flag.String("prop", "", "property id (C01..C20)")
	tier := flag.String("tier", "", "quick|thorough")
	repo := flag.String("repo", "/repo", "repository root")
	verif := flag.String("verif", "/verif", "verif root")
	replay := flag.String("replay", "", "replay file: re-evaluate exactly that obligation")
	dump := flag.Bool("dump", false, "print all obligations")
	dumpCanonF := flag.String("dump-canon", "", "write the struct layouts of -repo to this file (canonical field table) and exit")
	asJSON := flag.Bool("json", false, "print the obligations as JSON and nothing else (used by the thorough tier's sub-runs)")
	tags := flag.String("tags", "", "build tags")
	dbg := flag.String("trace", "", "debug: print traces of a function (FuncKey)")
	ovDir := flag.String("overlay-dir", "", "self-test: directory holding replacement files (same relative paths as under the repo) to analyse instead of the files on disk")
	var muts multiFlag
	flag.Var(&muts, "mut", "debug/self-test: in-memory mutation 'relpath|old|new' (repeatable); files on disk are not touched")
	flag.Parse()
	if *dumpCanonF != "" {
		p, err := LoadProgram(*repo, nil, nil, "")
		if err == nil {
			err = dumpCanon(p, *dumpCanonF)
		}
		if err != nil {
			fmt.Println(err)
			os.Exit(2)
		}
		return
	}
	overlay, err := buildOverlay(*repo, muts)
	if err == nil && *ovDir != "" {
		if overlay == nil {
			overlay = map[string][]byte{}
		}
		err = filepath.Walk(*ovDir, func(path string, info os.FileInfo, werr error) error {
			if werr != nil || info.IsDir() || !strings.HasSuffix(path, ".go") {
				return werr
			}
			rel, _ := filepath.Rel(*ovDir, path)
			b, rerr := os.ReadFile(path)
			if rerr != nil {
				return rerr
			}
			overlay[filepath.Join(*repo, rel)] = b
			return nil
		})
	}
	if err != nil {
		if *asJSON {
			b, _ := json.Marshal(subResult{NotApplic: err.Error()})
			fmt.Println(string(b))
			return
		}
		fmt.Println("mutation not applicable:", err)
		os.Exit(3)
	}
	if *tier == "" {
		*tier = os.Getenv("VERIF_TIER")
	}
	if *tier != "thorough" {
		*tier = "quick"
	}
	seed, _ := strconv.ParseInt(os.Getenv("VERIF_SEED"), 10, 64)
	if *dbg != "" {
		p, err := LoadProgram(*repo, overlay, nil, "")
		if err != nil {
			fmt.Println(err)
			os.Exit(2)
		}
		debugTrace(p, *dbg)
		return
	}
	if strings.HasPrefix(*prop, "cb:") {
		p, err := LoadProgram(*repo, overlay, nil, "")
		if err != nil {
			fmt.Println(err)
			os.Exit(2)
		}
		debugCB(NewCtx(p, "dbg"), strings.TrimPrefix(*prop, "cb:"))
		return
	}
	run, ok := registry[*prop]
	if !ok {
		var ids []string
		for k := range registry {
			ids = append(ids, k)
		}
		sort.Strings(ids)
		fmt.Println("unknown property; have", ids)
		os.Exit(2)
	}
	t0 := time.Now()
	code := func() (code int) {
		p, err := LoadProgram(*repo, overlay, nil, *tags)
		if err != nil && *asJSON {
			b, _ := json.Marshal(subResult{LoadError: err.Error()})
			fmt.Println(string(b))
			return 0
		}
		if err != nil {
			// the tree does not type-check: fail closed
			fmt.Printf("  load failed: %v\n", err)
			fmt.Printf("VIOLATION property=%s replay=%s\n", *prop, "-")
			return 1
		}
		c := NewCtx(p, *prop)
		defer func() {
			if r := recover(); r != nil {
				fmt.Printf("  checker panic: %v\n", r)
				fmt.Printf("VIOLATION property=%s replay=%s\n", *prop, "-")
				code = 1
			}
		}()
		run(c)
		if *asJSON {
			b, _ := json.Marshal(subResult{Obs: c.Obs})
			fmt.Println(string(b))
			return 0
		}
		if *dump {
			for _, o := range c.Obs {
				fmt.Printf("%-9s %-32s %-70s %s  %s\n", o.Status, o.Rule, o.Construct, o.Pos, o.Detail)
			}
		}
		if *replay != "" {
			return doReplay(c, *replay)
		}
		extra := map[string]interface{}{}
		broken := 0
		if *tier == "thorough" {
			broken = thorough(c, *repo, *verif, extra)
		}
		code = c.Finish(*verif, *tier, seed, time.Since(t0).Seconds(), extra)
		if code == 0 && broken > 0 {
			fmt.Printf("BROKEN-CHECK: %d self-test failures (the verdict on /repo above stands, but the checker did not behave as specified on its self test)\n", broken)
			return 2
		}
		return code
	}()
	os.Exit(code)
}
