package main

import (
	"flag"
	"fmt"
	"os"
	"sort"
	"strconv"
	"time"
)

var registry = map[string]func(c *Ctx){}

func main() {
	prop := flag.String("prop", "", "property id (C01..C20)")
	tier := flag.String("tier", "", "quick|thorough")
	repo := flag.String("repo", "/repo", "repository root")
	verif := flag.String("verif", "/verif", "verif root")
	replay := flag.String("replay", "", "replay file: re-evaluate exactly that obligation")
	dump := flag.Bool("dump", false, "print all obligations")
	flag.Parse()
	if *tier == "" {
		*tier = os.Getenv("VERIF_TIER")
	}
	if *tier != "thorough" {
		*tier = "quick"
	}
	seed, _ := strconv.ParseInt(os.Getenv("VERIF_SEED"), 10, 64)
	run, ok := registry[*prop]
	if !ok {
		var ids []string
		for k := range registry {
			ids = append(ids, k)
		}
		sort.Strings(ids)
		fmt.Println("unknown property; have", ids)
		os.Exit(2)
	}
	t0 := time.Now()
	code := func() (code int) {
		p, err := LoadProgram(*repo, nil, nil, "")
		if err != nil {
			// the tree does not type-check: fail closed
			fmt.Printf("  load failed: %v\n", err)
			fmt.Printf("VIOLATION property=%s replay=%s\n", *prop, "-")
			return 1
		}
		c := NewCtx(p, *prop)
		defer func() {
			if r := recover(); r != nil {
				fmt.Printf("  checker panic: %v\n", r)
				fmt.Printf("VIOLATION property=%s replay=%s\n", *prop, "-")
				code = 1
			}
		}()
		run(c)
		if *dump {
			for _, o := range c.Obs {
				fmt.Printf("%-9s %-32s %-70s %s  %s\n", o.Status, o.Rule, o.Construct, o.Pos, o.Detail)
			}
		}
		if *replay != "" {
			return doReplay(c, *replay)
		}
		extra := map[string]interface{}{}
		if *tier == "thorough" {
			thorough(c, *repo, *verif, extra)
		}
		return c.Finish(*verif, *tier, seed, time.Since(t0).Seconds(), extra)
	}()
	os.Exit(code)
}
