package main

import (
	"fmt"
	"go/types"
	"sort"
	"strings"

	"golang.org/x/tools/go/ssa"
)

func init() {
	registry["C14"] = checkC14
	registry["C15"] = checkC15
}

func (c *Ctx) wrapperNamed(key string) *Wrapper {
	for _, w := range c.wrappers() {
		if w.Key == key {
			return w
		}
	}
	return nil
}

// numericOptionTypes: the dynamic types a function accepts (comma-ok assertions / type switch) for
// option values taken from a map[string]interface{}; also reports panicking assertions.
func (c *Ctx) optionAssertions(fn *ssa.Function) (accepted map[string]bool, panicking []string) {
	accepted = map[string]bool{}
	instrsOf(fn, func(in ssa.Instruction) {
		ta, ok := in.(*ssa.TypeAssert)
		if !ok {
			return
		}
		if !ta.CommaOk {
			panicking = append(panicking, c.P.InstrPos(ta)+": "+ta.AssertedType.String())
			return
		}
		accepted[ta.AssertedType.String()] = true
	})
	return
}

func checkC14(c *Ctx) {
	p := c.P
	c.Clause("next.ServeHTTP is reached only on the ContentLength ≤ max_request_body edge; the > edge answers 413 and stops; the body handed on is http.MaxBytesReader(w, r.Body, max_request_body)")
	c.Clause("limitedResponseWriter.Write forwards only while written+len(b) ≤ limit, advances written by the forwarded count, latches limitReached, and writes 413 only before the header went out")
	c.Clause("the recorded status is delivered on every completion path: by Write, by Flush and after the handler returns without a body")
	c.Clause("Hijack and Flush are forwarded")
	c.Clause("both limits accept int/int64/float64 and reject ≤ 0")
	c.Clause("a response is refused (413, latch) only on a path that found written+len(b) > limit — never for a declared length alone (HEAD, 304) — and the 413 is flushed at once, because the failing Write makes the reverse proxy abort the connection and net/http drops a status that is only buffered")
	c.Clause("a later status replaces an earlier unsent one (1xx then final); Write does not retain the caller's slice; exchanges within the limits leave status, headers and body calls untouched")
	c.NotDecided("all partitions of a body into writes (each Write is checked against the running total); behaviour of http.MaxBytesReader")

	w := c.wrapperNamed("plugins.limitedResponseWriter")
	if w == nil {
		c.Missing("wrapper-classified", "plugins.limitedResponseWriter")
		return
	}
	c.rwForwarding([]*Wrapper{w}, true, true, nil)
	c.rwHeaderTypestate(w)

	// 1. request bound
	c.requestBound(w)

	// 2. response budget
	wr := w.Methods["Write"]
	sp := c.rwSpec(w)
	c.traceRule("response-budget", w.Key+".Write", wr, sp,
		"bytes are forwarded only while written+len(b) ≤ limit; written advances by the forwarded count; once exceeded every Write fails without forwarding; 413 only while the header is unsent",
		func(t *Trace) string {
			latched := false
			for _, it := range t.Items {
				if _, isIf := it.Instr.(*ssa.If); isIf {
					if o, ok := c.condRel(it).Orient("fld:"+w.Key+".limitReached", ""); ok && o.Y == "" && o.Lo == 1 && o.Hi == 1 {
						latched = true
					}
				}
			}
			fwd := t.Index("emb:Write", 0)
			errRet := len(t.Ret) == 2 && t.Ret[1].K == ANonNil
			if latched {
				if fwd >= 0 {
					return "bytes forwarded after the limit was reached"
				}
				if !errRet {
					return "Write after the limit was reached does not fail"
				}
				return ""
			}
			r, ri, ok := c.findRel(t, "fld:"+w.Key+".written + len(", "fld:"+w.Key+".limit", 0, -1)
			if !ok {
				return "running total is never compared with the limit"
			}
			within := r.Lo == negInf && r.Hi == 0
			if !within && !(r.Lo == 1 && r.Hi == posInf) {
				return "budget test is not written+len(b) ≤ limit: " + r.String()
			}
			if within {
				if fwd < ri {
					return "within-budget bytes are not forwarded (after the check)"
				}
				adv := false
				for _, it := range t.Items[fwd:] {
					if strings.HasPrefix(it.Label, "store written := (fld:"+w.Key+".written + ") && strings.Contains(it.Label, "ResponseWriter).Write(") {
						adv = true
					}
				}
				if !adv {
					return "written is not advanced by the number of bytes the embedded Write reported"
				}
				return ""
			}
			if fwd >= 0 {
				return "over-budget bytes are forwarded"
			}
			if !t.Has("store limitReached := k:true") {
				return "exceeding the limit does not latch limitReached"
			}
			if !errRet {
				return "over-budget Write does not fail"
			}
			for i, it := range t.Items {
				if strings.HasPrefix(it.Label, "emb:WriteHeader(") {
					if it.Label != "emb:WriteHeader(k:413)" {
						return "over-budget path sends a status other than 413"
					}
					if o, _, ok := c.findRel(t, "fld:"+w.Key+".wroteHeader", "", 0, i); !ok || !(o.Lo == 0 && o.Hi == 0) {
						return "413 is sent without checking that the header is still unsent"
					}
					// … and it has to reach the client: the Write that follows fails, on which the reverse
					// proxy (the end of every chain) aborts the connection with http.ErrAbortHandler and
					// net/http discards whatever header it had only buffered
					flushed := false
					for _, later := range t.Items[i+1:] {
						if later.Label == "emb:Flush" {
							flushed = true
						}
						// (a writer that is no http.Flusher has nothing to flush)
						if ifi, isIf := later.Instr.(*ssa.If); isIf && !later.Pol {
							if ex, isEx := ifi.Cond.(*ssa.Extract); isEx && ex.Index == 1 {
								if ta, isTA := ex.Tuple.(*ssa.TypeAssert); isTA && ta.AssertedType.String() == "net/http.Flusher" {
									flushed = true
								}
							}
						}
					}
					if !flushed {
						return "the 413 is written but not flushed: behind the reverse proxy the failed Write aborts the connection and the buffered status is thrown away — the client sees the connection close instead of 413"
					}
				}
			}
			return ""
		})

	// 2a'. the response is refused only for bytes that are really there: every path of every method
	//      that answers 413 or latches the limit has found written+len(b) over the limit.  A declared
	//      Content-Length is not a body (HEAD, 304 carry one without sending a byte).
	var mnames []string
	for n, m := range w.Methods {
		// entry points only: unexported helpers are judged inlined into the methods that call them
		if m.Object() != nil && m.Object().Exported() {
			mnames = append(mnames, n)
		}
	}
	sort.Strings(mnames)
	for _, n := range mnames {
		c.traceRule("refused-only-for-bytes", w.Key+"."+n, w.Methods[n], c.rwSpec(w),
			"413 is sent / the limit is latched only on paths that found written+len(b) > limit",
			func(t *Trace) string {
				refusal := ""
				for _, it := range t.Items {
					if it.Label == "emb:WriteHeader(k:413)" || it.Label == "store limitReached := k:true" || it.Label == "status:413" {
						refusal = it.Label
					}
				}
				if refusal == "" {
					return ""
				}
				if r, _, ok := c.findRel(t, "fld:"+w.Key+".written + len(", "fld:"+w.Key+".limit", 0, -1); ok && r.Pred == "" && r.Lo >= 1 {
					return ""
				}
				return "the response is refused (" + refusal + ") on a path that has not found written+len(b) over the limit: a response that only declares a large Content-Length and sends no body (HEAD, 304) is within the limits and must pass unchanged"
			})
	}

	// 2b. within the limits the exchange is left alone: the recorded status goes out as recorded, no
	//     header is touched, the limit is not latched
	fns := map[string]*ssa.Function{w.Key + ".Write": wr}
	if f := w.Methods["Flush"]; f != nil {
		fns[w.Key+".Flush"] = f
	}
	for _, cr := range w.Creators {
		fns[w.Key+"@"+p.FuncKey(cr)] = cr
	}
	for _, key := range sortedKeys(fns) {
		c.traceRule("within-limits-untouched", key, fns[key], c.rwSpec(w),
			"on every path that stays within the byte budget the status sent is the recorded one (200 by default), no response header is mutated and the limit is not latched",
			func(t *Trace) string {
				if r, _, ok := c.findRel(t, "fld:"+w.Key+".written + len(", "fld:"+w.Key+".limit", 0, -1); ok && r.Lo >= 1 {
					return "" // over budget: judged by response-budget
				}
				if t.Has("status:413") {
					return "" // over-limit request: judged by request-bound
				}
				for _, it := range t.Items {
					if _, isIf := it.Instr.(*ssa.If); isIf {
						if o, ok := c.condRel(it).Orient("fld:"+w.Key+".limitReached", ""); ok && o.Y == "" && o.Lo == 1 && o.Hi == 1 {
							return "" // already latched by an earlier over-budget write
						}
					}
				}
				start := t.Index("next", 0) + 1 // in the creating closure: what happens once the handler ran
				for _, it := range t.Items[start:] {
					switch {
					case strings.HasPrefix(it.Label, "emb:WriteHeader("):
						if it.Label != "emb:WriteHeader(fld:"+w.Key+".statusCode)" {
							return "a response within the limits is sent with a status other than the recorded one: " + it.Label
						}
					case strings.HasPrefix(it.Label, "store statusCode := "):
						if v := strings.TrimPrefix(it.Label, "store statusCode := "); v != "k:200" && !strings.HasPrefix(v, "param:") {
							return "the recorded status is overwritten (" + v + ") although the byte budget is not exceeded (bodiless responses such as HEAD/304 with a large declared length are rewritten)"
						}
					case it.Label == "store limitReached := k:true":
						return "the limit is latched on a path that does not exceed the byte budget"
					case strings.HasPrefix(it.Label, "hdr:"):
						return "size_limit mutates a response header of a response within the limits: " + it.Label
					}
				}
				return ""
			})
	}

	// 5. option parsing
	c.byteLimitOptions()
}

func wrapEvent(base func(ssa.Instruction, *Frame) string, extra func(ssa.Instruction, *Frame) string) func(ssa.Instruction, *Frame) string {
	return func(in ssa.Instruction, fr *Frame) string {
		if l := extra(in, fr); l != "" {
			return l
		}
		return base(in, fr)
	}
}

var yamlNumberTypes = []string{"int", "int64", "float64"}

func (c *Ctx) byteLimitOptions() {
	p := c.P
	fn := c.byteLimitParser()
	construct := "plugins.parseByteLimit"
	if fn == nil {
		c.Missing("option-number-types", construct)
		return
	}
	acc, pan := map[string]bool{}, []string{}
	seenF := map[*ssa.Function]bool{}
	var visitF func(f *ssa.Function)
	visitF = func(f *ssa.Function) {
		if seenF[f] {
			return
		}
		seenF[f] = true
		a, pn := c.optionAssertions(f)
		for k := range a {
			acc[k] = true
		}
		pan = append(pan, pn...)
		for _, ci := range callsIn(f) {
			if g := StaticFn(ci); g != nil && p.IsHelios(g) && fnPkg(g) == fnPkg(f) {
				visitF(g)
			}
		}
	}
	visitF(fn)
	var missing []string
	for _, t := range yamlNumberTypes {
		if !acc[t] {
			missing = append(missing, t)
		}
	}
	c.Check(len(missing) == 0 && len(pan) == 0, "option-number-types", construct, p.Pos(fn.Pos()),
		"accepts int, int64 and float64 (what yaml.v3 / JSON produce) through checked assertions",
		fmt.Sprintf("numeric option does not accept %v / uses panicking assertions %v", missing, pan))
	sp := &Spec{Cond: p.anyCondLabel(), Expand: func(*ssa.Function, ssa.CallInstruction) bool { return false }}
	c.traceRule("option-range", construct, fn, sp, "a configured limit is accepted only when it is ≥ 1; every other value is an error",
		func(t *Trace) string {
			if len(t.Ret) != 2 {
				return "undecided: unexpected result arity"
			}
			okRet := t.Ret[1].K == ANil
			// default path: key absent
			for _, it := range t.Items {
				if strings.Contains(it.Label, "param:cfg[param:key]#1") && !it.Pol {
					if !okRet {
						return "absent option is an error"
					}
					return ""
				}
			}
			var rng Rel
			have := false
			for _, it := range t.Items {
				if _, isIf := it.Instr.(*ssa.If); !isIf {
					continue
				}
				r := c.condRel(it)
				if r.Pred == "" && r.Y == "" && !r.Neq && (r.Lo != negInf || r.Hi != posInf) && !strings.HasSuffix(r.X, "#1") &&
					(strings.Contains(r.X, "phi(") || strings.Contains(r.X, "param:cfg[param:key]")) && (r.Lo <= 1 && r.Lo >= -1 || r.Hi <= 1 && r.Hi >= -1) {
					rng, have = r, true
				}
			}
			if !have {
				if okRet {
					return "a configured value is accepted without a range check"
				}
				return ""
			}
			positive := rng.Lo == 1 && rng.Hi == posInf
			if !positive && !(rng.Lo == negInf && rng.Hi == 0) {
				return "range test is not limit ≤ 0: " + rng.String()
			}
			if positive != okRet {
				if okRet {
					return "non-positive limit accepted"
				}
				return "positive limit rejected"
			}
			return ""
		})
}

// ---- C15 -------------------------------------------------------------------------------------

func checkC15(c *Ctx) {
	p := c.P
	c.Clause("no response header is mutated after the header block may have been committed; on the compressed path Content-Encoding: gzip is set and Content-Length deleted before the status goes out")
	c.Clause("gzip.NewWriterLevel is reached only when: Accept-Encoding contained the gzip token, len(body) ≥ min_size, the content type matched, the buffer cap was not exceeded, and the response's own Content-Encoding was found empty (the value itself, not a predicate over known codings)")
	c.Clause("every other path writes the buffered body to the embedded writer unchanged, exactly once, with no header mutation")
	c.Clause("Hijack/Flush forwarded; level range −1..9; numeric options accept int/int64/float64")
	c.Clause("an empty body (204, 304, reply to HEAD) is never compressed, whatever min_size says; above the buffering cap everything buffered and everything that follows is passed through, in order, after the recorded status")
	c.Clause("the recorded status is delivered on every completion path and a later status replaces an earlier unsent one; the buffer starts empty per request; Write copies the caller's bytes")
	c.Clause("the gzip writer's header fields (Name, Comment, …) are never set: compress/gzip refuses non-Latin-1 header strings with the first Write, after the status has gone out")
	c.NotDecided("that gzip output inflates to the input (compress/gzip trusted); incompressible payloads; q-values in Accept-Encoding")

	w := c.wrapperNamed("plugins.gzipResponseWriter")
	if w == nil {
		c.Missing("wrapper-classified", "plugins.gzipResponseWriter")
		return
	}
	c.gzipHeaderUntouched()
	c.rwForwarding([]*Wrapper{w}, true, true, nil)
	c.rwHeaderTypestate(w)
	if len(w.Creators) == 0 {
		c.Missing("compress-eligibility", "plugins.gzip/handler")
	}
	wf := c.analyseWrapper(w)
	for _, cr := range w.Creators {
		ckey := w.Key + "@" + p.FuncKey(cr)
		sp := c.rwSpec(w)
		c.traceRuleSplit("compress-eligibility", ckey, cr, sp,
			"compressed ⇒ every eligibility test passed and the headers describe gzip before the commit; not compressed ⇒ the buffered body is delivered unchanged exactly once",
			func(t *Trace) (string, string) {
				ni := t.Index("next", 0)
				if ni < 0 {
					if t.Has("next-unwrapped") {
						if r, _, ok := c.findRel(t, "shouldCompress", "", 0, -1); !ok || r.Lo != 0 {
							return "bypass", "handler invoked without the gzip writer although the client accepts gzip"
						}
						return "bypass", ""
					}
					return "", ""
				}
				if c.infeasibleAfter(w, wf, t, ni) {
					return "", ""
				}
				if r, _, ok := c.findRel(t, "shouldCompress", "", 0, ni); !ok || r.Lo != 1 {
					return "compressed", "gzip writer installed without the client having listed gzip in Accept-Encoding"
				}
				gi := t.Index("gzip-writer", ni)
				if gi < 0 {
					// identity delivery
					n := 0
					for _, it := range t.Items[ni:] {
						if it.Label == "emb:Write" {
							n++
						}
						if strings.HasPrefix(it.Label, "hdr:") {
							return "identity", "headers changed on a path that delivers the body uncompressed: " + it.Label
						}
						if it.Label == "gzip-write" {
							return "identity", "undecided: gzip write without a gzip writer"
						}
					}
					streamed := false
					if r, _, ok := c.findRel(t, "fld:"+w.Key+".bufferExceeded", "", ni, -1); ok && r.Lo == 1 {
						streamed = true
					}
					if !streamed && n != 1 {
						return "identity", fmt.Sprintf("buffered body written %d times on an uncompressed path", n)
					}
					return "identity", ""
				}
				// "non-empty": an empty body (204, 304, the reply to a HEAD) is never compressed — zero bytes
				// labelled gzip are not a gzip stream, and a HEAD reply would advertise the length of a
				// compressed nothing instead of the resource's; min_size may be configured as 0
				need := map[string]bool{"min-size": false, "content-type": false, "not-encoded": false, "not-streamed": false, "non-empty": false}
				for _, it := range t.Items[ni:gi] {
					if _, isIf := it.Instr.(*ssa.If); !isIf {
						continue
					}
					r := c.condRel(it)
					if strings.HasPrefix(r.X, "len(") && r.Y == "" && r.Pred == "" && !strings.Contains(r.X, "phi(") {
						if r.Lo >= 1 || (r.Neq && r.Lo == 0 && r.Hi == 0) {
							need["non-empty"] = true
						}
					}
					if o, ok := r.Orient("len(", "fld:"+w.Key+".minSize"); ok && o.Pred == "" {
						if strings.Contains(o.X, "phi(") || !strings.HasPrefix(o.X, "len(") {
							// the quantity compared is the buffered length on some paths only (a declared
							// Content-Length, say, on the others): it says nothing about the bytes at hand
							return "compressed", "the size test compares a value that is not always the length of the buffered body (" + o.X + "): a response that declares a length ≥ min_size but carries fewer bytes (HEAD, 304) is compressed"
						}
						if o.Lo == 0 && o.Hi == posInf {
							need["min-size"] = true
						} else {
							return "compressed", "size test is not len(body) ≥ min_size: " + o.String()
						}
					}
					if strings.Contains(r.X, "matchesContentType(") && r.Lo == 1 {
						need["content-type"] = true
					}
					if strings.Contains(r.X, `k:"Content-Encoding"`) && strings.Contains(r.X, "Header).Get(") {
						// the value itself found empty — not some predicate over it (a table of known
						// codings lets an unknown one, zstd, through and gzips it on top)
						if r.Y == `k:""` && r.Pred == "" && !r.Neq && r.Lo == 0 && r.Hi == 0 && strings.HasPrefix(r.X, "call:(net/http.Header).Get(") {
							need["not-encoded"] = true
						}
					}
					if o, ok := r.Orient("fld:"+w.Key+".bufferExceeded", ""); ok && o.Y == "" && o.Lo == 0 && o.Hi == 0 {
						need["not-streamed"] = true
					}
				}
				var missing []string
				for k, v := range need {
					if !v {
						missing = append(missing, k)
					}
				}
				sort.Strings(missing)
				if len(missing) > 0 {
					return "compressed", "body is compressed without the eligibility test(s): " + strings.Join(missing, ", ")
				}
				commit := -1
				for i := ni; i < len(t.Items); i++ {
					if isCommit(t.Items[i].Label) {
						commit = i
						break
					}
				}
				ce, cl := false, false
				for i := ni; i < len(t.Items) && (commit < 0 || i < commit); i++ {
					if t.Items[i].Label == `hdr:Set(k:"Content-Encoding")` {
						if ci, ok := t.Items[i].Instr.(ssa.CallInstruction); ok {
							if v, _ := constStr(ci.Common().Args[2]); v == "gzip" {
								ce = true
							}
						}
					}
					if t.Items[i].Label == `hdr:Del(k:"Content-Length")` {
						cl = true
					}
				}
				if !ce || !cl {
					return "compressed", "compressed bytes are sent without Content-Encoding: gzip being set and Content-Length removed before the header is committed"
				}
				if commit < 0 {
					return "compressed", "compressed path never sends the status line"
				}
				if !t.Has("gzip-write") {
					if r, _, ok := c.findRel(t, "NewWriterLevel", "", gi, -1); !ok || !(r.Neq || r.Lo != 0) {
						return "compressed", "gzip writer created but the body is not written through it"
					}
				}
				for _, it := range t.Items[gi:] {
					if it.Label == "emb:Write" {
						return "compressed", "uncompressed bytes written to the client on the compressed path"
					}
				}
				return "compressed", ""
			})
	}
	// the accumulation buffer belongs to this response only
	c.bufferStartsEmpty(w)
	// buffer cap in Write
	c.traceRule("buffer-cap", w.Key+".Write", w.Methods["Write"], c.rwSpec(w),
		"bytes are buffered only while buffered+len(b) ≤ cap; beyond it the header is sent and everything is streamed uncompressed",
		func(t *Trace) string {
			r, _, ok := c.findRel(t, "Buffer).Len(", "", 0, -1)
			if !ok {
				if c.flagTrueByTest(w, t, "bufferExceeded", len(t.Items)) && t.Has("emb:Write") && !t.Has("buffer-write") {
					return "" // already streaming: pass through
				}
				return "buffered size is never compared with the cap"
			}
			over := r.Lo > 0 && r.Hi == posInf
			if !over && !(r.Lo == negInf && r.Hi > 0) {
				return "cap test has an unexpected shape: " + r.String()
			}
			if over {
				if !t.Has("emb:Write") {
					return "over-cap bytes are neither buffered nor streamed"
				}
				if !c.flagTrue(w, t, "bufferExceeded", -1) {
					return "streaming fallback does not latch bufferExceeded (Finish would compress a partial buffer)"
				}
			} else if t.Has("emb:Write") && !c.flagTrueByTest(w, t, "bufferExceeded", len(t.Items)) {
				return "bytes streamed although the buffer cap was not exceeded"
			}
			// nothing may be buffered once the response is being streamed: Finish would never send it
			if t.Has("buffer-write") {
				tested := false
				for _, it := range t.Items {
					if _, isIf := it.Instr.(*ssa.If); isIf {
						if o, ok := c.condRel(it).Orient("fld:"+w.Key+".bufferExceeded", ""); ok && o.Y == "" && !o.Neq && o.Lo == 0 && o.Hi == 0 {
							tested = true
						}
					}
				}
				if !tested {
					return "bytes are buffered without checking that the response is not already being streamed (after the cap was exceeded a later small write is buffered and never delivered: the response loses its tail)"
				}
			}
			return ""
		})
	// option parsing
	pg := c.gzipOptionParser()
	if pg == nil {
		c.Missing("option-number-types", "plugins.parseGzipConfig")
	} else {
		acc, pan := map[string]bool{}, []string{}
		seen := map[*ssa.Function]bool{}
		var visit func(fn *ssa.Function)
		visit = func(fn *ssa.Function) {
			if seen[fn] {
				return
			}
			seen[fn] = true
			a, pn := c.optionAssertions(fn)
			for k := range a {
				acc[k] = true
			}
			pan = append(pan, pn...)
			for _, ci := range callsIn(fn) {
				if f := StaticFn(ci); f != nil && p.IsHelios(f) && fnPkg(f) == fnPkg(fn) {
					visit(f)
				}
			}
		}
		visit(pg)
		var missing []string
		for _, t := range yamlNumberTypes {
			if !acc[t] {
				missing = append(missing, t)
			}
		}
		c.Check(len(missing) == 0 && len(pan) == 0, "option-number-types", "plugins.parseGzipConfig", p.Pos(pg.Pos()),
			"level and min_size accept int, int64 and float64 through checked assertions",
			fmt.Sprintf("gzip numeric options do not accept %v (yaml.v3 decodes `level: 5` as int) / panicking assertions %v", missing, pan))
		sp := &Spec{Cond: p.condMentions("level", "configInt"), Expand: expandOnly("configInt")}
		c.traceRule("option-range", "plugins.parseGzipConfig/level", pg, sp, "level is accepted only within −1..9",
			func(t *Trace) string {
				if len(t.Ret) != 4 || t.Ret[3].K != ANil {
					return ""
				}
				lo, hi := false, false
				for _, it := range t.Items {
					if _, isIf := it.Instr.(*ssa.If); !isIf {
						continue
					}
					r := c.condRel(it)
					if r.Pred != "" || r.Y != "" || !strings.Contains(r.X, `k:"level"`) {
						continue
					}
					if r.Lo == -1 && r.Hi == posInf {
						lo = true
					}
					if r.Lo == negInf && r.Hi == 9 {
						hi = true
					}
				}
				if !lo || !hi {
					return "configuration accepted without level ≥ −1 ∧ level ≤ 9 having been established"
				}
				return ""
			})
	}
	// Accept-Encoding token test
	cg := c.acceptEncodingFn()
	if cg == nil {
		c.Missing("accept-encoding-token", "plugins.containsGzip")
	} else {
		sp := &Spec{Cond: p.anyCondLabel(), Expand: func(*ssa.Function, ssa.CallInstruction) bool { return false }}
		c.traceRule("accept-encoding-token", "plugins.containsGzip", cg, sp, "true only when some listed token equals gzip",
			func(t *Trace) string {
				if len(t.Ret) != 1 {
					return "undecided: arity"
				}
				if t.Ret[0].K == ATrue {
					for _, it := range t.Items {
						if ifi, ok := it.Instr.(*ssa.If); ok && it.Pol {
							if b, ok := ifi.Cond.(*ssa.BinOp); ok && b.Op.String() == "==" {
								if s, ok := constStr(b.Y); ok && s == "gzip" {
									return ""
								}
							}
						}
					}
					return "reports gzip as accepted without a token equal to \"gzip\""
				}
				if t.Ret[0].K != AFalse {
					return "undecided: non-constant result"
				}
				return ""
			})
	}
	_ = types.Typ
}

// bufferStartsEmpty: the buffer a response is accumulated in is created for that response (zero
// value / fresh allocation) or is reset on every path before the downstream handler runs.
func (c *Ctx) bufferStartsEmpty(w *Wrapper) {
	p := c.P
	fr := p.Freshness()
	// the buffer fields are found by type (bytes.Buffer or a pointer to one), not by name
	bufField := map[string]bool{}
	ptrBuf := false
	if st, _ := w.Named.Underlying().(*types.Struct); st != nil {
		for i := 0; i < st.NumFields(); i++ {
			t := st.Field(i).Type()
			if pt, isPtr := t.Underlying().(*types.Pointer); isPtr {
				if QualType(namedOf(pt.Elem())) == "bytes.Buffer" {
					bufField[w.Key+"."+canonFieldName(w.Named, st.Field(i).Name())] = true
					ptrBuf = true
				}
			} else if QualType(namedOf(t)) == "bytes.Buffer" {
				bufField[w.Key+"."+canonFieldName(w.Named, st.Field(i).Name())] = true
			}
		}
	}
	if len(bufField) == 0 {
		return
	}
	for _, cr := range w.Creators {
		ckey := w.Key + "@" + p.FuncKey(cr)
		var stores []*ssa.Store
		instrsOf(cr, func(in ssa.Instruction) {
			if k, st := storeKey(in); bufField[k] {
				stores = append(stores, st)
			}
		})
		if len(stores) == 0 {
			// value-typed field of a fresh composite literal: zero value, nothing shared
			shared := ptrBuf // pointer field never assigned here: assigned elsewhere?
			c.Check(!shared, "buffer-starts-empty", ckey, p.Pos(cr.Pos()), "the response buffer is a value field of a freshly allocated writer (empty)", "the response buffer is a pointer that this constructor never initialises")
			continue
		}
		var bad []string
		for _, st := range stores {
			pooled := false
			if call, ok := rootOf(st.Val).(*ssa.Call); ok && CalleeName(call) == "(*sync.Pool).Get" {
				pooled = true // thread-local, but it keeps whatever its previous user left in it
			}
			if fr.IsFresh(st.Val, 0) && !pooled {
				continue
			}
			// not fresh (pooled / shared): a Reset on it must dominate the handler call
			reset := false
			var next ssa.Instruction
			instrsOf(cr, func(in ssa.Instruction) {
				if ci, ok := in.(ssa.CallInstruction); ok {
					switch CalleeName(ci) {
					case "(*bytes.Buffer).Reset":
						if call, isCall := ci.(*ssa.Call); isCall && rootOf(ci.Common().Args[0]) == rootOf(st.Val) {
							if next == nil {
								reset = reset || true
								_ = call
							}
						}
					case "(net/http.Handler).ServeHTTP":
						if next == nil {
							next = in
						}
					}
				}
			})
			// order matters: the reset must come before the handler call on every path
			resetDominates := false
			instrsOf(cr, func(in ssa.Instruction) {
				if call, ok := in.(*ssa.Call); ok && CalleeName(call) == "(*bytes.Buffer).Reset" && rootOf(call.Call.Args[0]) == rootOf(st.Val) && next != nil {
					if call.Block().Dominates(next.Block()) && (call.Block() != next.Block() || valueIndex(call) < valueIndex(next)) {
						resetDominates = true
					}
				}
			})
			if !resetDominates {
				bad = append(bad, p.InstrPos(st)+": the response buffer comes from "+p.Desc(st.Val, nil)+" (not created for this response) and is not reset before the handler runs: bytes left by an earlier, aborted response are delivered with this one")
			}
			_ = reset
		}
		if len(bad) == 0 {
			c.Pass("buffer-starts-empty", ckey, p.Pos(cr.Pos()), "the response buffer is fresh or reset before use")
		} else {
			c.Fail("buffer-starts-empty", ckey, p.Pos(cr.Pos()), bad[0], bad...)
		}
	}
}

// requestBound: C14 clause 1 (also a clause of C17: size_limit's rejection applies to every request —
// no method, header or framing exempts one from the length test and the MaxBytesReader).
func (c *Ctx) requestBound(w *Wrapper) {
	p := c.P
	if len(w.Creators) == 0 {
		c.Missing("request-bound", "plugins.newSizeLimitMiddleware/handler")
	}
	for _, cr := range w.Creators {
		sp := c.rwSpec(w)
		sp.Event = wrapEvent(sp.Event, func(in ssa.Instruction, fr *Frame) string {
			if k, st := storeKey(in); k == "http.Request.Body" {
				return "store Request.Body := " + p.Desc(st.Val, fr)
			}
			return ""
		})
		c.traceRule("request-bound", w.Key+"@"+p.FuncKey(cr), cr, sp,
			"the handler is reached only with ContentLength − limit ≤ 0 and a MaxBytesReader(limit) body; the over-limit edge answers 413 and stops",
			func(t *Trace) string {
				r, ri, ok := c.findRel(t, "http.Request.ContentLength", "max_request_body", 0, -1)
				if !ok {
					return "declared Content-Length is never compared with max_request_body"
				}
				over := r.Lo == 1 && r.Hi == posInf
				if !over && !(r.Lo == negInf && r.Hi == 0) {
					return "request limit test is not ContentLength > max_request_body: " + r.String()
				}
				ni := t.Index("next", 0)
				if over {
					if ni >= 0 {
						return "over-limit request still reaches the next handler"
					}
					if !t.Has("status:413") {
						return "over-limit request is not answered 413"
					}
					return ""
				}
				if ni < 0 {
					if t.Has("next-unwrapped") {
						return "next handler invoked without the limiting response writer"
					}
					return "within-limit request does not reach the next handler"
				}
				if ni < ri {
					return "next handler runs before the length check"
				}
				mb := -1
				for i, it := range t.Items[:ni] {
					if strings.HasPrefix(it.Label, "max-bytes-reader(") {
						if !strings.Contains(it.Label, "max_request_body") {
							return "MaxBytesReader is not bounded by max_request_body: " + it.Label
						}
						mb = i
					}
				}
				if mb < 0 {
					return "request body is not wrapped in http.MaxBytesReader before the handler runs (chunked uploads are unbounded)"
				}
				bodyOK := false
				for _, it := range t.Items[mb:ni] {
					if strings.HasPrefix(it.Label, "store Request.Body := call:net/http.MaxBytesReader(") {
						bodyOK = true
					}
				}
				if !bodyOK {
					return "the MaxBytesReader is not installed as r.Body"
				}
				if t.Has("status:413") {
					return "within-limit request answered 413"
				}
				return ""
			})
	}
}
