package main

import (
	"fmt"
	"go/token"
	"go/types"
	"strings"

	"golang.org/x/tools/go/ssa"
)

// validatorsJudgeWholeValue (C18, "rejects exactly the invalid"): configuration validation judges the
// value the user wrote, not a truncation of it.  An integer conversion to a narrower type (rune → byte,
// int → int32/uint16 …) keeps the low bits only: a table indexed with byte(r) judges 'İ' (U+0130) as
// '0', uint16(port) judges 65616 as 80, and a value validation should refuse is accepted.  Every
// narrowing integer conversion in the config package is dominated by an ordered comparison of the
// converted value with a constant (the bound that makes the conversion lossless).
func (c *Ctx) validatorsJudgeWholeValue() {
	p := c.P
	rule := "validator-judges-whole-value"
	sizes := types.SizesFor("gc", "amd64")
	intSize := func(t types.Type) (int64, bool) {
		b, ok := t.Underlying().(*types.Basic)
		if !ok || b.Info()&types.IsInteger == 0 {
			return 0, false
		}
		return sizes.Sizeof(b), true
	}
	nFn, nConv := 0, 0
	var bad []string
	for _, fn := range p.Funcs {
		pk := fnPkg(fn)
		if pk == nil || !strings.HasSuffix(pk.Pkg.Path(), "/internal/config") || fn.Blocks == nil {
			continue
		}
		nFn++
		instrsOf(fn, func(in ssa.Instruction) {
			cv, ok := in.(*ssa.Convert)
			if !ok {
				return
			}
			from, ok1 := intSize(cv.X.Type())
			to, ok2 := intSize(cv.Type())
			if !ok1 || !ok2 || to >= from {
				return
			}
			if _, isConst := cv.X.(*ssa.Const); isConst {
				return
			}
			nConv++
			bounded := false
			for _, b := range fn.Blocks {
				if len(b.Instrs) == 0 {
					continue
				}
				ifi, isIf := b.Instrs[len(b.Instrs)-1].(*ssa.If)
				if !isIf || !b.Dominates(cv.Block()) || b == cv.Block() {
					continue
				}
				if c.flowsFrom(ifi.Cond, func(v ssa.Value) bool {
					bo, isB := v.(*ssa.BinOp)
					if !isB {
						return false
					}
					switch bo.Op {
					case token.LSS, token.LEQ, token.GTR, token.GEQ:
					default:
						return false
					}
					_, cy := bo.Y.(*ssa.Const)
					_, cx := bo.X.(*ssa.Const)
					return (bo.X == cv.X && cy) || (bo.Y == cv.X && cx)
				}) {
					bounded = true
				}
			}
			if !bounded {
				bad = append(bad, fmt.Sprintf("%s: %s narrows a %d-byte integer to %d byte(s) with no bound test before it: validation then judges the low bits of what the user wrote (byte(r) takes 'İ' U+0130 for '0'; a 16-bit port takes 65616 for 80) and accepts a value it should refuse", p.InstrPos(cv), p.FuncKey(fn), from, to))
			}
		})
	}
	if len(bad) == 0 {
		c.Pass(rule, "internal/config", "-", fmt.Sprintf("%d functions of the config package, %d narrowing integer conversions, each after a bound test", nFn, nConv))
	} else {
		c.Fail(rule, "internal/config", "-", bad[0], bad...)
	}
	c.Floor(rule, nFn, 8, "functions of the config package examined")
}
