package main

import (
	_ "embed"
	"encoding/json"
	"go/types"
	"os"
	"sort"
	"strings"

	"golang.org/x/tools/go/ssa"
)

// Canonical struct layouts of the Helios packages, recorded from the tree the rule tables were
// confirmed on (regenerate with `helioscheck -dump-canon`).  They let the checker recognise a struct
// type or an unexported field after a pure renaming: a rename changes no behaviour and must change no
// verdict, and the tables (lock, atomic, immutable, wrapper flags) are keyed by these names.
//
//go:embed canon_fields.json
var canonJSON []byte

type canonField struct {
	Name string `json:"name"`
	Type string `json:"type"`
}

// canonLayout: "pkgpath-suffix.TypeName" → fields in declaration order.
var canonLayout map[string][]canonField

// fieldAlias: "pkgname.ActualType.actualField" → canonical field name.
var fieldAlias = map[string]string{}

func init() {
	_ = json.Unmarshal(canonJSON, &canonLayout)
}

// normType renders a type with Helios's own unexported type names blanked, so that layouts can be
// compared across renamings of those types.
func normType(t types.Type) string {
	return types.TypeString(t, func(p *types.Package) string { return p.Path() })
}

func blankLocal(s string, pkgPath string, locals map[string]bool) string {
	for name := range locals {
		s = strings.ReplaceAll(s, pkgPath+"."+name, pkgPath+".·")
	}
	return s
}

func (p *Program) structLayouts() map[string][]canonField {
	out := map[string][]canonField{}
	for path, sp := range p.SSAPkg {
		if !strings.HasPrefix(path, modPath) {
			continue
		}
		suffix := strings.TrimPrefix(strings.TrimPrefix(path, modPath), "/")
		locals := map[string]bool{}
		for mname, m := range sp.Members {
			if t, ok := m.(*ssa.Type); ok && !t.Object().Exported() {
				locals[mname] = true
			}
		}
		for mname, m := range sp.Members {
			t, ok := m.(*ssa.Type)
			if !ok {
				continue
			}
			st, ok := t.Type().Underlying().(*types.Struct)
			if !ok {
				continue
			}
			var fs []canonField
			for i := 0; i < st.NumFields(); i++ {
				fs = append(fs, canonField{Name: st.Field(i).Name(), Type: blankLocal(normType(st.Field(i).Type()), path, locals)})
			}
			out[suffix+"."+mname] = fs
		}
	}
	return out
}

func dumpCanon(p *Program, file string) error {
	b, err := json.MarshalIndent(p.structLayouts(), "", " ")
	if err != nil {
		return err
	}
	return os.WriteFile(file, append(b, '\n'), 0o644)
}

func sameTypes(a, b []canonField) bool {
	if len(a) != len(b) {
		return false
	}
	for i := range a {
		if a[i].Type != b[i].Type {
			return false
		}
	}
	return true
}

// resolveRenames fills typeAlias/typeActual (renamed unexported struct types) and fieldAlias (renamed
// unexported fields) by comparing the program's struct layouts with the canonical ones.
func (p *Program) resolveRenames() {
	typeAlias = map[string]string{}
	typeActual = map[string]string{}
	fieldAlias = map[string]string{}
	actual := p.structLayouts()
	var keys []string
	for k := range canonLayout {
		keys = append(keys, k)
	}
	sort.Strings(keys)
	pkgOf := func(k string) (string, string) { i := strings.LastIndex(k, "."); return k[:i], k[i+1:] }
	pkgName := func(suffix string) string {
		if sp := p.SSAPkg[modPath+"/"+suffix]; sp != nil {
			return sp.Pkg.Name()
		}
		return suffix[strings.LastIndex(suffix, "/")+1:]
	}
	// 1. types that disappeared: the unique unexported struct of the package with all the canonical
	//    field names, or failing that with exactly the canonical field types in order
	taken := map[string]bool{}
	for _, k := range keys {
		pkg, name := pkgOf(k)
		if _, ok := actual[k]; ok || name == "" || (name[0] >= 'A' && name[0] <= 'Z') {
			continue
		}
		var byNames, byTypes []string
		for ak, fs := range actual {
			apkg, aname := pkgOf(ak)
			if apkg != pkg || taken[ak] {
				continue
			}
			if _, isCanon := canonLayout[ak]; isCanon {
				continue
			}
			have := map[string]bool{}
			for _, f := range fs {
				have[f.Name] = true
			}
			all := len(canonLayout[k]) > 0
			for _, f := range canonLayout[k] {
				if !have[f.Name] {
					all = false
				}
			}
			if all {
				byNames = append(byNames, aname)
			}
			if sameTypes(fs, canonLayout[k]) || sameTypeSet(fs, canonLayout[k]) {
				byTypes = append(byTypes, aname)
			}
		}
		pick := ""
		if len(byNames) == 1 {
			pick = byNames[0]
		} else if len(byNames) == 0 && len(byTypes) == 1 {
			pick = byTypes[0]
		}
		if pick != "" {
			taken[pkg+"."+pick] = true
			typeAlias[pkgName(pkg)+"."+pick] = pkgName(pkg) + "." + name
			typeActual[k] = pick
		}
	}
	// 2. fields that disappeared from a type that is still there (possibly under a new name): same
	//    position and same type, in a struct whose layout is otherwise unchanged
	for _, k := range keys {
		pkg, name := pkgOf(k)
		an := name
		if a, ok := typeActual[k]; ok {
			an = a
		}
		fs, ok := actual[pkg+"."+an]
		if !ok {
			continue
		}
		cf := canonLayout[k]
		have := map[string]bool{}
		for _, f := range fs {
			have[f.Name] = true
		}
		canonNames := map[string]bool{}
		for _, f := range cf {
			canonNames[f.Name] = true
		}
		if sameTypes(fs, cf) {
			for i := range cf {
				if fs[i].Name != cf[i].Name && !have[cf[i].Name] && !canonNames[fs[i].Name] {
					fieldAlias[pkgName(pkg)+"."+an+"."+fs[i].Name] = cf[i].Name
				}
			}
			continue
		}
		// layout changed (fields added, removed or reordered): a missing canonical field is matched to
		// the only new field of the same type
		for _, c := range cf {
			if have[c.Name] {
				continue
			}
			var cand []string
			for _, f := range fs {
				if !canonNames[f.Name] && f.Type == c.Type {
					cand = append(cand, f.Name)
				}
			}
			if len(cand) == 1 {
				fieldAlias[pkgName(pkg)+"."+an+"."+cand[0]] = c.Name
			}
		}
	}
}

// canonFieldName maps a field of a Helios struct to the name the tables know it by.
func canonFieldName(n *types.Named, field string) string {
	if n == nil || n.Obj().Pkg() == nil || len(fieldAlias) == 0 {
		return field
	}
	if c, ok := fieldAlias[n.Obj().Pkg().Name()+"."+n.Obj().Name()+"."+field]; ok {
		return c
	}
	return field
}

// sameTypeSet: the two layouts have the same fields up to order, and no type occurs twice (so the
// correspondence is unambiguous).
func sameTypeSet(a, b []canonField) bool {
	if len(a) != len(b) || len(a) == 0 {
		return false
	}
	ca, cb := map[string]int{}, map[string]int{}
	for i := range a {
		ca[a[i].Type]++
		cb[b[i].Type]++
	}
	for t, n := range ca {
		if n != 1 || cb[t] != 1 {
			return false
		}
	}
	return true
}
