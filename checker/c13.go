package main

import (
	"fmt"
	"strings"

	"golang.org/x/tools/go/ssa"
)

func init() { registry["C13"] = checkC13 }

// lbSpec: the events of the balancer's request path (metrics, gauges, proxying, responses).
func (c *Ctx) lbSpec() *Spec {
	p := c.P
	return &Spec{
		Event: func(in ssa.Instruction, fr *Frame) string {
			ci, ok := in.(ssa.CallInstruction)
			if !ok {
				return ""
			}
			n := CalleeName(ci)
			args := CallArgs(ci)
			switch {
			case strings.HasSuffix(n, "MetricsCollector).RecordRequest"):
				return "record-request"
			case strings.HasSuffix(n, "MetricsCollector).RecordResponse"):
				return "record-response(" + p.Desc(args[0], fr) + ")"
			case strings.HasSuffix(n, "MetricsCollector).RecordRateLimitedRequest"):
				return "count-limited"
			case strings.HasSuffix(n, "MetricsCollector).RecordBackendRequest"):
				return "record-backend(" + p.Desc(args[0], fr) + "," + p.Desc(args[1], fr) + ")"
			case strings.HasSuffix(n, "MetricsCollector).UpdateBackendConnections"):
				return "upd-conn(" + p.Desc(args[0], fr) + ")"
			case strings.HasSuffix(n, "Backend).IncrementConnections"):
				return "inc"
			case strings.HasSuffix(n, "Backend).DecrementConnections"):
				return "dec"
			case n == "(*net/http/httputil.ReverseProxy).ServeHTTP":
				return "proxy"
			case strings.HasSuffix(n, "LoadBalancer).handlePassiveHealthCheck"):
				return "passive-check"
			}
			if code, ok := httpStatusCall(ci); ok {
				return "status:" + itoa(code)
			}
			return ""
		},
		Expand: func(callee *ssa.Function, site ssa.CallInstruction) bool {
			n := callee.String()
			if strings.Contains(n, "/internal/logging.") || strings.Contains(n, "/internal/metrics.") || strings.Contains(n, "/internal/ratelimiter.") || strings.Contains(n, "/internal/utils.") {
				return false
			}
			switch callee.Name() {
			case "afterRequest", "setState", "Counts", "NextBackend", "IsBackendHealthy", "MarkBackendUnhealthy", "handlePassiveHealthCheck",
				"IncrementConnections", "DecrementConnections", "GetActiveConnections":
				return false
			}
			return true
		},
		MayPanic: func(site ssa.CallInstruction) bool {
			return CalleeName(site) == "(*net/http/httputil.ReverseProxy).ServeHTTP"
		},
	}
}

// proxyFn: the (outermost) function of the balancer from which a backend's ReverseProxy is invoked —
// proxyRequest today; whatever function that code lives in after a refactor.
func (c *Ctx) proxyFn() *ssa.Function {
	p := c.P
	var out *ssa.Function
	for _, fn := range p.Funcs {
		if !p.InScope(fn) {
			continue
		}
		for _, ci := range callsIn(fn) {
			if CalleeName(ci) == "(*net/http/httputil.ReverseProxy).ServeHTTP" {
				if o := outermost(fn); out == nil || o.Name() < out.Name() {
					out = o
				}
			}
		}
	}
	return out
}

func checkC13(c *Ctx) {
	p := c.P
	c.Clause("every exit path of LoadBalancer.ServeHTTP (normal and panic) records the request exactly once, first")
	c.Clause("every exit path records exactly one outcome: rate-limited or response(success|failure)")
	c.Clause("the in-flight gauge increment in proxyRequest is paired with a decrement on every exit including the ErrAbortHandler panic exit, each mirrored to the metrics gauge")
	c.Clause("each proxied request records exactly one per-backend sample, named after the backend that served it, with the same success flag as the global outcome; the flag is status < 500 of the status the wrapper captured")
	c.Clause("counters are atomic-only / under Metrics.mutex; the 64-bit atomic counters are 8-byte aligned under the 386/arm layout (otherwise counting panics on 32-bit platforms)")
	c.Clause("inside the collector each record call moves exactly its own counter by exactly one: RecordRequest→total, RecordResponse(ok)→successful xor failed, RecordRateLimitedRequest→rate-limited, RecordBackendRequest(name, ok)→that backend's total and its successful xor failed")
	c.Clause("reading the in-flight counter and publishing the reading happen in one critical section per backend (two finishing requests cannot publish out of order); only the ±1 at request start/end and the constructor write the counter")
	c.Clause("the status the outcome derives from is the last one written (an interim 1xx does not mask the final status)")
	c.Clause("per-backend counters are keyed by name and a name identifies one backend (AddBackend refuses a listed name), so a backend's totals count that backend's requests only")
	c.NotDecided("equality with an external tally; EMA arithmetic; behaviour above the 1000-backend cap")

	c.collectorConservation()
	serve := p.Fn("internal/loadbalancer", "LoadBalancer", "ServeHTTP")
	exitName := func(t *Trace) string {
		if t.Exit == ExitPanic {
			return "panic exit"
		}
		return "normal exit"
	}
	c.traceRule("request-counted-once", "loadbalancer.(*LoadBalancer).ServeHTTP", serve, c.lbSpec(),
		"RecordRequest is the first accounting event and occurs exactly once on every path",
		func(t *Trace) string {
			if n := t.Count("record-request"); n != 1 {
				return fmt.Sprintf("RecordRequest called %d times on a %s", n, exitName(t))
			}
			if len(t.Items) > 0 && t.Items[0].Label != "record-request" {
				return "an accounting or response event precedes RecordRequest: " + t.Items[0].Label
			}
			return ""
		})
	reqCtx := func(t *Trace) string {
		switch {
		case t.Has("panic-in:(*net/http/httputil.ReverseProxy).ServeHTTP"):
			return "proxied-abort"
		case t.Has("proxy"):
			return "proxied"
		case t.Has("count-limited") || t.Has("status:429") && !t.Has("status:503") && !t.Has("status:500"):
			return "rate-limited-or-trial-limit"
		case t.Has("status:503") && t.Has("status:429"):
			return "breaker-rejected"
		case t.Has("status:503"):
			for _, it := range t.Items {
				if it.Label == "status:503" && it.Frame != nil && it.Frame.Fn.Name() != "ServeHTTP" {
					return "no-healthy-backend"
				}
			}
			return "breaker-open"
		}
		return "other"
	}
	c.traceRuleSplit("one-outcome-per-request", "loadbalancer.(*LoadBalancer).ServeHTTP", serve, c.lbSpec(),
		"exactly one of {RecordRateLimitedRequest, RecordResponse} on every exit",
		func(t *Trace) (string, string) {
			n := t.Count("count-limited")
			for _, it := range t.Items {
				if strings.HasPrefix(it.Label, "record-response(") {
					n++
				}
			}
			cx := reqCtx(t)
			if n != 1 {
				return cx, fmt.Sprintf("%d outcome events on a %s", n, exitName(t))
			}
			return cx, ""
		})
	proxy := c.proxyFn()
	byExit := func(f func(t *Trace) string) func(t *Trace) (string, string) {
		return func(t *Trace) (string, string) {
			if !t.Has("proxy") && !t.Has("panic-in:(*net/http/httputil.ReverseProxy).ServeHTTP") {
				// a path of the same function that does not forward (no healthy backend): nothing to pair
				if t.Count("inc") != 0 || t.Count("dec") != 0 {
					return "not-proxied", "the in-flight gauge is changed on a path that forwards nothing"
				}
				for _, it := range t.Items {
					if strings.HasPrefix(it.Label, "record-backend(") {
						return "not-proxied", "a per-backend sample is recorded on a path that forwards nothing"
					}
				}
				return "not-proxied", ""
			}
			if t.Exit == ExitPanic {
				return "panic-exit", f(t)
			}
			return "normal-exit", f(t)
		}
	}
	c.traceRuleSplit("gauge-paired", "loadbalancer.(*LoadBalancer).proxyRequest", proxy, c.lbSpec(),
		"IncrementConnections is matched by DecrementConnections, each followed by its metrics mirror, and the proxy call lies between them",
		byExit(func(t *Trace) string {
			inc, dec := t.Count("inc"), t.Count("dec")
			if inc != 1 {
				return fmt.Sprintf("in-flight gauge incremented %d times", inc)
			}
			if dec != 1 {
				return fmt.Sprintf("in-flight gauge incremented but decremented %d times on a %s (the gauge never returns to zero and least_connections is biased away from the backend for ever)", dec, exitName(t))
			}
			ii, di, pi := t.Index("inc", 0), t.Index("dec", 0), t.Index("proxy", 0)
			if pi < 0 || !(ii < pi && pi < di) {
				return "the proxied exchange is not bracketed by the gauge increment and decrement"
			}
			for _, at := range []int{ii, di} {
				ok := false
				for j := at + 1; j < len(t.Items); j++ {
					l := t.Items[j].Label
					if strings.HasPrefix(l, "upd-conn(") {
						ok = strings.Contains(l, "Backend.Name")
						break
					}
					if l == "proxy" || l == "inc" || l == "dec" {
						break
					}
				}
				if !ok {
					return "gauge change is not mirrored to the metrics collector (UpdateBackendConnections for the same backend)"
				}
			}
			return ""
		}))
	c.traceRuleSplit("backend-sample-once", "loadbalancer.(*LoadBalancer).proxyRequest", proxy, c.lbSpec(),
		"exactly one RecordBackendRequest per proxied request, for the proxied backend, agreeing with RecordResponse; success ≡ captured status < 500",
		byExit(func(t *Trace) string {
			var be, resp []Item
			for _, it := range t.Items {
				if strings.HasPrefix(it.Label, "record-backend(") {
					be = append(be, it)
				}
				if strings.HasPrefix(it.Label, "record-response(") {
					resp = append(resp, it)
				}
			}
			if len(be) != 1 {
				return fmt.Sprintf("%d per-backend samples recorded on a %s of a proxied request", len(be), exitName(t))
			}
			if len(resp) != 1 {
				return fmt.Sprintf("%d global outcome events on a %s of a proxied request", len(resp), exitName(t))
			}
			bArgs := CallArgs(be[0].Instr.(ssa.CallInstruction))
			rArgs := CallArgs(resp[0].Instr.(ssa.CallInstruction))
			if d := p.Desc(bArgs[0], be[0].Frame); d != "fld:loadbalancer.Backend.Name" {
				return "per-backend sample is not recorded under the proxied backend's name: " + d
			}
			bd, rd := p.Desc(bArgs[1], be[0].Frame), p.Desc(rArgs[0], resp[0].Frame)
			if bd != rd {
				return "per-backend and global outcome flags differ: " + bd + " vs " + rd
			}
			r := p.RelOf(stripConv(rArgs[0]), true, resp[0].Frame)
			if o, ok := r.Orient("loadbalancer.responseWriter.statusCode", ""); !ok || !(o.Y == "" && o.Lo == negInf && o.Hi == 499) {
				return "success flag is not (captured status < 500): " + r.String()
			}
			return ""
		}))
	c.statusCaptured()
	c.gaugeWriters()
	lockDiscipline(c, func(k string) bool {
		return strings.HasPrefix(k, "metrics.Metrics.") || strings.HasPrefix(k, "metrics.BackendMetrics.") || k == "loadbalancer.Backend.ActiveConnections"
	})
	c.backendNamesUnique()
	c.Floor("atomic64-aligned", atomic64Aligned(c, func(k string) bool { return strings.HasPrefix(k, "metrics.Metrics.") }), 4, "metrics counters operated on with 64-bit atomics")
}

// gaugeWriters: the in-flight gauge is changed only by ±1 in Increment/DecrementConnections, which
// only proxyRequest calls; the metrics mirror always receives the backend's own atomic reading.
func (c *Ctx) gaugeWriters() {
	p := c.P
	const field = "loadbalancer.Backend.ActiveConnections"
	fr := p.Freshness()
	var bad []string
	var pubSites []ssa.CallInstruction
	nWrites, nCalls := 0, 0
	for _, fn := range p.Funcs {
		if !p.InScope(fn) {
			continue
		}
		for _, a := range Accesses(fn) {
			if a.Key != field || fr.IsFresh(a.FA.X, 0) {
				continue
			}
			if a.Kind != "atomic" {
				if a.IsWrite() {
					bad = append(bad, p.InstrPos(a.Instr)+": "+p.FuncKey(fn)+" writes the in-flight gauge directly")
				}
				continue
			}
			ci := a.Instr.(ssa.CallInstruction)
			name := CalleeName(ci)
			if strings.HasPrefix(name, "sync/atomic.Load") {
				continue
			}
			nWrites++
			delta, isK := int64(0), false
			if name == "sync/atomic.AddInt32" {
				delta, isK = constInt(ci.Common().Args[1])
			}
			okFn := fn.Name() == "IncrementConnections" && delta == 1 || fn.Name() == "DecrementConnections" && delta == -1
			if !isK || !okFn {
				bad = append(bad, fmt.Sprintf("%s: %s changes the in-flight gauge with %s (only ±1 per request start/end keeps it equal to the number of in-flight requests; a reset or bulk change lets it go negative or stick above zero)", p.InstrPos(a.Instr), p.FuncKey(fn), name))
			}
		}
		for _, ci := range callsIn(fn) {
			n := CalleeName(ci)
			if strings.HasSuffix(n, "Backend).IncrementConnections") || strings.HasSuffix(n, "Backend).DecrementConnections") {
				nCalls++
				if outermost(fn) != c.proxyFn() && !c.onlyCalledFrom(outermost(fn), c.proxyFn(), 0) {
					bad = append(bad, p.InstrPos(ci)+": "+p.FuncKey(fn)+" changes a backend's in-flight gauge outside the function that forwards the request")
				}
			}
			if strings.HasSuffix(n, "MetricsCollector).UpdateBackendConnections") {
				args := CallArgs(ci)
				if d := p.Desc(args[1], nil); !strings.HasPrefix(d, "call:(*github.com/0xReLogic/Helios/internal/loadbalancer.Backend).GetActiveConnections(") {
					bad = append(bad, p.InstrPos(ci)+": "+p.FuncKey(fn)+" publishes a gauge value that is not the backend's own atomic reading: "+d)
				}
				// reading the counter and publishing the reading form one step per backend: two requests
				// finishing together must not publish in the opposite order of their readings
				pubSites = append(pubSites, ci)
			}
		}
	}
	if len(bad) == 0 {
		c.Pass("gauge-writers", field, "-", fmt.Sprintf("%d atomic updates (±1 in Increment/DecrementConnections), %d call sites, all in proxyRequest", nWrites, nCalls))
	} else {
		c.Fail("gauge-writers", field, "-", bad[0], bad...)
	}
	c.Floor("gauge-writers", nWrites, 2, "gauge updates")
	li := p.Locks()
	for i, ci := range pubSites {
		fl := li.Fns[ci.Parent()]
		held := ""
		if fl != nil {
			for _, h := range fl.Must[ci] {
				if strings.HasPrefix(h.Class, "loadbalancer.Backend.") {
					held = h.Class
				}
			}
		}
		okRead := held != ""
		if okRead {
			// the reading that is published was taken under the same lock
			if rd, isCall := CallArgs(ci)[1].(*ssa.Call); isCall {
				okRead = fl.Must[rd].HoldsClass(held) != 0
			}
		}
		c.Check(okRead, "gauge-publication-atomic", fmt.Sprintf("%s/publish#%d", p.FuncKey(ci.Parent()), i+1), p.InstrPos(ci),
			"the gauge is read and published under "+held,
			"the in-flight gauge is read and then published as two separate steps with no per-backend lock around them: of two requests finishing together the one that read first (the larger value) can publish last, and the published gauge stays above zero while the backend is idle")
	}
}

// statusCaptured: the status used for accounting and passive health checks is the last one the
// backend wrote: every path of responseWriter.WriteHeader stores its argument (C13, C04).
func (c *Ctx) statusCaptured() {
	p := c.P
	w := c.wrapperNamed("loadbalancer.responseWriter")
	if w == nil || w.Methods["WriteHeader"] == nil {
		c.Missing("status-captured", "loadbalancer.(*responseWriter).WriteHeader")
		return
	}
	c.traceRule("status-captured", "loadbalancer.(*responseWriter).WriteHeader", w.Methods["WriteHeader"], c.rwSpec(w),
		"every call stores the status it was given (an informational 1xx is overwritten by the final status)",
		func(t *Trace) string {
			for _, it := range t.Items {
				if strings.HasPrefix(it.Label, "store statusCode := param:") {
					return ""
				}
			}
			return "a WriteHeader call does not record its status: after an informational 1xx the final status (e.g. a 5xx) is invisible to accounting, passive health checks and the circuit breaker"
		})
	// and nothing else rewrites it except the abort marker in proxyRequest's deferred block
	for _, fn := range p.Funcs {
		if !p.InScope(fn) {
			continue
		}
		instrsOf(fn, func(in ssa.Instruction) {
			if k, st := storeKey(in); k == "loadbalancer.responseWriter.statusCode" && fn != w.Methods["WriteHeader"] {
				if c.P.Freshness().IsFresh(st.Addr.(*ssa.FieldAddr).X, 0) && fn.Parent() == nil {
					return // the initial value in the literal
				}
				if kk, ok := constInt(st.Val); ok && kk >= 500 {
					return // marking an aborted exchange as failed
				}
				c.Fail("status-captured", p.FuncKey(fn)+"/overwrites-status", p.InstrPos(st), "the captured status is overwritten outside WriteHeader with "+p.Desc(st.Val, nil))
			}
		})
	}
}

// collectorConservation: the metrics collector's own record functions move exactly the counter they
// are named after, by one, on every path (below the documented backend cap).
func (c *Ctx) collectorConservation() {
	p := c.P
	const mT, bT = "metrics.Metrics.", "metrics.BackendMetrics."
	sp := &Spec{
		Event: func(in ssa.Instruction, fr *Frame) string {
			if ci, ok := in.(ssa.CallInstruction); ok {
				n := CalleeName(ci)
				if strings.HasPrefix(n, "sync/atomic.Add") && len(ci.Common().Args) == 2 {
					if fa, isFA := ci.Common().Args[0].(*ssa.FieldAddr); isFA {
						if f, ok := fieldRefOf(fa); ok {
							return "add " + f.Key() + " " + p.Desc(ci.Common().Args[1], fr)
						}
					}
					if ph, isPhi := ci.Common().Args[0].(*ssa.Phi); isPhi {
						// the counter is chosen by a branch: labelled with the φ, resolved per path by the judge
						return "add-phi " + p.Desc(ci.Common().Args[1], fr) + " " + fmt.Sprintf("%p", ph)
					}
					return "add ? " + p.Desc(ci.Common().Args[1], fr)
				}
				if strings.HasPrefix(n, "sync/atomic.Store") || strings.HasPrefix(n, "sync/atomic.Swap") || strings.HasPrefix(n, "sync/atomic.CompareAndSwap") {
					return "atomic-overwrite " + p.Desc(ci.Common().Args[0], fr)
				}
			}
			if k, st := storeKey(in); strings.HasPrefix(k, bT) || strings.HasPrefix(k, mT) {
				return "store " + k + " := " + p.Desc(st.Val, fr)
			}
			if mu, ok := in.(*ssa.MapUpdate); ok {
				return "map[" + p.Desc(mu.Key, fr) + "] := " + p.Desc(mu.Value, fr)
			}
			if lk, ok := in.(*ssa.Lookup); ok && strings.Contains(p.Desc(lk.X, fr), "BackendMetrics") {
				return "lookup[" + p.Desc(lk.Index, fr) + "]"
			}
			return ""
		},
		Cond: p.condMentions("param:success", "MaxBackendMetrics", "len(fld:metrics.Metrics.BackendMetrics)", "BackendMetrics["),
		Expand: func(callee *ssa.Function, site ssa.CallInstruction) bool {
			// unexported helpers of the collector (look-up-or-install, etc.)
			pk := fnPkg(callee)
			return pk != nil && strings.HasSuffix(pk.Pkg.Path(), "/internal/metrics") && !callee.Object().Exported() && callee.Name() != "updateAverageResponseTime"
		},
	}
	// for a counter address chosen by a branch (φ of field addresses): the field this path selected
	phiField := func(t *Trace, it Item) string {
		ci, ok := it.Instr.(ssa.CallInstruction)
		if !ok {
			return ""
		}
		ph, ok := ci.Common().Args[0].(*ssa.Phi)
		if !ok {
			return ""
		}
		for _, jt := range t.Items {
			ifi, isIf := jt.Instr.(*ssa.If)
			if !isIf {
				continue
			}
			b := ifi.Block()
			taken := b.Succs[1]
			if jt.Pol {
				taken = b.Succs[0]
			}
			for i, pred := range ph.Block().Preds {
				chosen := (taken == ph.Block() && pred == b) || (taken != ph.Block() && (pred == taken || taken.Dominates(pred)))
				if !chosen {
					continue
				}
				if fa, isFA := ph.Edges[i].(*ssa.FieldAddr); isFA {
					if f, ok := fieldRefOf(fa); ok {
						return f.Key()
					}
				}
			}
		}
		return ""
	}
	counts := func(t *Trace, key string) (plusOne, other int) {
		for _, it := range t.Items {
			if strings.HasPrefix(it.Label, "add-phi ") {
				if phiField(t, it) == key {
					if strings.HasPrefix(it.Label, "add-phi k:1 ") {
						plusOne++
					} else {
						other++
					}
				}
				continue
			}
			switch {
			case it.Label == "add "+key+" k:1":
				plusOne++
			case strings.HasPrefix(it.Label, "add "+key+" "):
				other++
			case strings.HasPrefix(it.Label, "store "+key+" := "):
				if it.Label == "store "+key+" := (fld:"+key+" + k:1)" {
					plusOne++
				} else {
					other++
				}
			}
		}
		return
	}
	successPol := func(t *Trace) (bool, bool) {
		for _, it := range t.Items {
			if ifi, ok := it.Instr.(*ssa.If); ok && p.Desc(ifi.Cond, it.Frame) == "param:success" {
				return it.Pol, true
			}
		}
		return false, false
	}
	exactly := func(t *Trace, want map[string]int, all []string) string {
		for _, k := range all {
			one, other := counts(t, k)
			if other > 0 {
				return k + " is changed by something other than +1"
			}
			if one != want[k] {
				return fmt.Sprintf("%s is incremented %d time(s), expected %d", k, one, want[k])
			}
		}
		return ""
	}
	global := []string{mT + "TotalRequests", mT + "SuccessfulRequests", mT + "FailedRequests", mT + "RateLimitedRequests"}
	type spec struct {
		name string
		want func(t *Trace) (map[string]int, string)
		all  []string
	}
	specs := []spec{
		{"RecordRequest", func(*Trace) (map[string]int, string) { return map[string]int{mT + "TotalRequests": 1}, "" }, global},
		{"RecordRateLimitedRequest", func(*Trace) (map[string]int, string) { return map[string]int{mT + "RateLimitedRequests": 1}, "" }, global},
		{"RecordResponse", func(t *Trace) (map[string]int, string) {
			ok, found := successPol(t)
			if !found {
				return nil, "the success flag does not decide which counter moves"
			}
			if ok {
				return map[string]int{mT + "SuccessfulRequests": 1}, ""
			}
			return map[string]int{mT + "FailedRequests": 1}, ""
		}, global},
		{"RecordBackendRequest", func(t *Trace) (map[string]int, string) {
			if r, _, ok := c.findRel(t, "len(fld:metrics.Metrics.BackendMetrics)", "", 0, -1); ok && r.Lo >= 1 && r.Lo != negInf && !t.Has("store "+bT+"TotalRequests := (fld:"+bT+"TotalRequests + k:1)") {
				return nil, "skip" // the documented cap edge
			}
			ok, found := successPol(t)
			if !found {
				return nil, "the success flag does not decide which counter moves"
			}
			w := map[string]int{bT + "TotalRequests": 1}
			if ok {
				w[bT+"SuccessfulRequests"] = 1
			} else {
				w[bT+"FailedRequests"] = 1
			}
			return w, ""
		}, []string{bT + "TotalRequests", bT + "SuccessfulRequests", bT + "FailedRequests"}},
	}
	for _, sc := range specs {
		fn := p.Fn("internal/metrics", "MetricsCollector", sc.name)
		sc := sc
		c.traceRule("collector-conservation", "metrics.(*MetricsCollector)."+sc.name, fn, sp,
			"every path moves exactly the counter(s) this call stands for, by one",
			func(t *Trace) string {
				if t.Exit != ExitNormal {
					return ""
				}
				want, problem := sc.want(t)
				if problem == "skip" {
					return ""
				}
				if problem != "" {
					return problem
				}
				if msg := exactly(t, want, sc.all); msg != "" {
					return msg
				}
				if sc.name == "RecordBackendRequest" {
					// the entry counted is the one looked up (or installed) under the caller's backend name
					for _, it := range t.Items {
						if strings.HasPrefix(it.Label, "lookup[") && it.Label != "lookup[param:backendName]" {
							return "the per-backend entry is looked up under something other than the caller's backend name: " + it.Label
						}
						if strings.HasPrefix(it.Label, "map[") && !strings.HasPrefix(it.Label, "map[param:backendName] := ") {
							return "a per-backend entry is installed under something other than the caller's backend name: " + it.Label
						}
					}
				}
				return ""
			})
	}
}

// onlyCalledFrom: every static call site of fn lies in root (or in a function that is itself only
// called from root): fn is a piece of root that was given a name.
func (c *Ctx) onlyCalledFrom(fn, root *ssa.Function, depth int) bool {
	p := c.P
	if fn == nil || root == nil || depth > 3 {
		return false
	}
	n := 0
	for _, g := range p.Funcs {
		if !p.InScope(g) {
			continue
		}
		for _, ci := range callsIn(g) {
			if StaticFn(ci) != fn {
				continue
			}
			n++
			if o := outermost(g); o != root && !c.onlyCalledFrom(o, root, depth+1) {
				return false
			}
		}
	}
	return n > 0
}

// abortPropagates: httputil.ReverseProxy aborts a response whose backend died mid-body by panicking
// with http.ErrAbortHandler; net/http then closes the client connection, which is how the client
// learns the body is incomplete.  On every path of LoadBalancer.ServeHTTP on which the proxy call
// panics, the handler is therefore left by that panic: a recover() that swallows it lets net/http
// finish the response normally (terminating chunk, keep-alive) and a truncated body is presented as
// complete (C01, C03).
func (c *Ctx) abortPropagates() {
	p := c.P
	serve := p.Fn("internal/loadbalancer", "LoadBalancer", "ServeHTTP")
	seen := 0
	c.traceRule("abort-propagates", "loadbalancer.(*LoadBalancer).ServeHTTP", serve, c.lbSpec(),
		"every path on which the reverse proxy aborts the response leaves ServeHTTP by that panic",
		func(t *Trace) string {
			if !t.Has("panic-in:(*net/http/httputil.ReverseProxy).ServeHTTP") {
				return ""
			}
			seen++
			if t.Exit != ExitPanic {
				return "the panic with which the reverse proxy aborts a response (backend died mid-body) is swallowed: net/http completes the response normally and the client receives a truncated body as if it were whole"
			}
			return ""
		})
	c.Floor("abort-propagates", seen, 1, "paths on which the proxy call panics")
}
