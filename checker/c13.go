package main

import (
	"fmt"
	"strings"

	"golang.org/x/tools/go/ssa"
)

func init() { registry["C13"] = checkC13 }

// lbSpec: the events of the balancer's request path (metrics, gauges, proxying, responses).
func (c *Ctx) lbSpec() *Spec {
	p := c.P
	return &Spec{
		Event: func(in ssa.Instruction, fr *Frame) string {
			ci, ok := in.(ssa.CallInstruction)
			if !ok {
				return ""
			}
			n := CalleeName(ci)
			args := CallArgs(ci)
			switch {
			case strings.HasSuffix(n, "MetricsCollector).RecordRequest"):
				return "record-request"
			case strings.HasSuffix(n, "MetricsCollector).RecordResponse"):
				return "record-response(" + p.Desc(args[0], fr) + ")"
			case strings.HasSuffix(n, "MetricsCollector).RecordRateLimitedRequest"):
				return "count-limited"
			case strings.HasSuffix(n, "MetricsCollector).RecordBackendRequest"):
				return "record-backend(" + p.Desc(args[0], fr) + "," + p.Desc(args[1], fr) + ")"
			case strings.HasSuffix(n, "MetricsCollector).UpdateBackendConnections"):
				return "upd-conn(" + p.Desc(args[0], fr) + ")"
			case strings.HasSuffix(n, "Backend).IncrementConnections"):
				return "inc"
			case strings.HasSuffix(n, "Backend).DecrementConnections"):
				return "dec"
			case n == "(*net/http/httputil.ReverseProxy).ServeHTTP":
				return "proxy"
			case strings.HasSuffix(n, "LoadBalancer).handlePassiveHealthCheck"):
				return "passive-check"
			}
			if code, ok := httpStatusCall(ci); ok {
				return "status:" + itoa(code)
			}
			return ""
		},
		Expand: func(callee *ssa.Function, site ssa.CallInstruction) bool {
			n := callee.String()
			if strings.Contains(n, "/internal/logging.") || strings.Contains(n, "/internal/metrics.") || strings.Contains(n, "/internal/ratelimiter.") || strings.Contains(n, "/internal/utils.") {
				return false
			}
			switch callee.Name() {
			case "afterRequest", "setState", "Counts", "NextBackend", "IsBackendHealthy", "MarkBackendUnhealthy", "handlePassiveHealthCheck",
				"IncrementConnections", "DecrementConnections", "GetActiveConnections":
				return false
			}
			return true
		},
		MayPanic: func(site ssa.CallInstruction) bool {
			return CalleeName(site) == "(*net/http/httputil.ReverseProxy).ServeHTTP"
		},
	}
}

func checkC13(c *Ctx) {
	p := c.P
	c.Clause("every exit path of LoadBalancer.ServeHTTP (normal and panic) records the request exactly once, first")
	c.Clause("every exit path records exactly one outcome: rate-limited or response(success|failure)")
	c.Clause("the in-flight gauge increment in proxyRequest is paired with a decrement on every exit including the ErrAbortHandler panic exit, each mirrored to the metrics gauge")
	c.Clause("each proxied request records exactly one per-backend sample, named after the backend that served it, with the same success flag as the global outcome; the flag is status < 500 of the status the wrapper captured")
	c.Clause("counters are atomic-only / under Metrics.mutex")
	c.NotDecided("equality with an external tally; EMA arithmetic; behaviour above the 1000-backend cap")

	serve := p.Fn("internal/loadbalancer", "LoadBalancer", "ServeHTTP")
	exitName := func(t *Trace) string {
		if t.Exit == ExitPanic {
			return "panic exit"
		}
		return "normal exit"
	}
	c.traceRule("request-counted-once", "loadbalancer.(*LoadBalancer).ServeHTTP", serve, c.lbSpec(),
		"RecordRequest is the first accounting event and occurs exactly once on every path",
		func(t *Trace) string {
			if n := t.Count("record-request"); n != 1 {
				return fmt.Sprintf("RecordRequest called %d times on a %s", n, exitName(t))
			}
			if len(t.Items) > 0 && t.Items[0].Label != "record-request" {
				return "an accounting or response event precedes RecordRequest: " + t.Items[0].Label
			}
			return ""
		})
	reqCtx := func(t *Trace) string {
		switch {
		case t.Has("panic-in:(*net/http/httputil.ReverseProxy).ServeHTTP"):
			return "proxied-abort"
		case t.Has("proxy"):
			return "proxied"
		case t.Has("count-limited") || t.Has("status:429") && !t.Has("status:503") && !t.Has("status:500"):
			return "rate-limited-or-trial-limit"
		case t.Has("status:503") && t.Has("status:429"):
			return "breaker-rejected"
		case t.Has("status:503"):
			for _, it := range t.Items {
				if it.Label == "status:503" && it.Frame != nil && it.Frame.Fn.Name() != "ServeHTTP" {
					return "no-healthy-backend"
				}
			}
			return "breaker-open"
		}
		return "other"
	}
	c.traceRuleSplit("one-outcome-per-request", "loadbalancer.(*LoadBalancer).ServeHTTP", serve, c.lbSpec(),
		"exactly one of {RecordRateLimitedRequest, RecordResponse} on every exit",
		func(t *Trace) (string, string) {
			n := t.Count("count-limited")
			for _, it := range t.Items {
				if strings.HasPrefix(it.Label, "record-response(") {
					n++
				}
			}
			cx := reqCtx(t)
			if n != 1 {
				return cx, fmt.Sprintf("%d outcome events on a %s", n, exitName(t))
			}
			return cx, ""
		})
	proxy := p.Fn("internal/loadbalancer", "LoadBalancer", "proxyRequest")
	byExit := func(f func(t *Trace) string) func(t *Trace) (string, string) {
		return func(t *Trace) (string, string) {
			if t.Exit == ExitPanic {
				return "panic-exit", f(t)
			}
			return "normal-exit", f(t)
		}
	}
	c.traceRuleSplit("gauge-paired", "loadbalancer.(*LoadBalancer).proxyRequest", proxy, c.lbSpec(),
		"IncrementConnections is matched by DecrementConnections, each followed by its metrics mirror, and the proxy call lies between them",
		byExit(func(t *Trace) string {
			inc, dec := t.Count("inc"), t.Count("dec")
			if inc != 1 {
				return fmt.Sprintf("in-flight gauge incremented %d times", inc)
			}
			if dec != 1 {
				return fmt.Sprintf("in-flight gauge incremented but decremented %d times on a %s (the gauge never returns to zero and least_connections is biased away from the backend for ever)", dec, exitName(t))
			}
			ii, di, pi := t.Index("inc", 0), t.Index("dec", 0), t.Index("proxy", 0)
			if pi < 0 || !(ii < pi && pi < di) {
				return "the proxied exchange is not bracketed by the gauge increment and decrement"
			}
			for _, at := range []int{ii, di} {
				ok := false
				for j := at + 1; j < len(t.Items); j++ {
					l := t.Items[j].Label
					if strings.HasPrefix(l, "upd-conn(") {
						ok = strings.Contains(l, "Backend.Name")
						break
					}
					if l == "proxy" || l == "inc" || l == "dec" {
						break
					}
				}
				if !ok {
					return "gauge change is not mirrored to the metrics collector (UpdateBackendConnections for the same backend)"
				}
			}
			return ""
		}))
	c.traceRuleSplit("backend-sample-once", "loadbalancer.(*LoadBalancer).proxyRequest", proxy, c.lbSpec(),
		"exactly one RecordBackendRequest per proxied request, for the proxied backend, agreeing with RecordResponse; success ≡ captured status < 500",
		byExit(func(t *Trace) string {
			var be, resp []Item
			for _, it := range t.Items {
				if strings.HasPrefix(it.Label, "record-backend(") {
					be = append(be, it)
				}
				if strings.HasPrefix(it.Label, "record-response(") {
					resp = append(resp, it)
				}
			}
			if len(be) != 1 {
				return fmt.Sprintf("%d per-backend samples recorded on a %s of a proxied request", len(be), exitName(t))
			}
			if len(resp) != 1 {
				return fmt.Sprintf("%d global outcome events on a %s of a proxied request", len(resp), exitName(t))
			}
			bArgs := CallArgs(be[0].Instr.(ssa.CallInstruction))
			rArgs := CallArgs(resp[0].Instr.(ssa.CallInstruction))
			if d := p.Desc(bArgs[0], be[0].Frame); d != "fld:loadbalancer.Backend.Name" {
				return "per-backend sample is not recorded under the proxied backend's name: " + d
			}
			bd, rd := p.Desc(bArgs[1], be[0].Frame), p.Desc(rArgs[0], resp[0].Frame)
			if bd != rd {
				return "per-backend and global outcome flags differ: " + bd + " vs " + rd
			}
			r := p.RelOf(stripConv(rArgs[0]), true, resp[0].Frame)
			if o, ok := r.Orient("loadbalancer.responseWriter.statusCode", ""); !ok || !(o.Y == "" && o.Lo == negInf && o.Hi == 499) {
				return "success flag is not (captured status < 500): " + r.String()
			}
			return ""
		}))
	c.statusCaptured()
	c.gaugeWriters()
	lockDiscipline(c, func(k string) bool {
		return strings.HasPrefix(k, "metrics.Metrics.") || strings.HasPrefix(k, "metrics.BackendMetrics.") || k == "loadbalancer.Backend.ActiveConnections"
	})
}

// gaugeWriters: the in-flight gauge is changed only by ±1 in Increment/DecrementConnections, which
// only proxyRequest calls; the metrics mirror always receives the backend's own atomic reading.
func (c *Ctx) gaugeWriters() {
	p := c.P
	const field = "loadbalancer.Backend.ActiveConnections"
	fr := p.Freshness()
	var bad []string
	nWrites, nCalls := 0, 0
	for _, fn := range p.Funcs {
		if !p.InScope(fn) {
			continue
		}
		for _, a := range Accesses(fn) {
			if a.Key != field || fr.IsFresh(a.FA.X, 0) {
				continue
			}
			if a.Kind != "atomic" {
				if a.IsWrite() {
					bad = append(bad, p.InstrPos(a.Instr)+": "+p.FuncKey(fn)+" writes the in-flight gauge directly")
				}
				continue
			}
			ci := a.Instr.(ssa.CallInstruction)
			name := CalleeName(ci)
			if strings.HasPrefix(name, "sync/atomic.Load") {
				continue
			}
			nWrites++
			delta, isK := int64(0), false
			if name == "sync/atomic.AddInt32" {
				delta, isK = constInt(ci.Common().Args[1])
			}
			okFn := fn.Name() == "IncrementConnections" && delta == 1 || fn.Name() == "DecrementConnections" && delta == -1
			if !isK || !okFn {
				bad = append(bad, fmt.Sprintf("%s: %s changes the in-flight gauge with %s (only ±1 per request start/end keeps it equal to the number of in-flight requests; a reset or bulk change lets it go negative or stick above zero)", p.InstrPos(a.Instr), p.FuncKey(fn), name))
			}
		}
		for _, ci := range callsIn(fn) {
			n := CalleeName(ci)
			if strings.HasSuffix(n, "Backend).IncrementConnections") || strings.HasSuffix(n, "Backend).DecrementConnections") {
				nCalls++
				if outermost(fn).Name() != "proxyRequest" {
					bad = append(bad, p.InstrPos(ci)+": "+p.FuncKey(fn)+" changes a backend's in-flight gauge outside proxyRequest")
				}
			}
			if strings.HasSuffix(n, "MetricsCollector).UpdateBackendConnections") {
				args := CallArgs(ci)
				if d := p.Desc(args[1], nil); !strings.HasPrefix(d, "call:(*github.com/0xReLogic/Helios/internal/loadbalancer.Backend).GetActiveConnections(") {
					bad = append(bad, p.InstrPos(ci)+": "+p.FuncKey(fn)+" publishes a gauge value that is not the backend's own atomic reading: "+d)
				}
			}
		}
	}
	if len(bad) == 0 {
		c.Pass("gauge-writers", field, "-", fmt.Sprintf("%d atomic updates (±1 in Increment/DecrementConnections), %d call sites, all in proxyRequest", nWrites, nCalls))
	} else {
		c.Fail("gauge-writers", field, "-", bad[0], bad...)
	}
	c.Floor("gauge-writers", nWrites, 2, "gauge updates")
}

// statusCaptured: the status used for accounting and passive health checks is the last one the
// backend wrote: every path of responseWriter.WriteHeader stores its argument (C13, C04).
func (c *Ctx) statusCaptured() {
	p := c.P
	w := c.wrapperNamed("loadbalancer.responseWriter")
	if w == nil || w.Methods["WriteHeader"] == nil {
		c.Missing("status-captured", "loadbalancer.(*responseWriter).WriteHeader")
		return
	}
	c.traceRule("status-captured", "loadbalancer.(*responseWriter).WriteHeader", w.Methods["WriteHeader"], c.rwSpec(w),
		"every call stores the status it was given (an informational 1xx is overwritten by the final status)",
		func(t *Trace) string {
			for _, it := range t.Items {
				if strings.HasPrefix(it.Label, "store statusCode := param:") {
					return ""
				}
			}
			return "a WriteHeader call does not record its status: after an informational 1xx the final status (e.g. a 5xx) is invisible to accounting, passive health checks and the circuit breaker"
		})
	// and nothing else rewrites it except the abort marker in proxyRequest's deferred block
	for _, fn := range p.Funcs {
		if !p.InScope(fn) {
			continue
		}
		instrsOf(fn, func(in ssa.Instruction) {
			if k, st := storeKey(in); k == "loadbalancer.responseWriter.statusCode" && fn != w.Methods["WriteHeader"] {
				if c.P.Freshness().IsFresh(st.Addr.(*ssa.FieldAddr).X, 0) && fn.Parent() == nil {
					return // the initial value in the literal
				}
				if kk, ok := constInt(st.Val); ok && kk >= 500 {
					return // marking an aborted exchange as failed
				}
				c.Fail("status-captured", p.FuncKey(fn)+"/overwrites-status", p.InstrPos(st), "the captured status is overwritten outside WriteHeader with "+p.Desc(st.Val, nil))
			}
		})
	}
}
