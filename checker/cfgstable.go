package main

import (
	"fmt"
	"sort"
	"strings"

	"golang.org/x/tools/go/ssa"
)

// configStableAfterStart: the *config.Config loaded at start-up is shared by main and by everything
// main builds from it.  A field of it that some operation rewrites at run time (SetStrategy stores
// the new strategy name) may be read only
//
//   - with a lock the writer holds, or
//   - by start-up code that runs before the first goroutine that can reach the writer exists:
//     in main, the call that leads to the read comes strictly before every call that starts a
//     goroutine or a server from which the writer is reachable.
//
// Anything else is an unsynchronised read racing with the write (C12; for C11 the switch is "atomic
// with respect to" whoever reads the name).
func (c *Ctx) configStableAfterStart() {
	p := c.P
	li := p.Locks()
	fr := p.Freshness()
	type site struct {
		fn    *ssa.Function
		a     Access
		locks string
	}
	writers := map[string][]site{}
	readers := map[string][]site{}
	for _, fn := range p.Funcs {
		if !p.InScope(fn) {
			continue
		}
		for _, a := range Accesses(fn) {
			if !strings.HasPrefix(a.Key, "config.") {
				continue
			}
			s := site{fn: fn, a: a}
			if a.IsWrite() {
				if fr.IsFresh(a.FA.X, 0) {
					continue // an object still under construction
				}
				pk := fnPkg(fn)
				if pk != nil && strings.HasSuffix(pk.Pkg.Path(), "/internal/config") {
					continue // loading and defaulting, before the object is handed out
				}
				writers[a.Key] = append(writers[a.Key], s)
			} else if a.Kind == "read" || a.Kind == "elem-read" {
				readers[a.Key] = append(readers[a.Key], s)
			}
		}
	}
	var keys []string
	for k := range writers {
		keys = append(keys, k)
	}
	sort.Strings(keys)
	if len(keys) == 0 {
		c.Pass("config-stable-after-start", "config.Config", "-", "no field of the loaded configuration is stored after loading")
		return
	}
	// Helios-only reference graph: static calls, resolved invokes, closures and function values
	refs := map[*ssa.Function][]*ssa.Function{}
	starts := map[*ssa.Function]bool{} // contains a go statement or starts a server
	for _, fn := range p.Funcs {
		if !p.InScope(fn) {
			continue
		}
		instrsOf(fn, func(in ssa.Instruction) {
			if _, isGo := in.(*ssa.Go); isGo {
				starts[fn] = true
			}
			if ci, ok := in.(ssa.CallInstruction); ok {
				n := CalleeName(ci)
				if strings.HasPrefix(n, "(*net/http.Server).ListenAndServe") || strings.HasPrefix(n, "(*net/http.Server).Serve") || strings.HasPrefix(n, "net/http.ListenAndServe") || strings.HasPrefix(n, "net/http.Serve") {
					starts[fn] = true
				}
				for _, callee := range p.Callees(ci) {
					if p.InScope(callee) {
						refs[fn] = append(refs[fn], callee)
					}
				}
			}
			for _, op := range in.Operands(nil) {
				if op == nil || *op == nil {
					continue
				}
				switch v := (*op).(type) {
				case *ssa.Function:
					if p.InScope(v) {
						refs[fn] = append(refs[fn], v)
					}
				case *ssa.MakeClosure:
					if f, ok := v.Fn.(*ssa.Function); ok && p.InScope(f) {
						refs[fn] = append(refs[fn], f)
					}
				}
			}
		})
		for _, an := range fn.AnonFuncs {
			refs[fn] = append(refs[fn], an)
		}
	}
	reach := func(from *ssa.Function) map[*ssa.Function]bool {
		seen := map[*ssa.Function]bool{from: true}
		work := []*ssa.Function{from}
		for len(work) > 0 {
			f := work[len(work)-1]
			work = work[:len(work)-1]
			for _, g := range refs[f] {
				if !seen[g] {
					seen[g] = true
					work = append(work, g)
				}
			}
		}
		return seen
	}
	mainFn := p.Fn("cmd/helios", "", "main")
	if mainFn == nil {
		c.Missing("config-stable-after-start", "cmd/helios.main")
		return
	}
	// the calls of main in program order, with what each reaches
	type mcall struct {
		ci    ssa.CallInstruction
		reach map[*ssa.Function]bool
		name  string
	}
	var calls []mcall
	for _, b := range mainFn.DomPreorder() {
		for _, in := range b.Instrs {
			ci, ok := in.(ssa.CallInstruction)
			if !ok {
				continue
			}
			for _, callee := range p.Callees(ci) {
				if p.InScope(callee) {
					calls = append(calls, mcall{ci: ci, reach: reach(callee), name: p.FuncKey(callee)})
				}
			}
		}
	}
	before := func(a, b ssa.Instruction) bool { // a strictly precedes b on every path through main
		if a == b {
			return false
		}
		if a.Block() == b.Block() {
			for _, in := range a.Block().Instrs {
				if in == a {
					return true
				}
				if in == b {
					return false
				}
			}
		}
		return a.Block().Dominates(b.Block()) && !blockReaches(b.Block(), a.Block())
	}
	fromMainOnly := reach(mainFn)
	n := 0
	for _, key := range keys {
		ws := writers[key]
		// lock classes every writer holds in write mode
		var common []string
		for i, w := range ws {
			var held []string
			for _, h := range li.Fns[w.fn].Must[w.a.Instr] {
				if h.Mode == 'W' {
					held = append(held, h.Class)
				}
			}
			sort.Strings(held)
			if i == 0 {
				common = held
			} else {
				var keep []string
				for _, x := range common {
					for _, y := range held {
						if x == y {
							keep = append(keep, x)
						}
					}
				}
				common = keep
			}
		}
		writerFns := map[*ssa.Function]bool{}
		var wdesc []string
		for _, w := range ws {
			writerFns[w.fn] = true
			wdesc = append(wdesc, p.FuncKey(w.fn)+" @ "+p.InstrPos(w.a.Instr))
		}
		// the calls of main that start something from which a writer is reachable
		var starters []mcall
		for _, mc := range calls {
			st, wr := false, false
			for f := range mc.reach {
				if starts[f] {
					st = true
				}
				if writerFns[f] {
					wr = true
				}
			}
			if st && wr {
				starters = append(starters, mc)
			}
		}
		n++
		construct := key
		if len(common) == 0 {
			c.Fail("config-stable-after-start", construct, p.InstrPos(ws[0].a.Instr), "the configuration field is stored at run time without a write lock ("+strings.Join(wdesc, "; ")+")")
			continue
		}
		var bad []string
		for _, r := range readers[key] {
			ls := li.Fns[r.fn].Must[r.a.Instr]
			locked := false
			for _, cl := range common {
				if ls.HoldsClass(cl) != 0 {
					locked = true
				}
			}
			if locked {
				continue
			}
			// start-up code: every call of main that reaches this read precedes every starter
			reached := false
			ok := true
			why := ""
			for _, mc := range calls {
				if !mc.reach[r.fn] {
					continue
				}
				reached = true
				for _, st := range starters {
					if !before(mc.ci, st.ci) {
						ok = false
						why = fmt.Sprintf("main calls %s (which reads it) at %s, not before %s at %s, which starts a goroutine or server from which %s is reachable", mc.name, p.InstrPos(mc.ci), st.name, p.InstrPos(st.ci), p.FuncKey(ws[0].fn))
					}
				}
			}
			if r.fn == mainFn {
				reached = true
				for _, st := range starters {
					if !before(r.a.Instr, st.ci) {
						ok = false
						why = fmt.Sprintf("main reads it at %s, not before %s at %s", p.InstrPos(r.a.Instr), st.name, p.InstrPos(st.ci))
					}
				}
			}
			if !reached || !fromMainOnly[r.fn] {
				ok = false
				why = "read outside start-up code without " + strings.Join(common, "/")
			}
			// … and the reading function must not also be reachable from a goroutine or handler
			if ok {
				for f := range starts {
					for _, g := range goroutineRoots(f) {
						if reach(g)[r.fn] {
							ok = false
							why = "the reading function also runs on a goroutine started in " + p.FuncKey(f)
						}
					}
				}
			}
			if !ok {
				bad = append(bad, fmt.Sprintf("%s: %s reads %s without %s while %s stores it under that lock: %s", p.InstrPos(r.a.Instr), p.FuncKey(r.fn), key, strings.Join(common, "/"), p.FuncKey(ws[0].fn), why))
			}
		}
		if len(bad) == 0 {
			c.Pass("config-stable-after-start", construct, p.InstrPos(ws[0].a.Instr), fmt.Sprintf("stored under %s by %s; %d reads, each under that lock or in start-up code that precedes every goroutine that can reach the writer", strings.Join(common, "/"), strings.Join(wdesc, "; "), len(readers[key])))
		} else {
			c.Fail("config-stable-after-start", construct, p.InstrPos(ws[0].a.Instr), bad[0], bad...)
		}
	}
	c.Floor("config-stable-after-start", n, 1, "configuration fields stored at run time")
}

// goroutineRoots: the functions a go statement of fn starts.
func goroutineRoots(fn *ssa.Function) []*ssa.Function {
	var out []*ssa.Function
	instrsOf(fn, func(in ssa.Instruction) {
		g, ok := in.(*ssa.Go)
		if !ok {
			return
		}
		switch v := g.Call.Value.(type) {
		case *ssa.Function:
			out = append(out, v)
		case *ssa.MakeClosure:
			if f, ok := v.Fn.(*ssa.Function); ok {
				out = append(out, f)
			}
		}
	})
	return out
}

func blockReaches(from, to *ssa.BasicBlock) bool {
	seen := map[*ssa.BasicBlock]bool{}
	var walk func(b *ssa.BasicBlock) bool
	walk = func(b *ssa.BasicBlock) bool {
		if b == to {
			return true
		}
		if seen[b] {
			return false
		}
		seen[b] = true
		for _, s := range b.Succs {
			if walk(s) {
				return true
			}
		}
		return false
	}
	for _, s := range from.Succs {
		if walk(s) {
			return true
		}
	}
	return false
}
