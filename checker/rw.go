package main

import (
	"fmt"
	"go/token"
	"go/types"
	"sort"
	"strings"

	"golang.org/x/tools/go/ssa"
)

// RW engine: http.ResponseWriter wrappers — discovery, optional-interface forwarding and the header
// typestate (recorded status is delivered; headers are not mutated after the header block was
// committed to the underlying writer).

type Wrapper struct {
	Named   *types.Named
	Key     string // "plugins.gzipResponseWriter"
	Pkg     string // "internal/plugins"
	Embed   string // name of the embedded field ("ResponseWriter")
	Methods map[string]*ssa.Function
	// Creators: functions that build &T{…} and hand it to a handler's ServeHTTP.
	Creators []*ssa.Function
}

func (c *Ctx) wrappers() []*Wrapper {
	p := c.P
	var out []*Wrapper
	for _, pk := range p.Pkgs {
		if !p.inScope[pk.PkgPath] {
			continue
		}
		sp := p.SSAPkg[pk.PkgPath]
		for _, m := range sp.Members {
			t, ok := m.(*ssa.Type)
			if !ok {
				continue
			}
			n, ok := t.Type().(*types.Named)
			if !ok {
				continue
			}
			st, ok := n.Underlying().(*types.Struct)
			if !ok {
				continue
			}
			embed := ""
			for i := 0; i < st.NumFields(); i++ {
				f := st.Field(i)
				if f.Embedded() && f.Type().String() == "net/http.ResponseWriter" {
					embed = f.Name()
				}
			}
			if embed == "" {
				continue
			}
			w := &Wrapper{Named: n, Key: QualType(n), Pkg: strings.TrimPrefix(pk.PkgPath, modPath+"/"), Embed: embed, Methods: map[string]*ssa.Function{}}
			ms := p.SSA.MethodSets.MethodSet(types.NewPointer(n))
			for i := 0; i < ms.Len(); i++ {
				fn := p.SSA.MethodValue(ms.At(i))
				if fn != nil && fn.Synthetic == "" && p.IsHelios(fn) {
					w.Methods[fn.Name()] = fn
				}
			}
			out = append(out, w)
		}
	}
	// creators
	for _, fn := range p.Funcs {
		if !p.InScope(fn) {
			continue
		}
		instrsOf(fn, func(in ssa.Instruction) {
			a, ok := in.(*ssa.Alloc)
			if !ok {
				return
			}
			n := namedOf(a.Type())
			for _, w := range out {
				if n != nil && types.Identical(n, w.Named) {
					dup := false
					for _, f := range w.Creators {
						if f == fn {
							dup = true
						}
					}
					if !dup {
						w.Creators = append(w.Creators, fn)
					}
				}
			}
		})
	}
	for _, fn := range p.Funcs {
		if !p.InScope(fn) {
			continue
		}
		for _, ci := range callsIn(fn) {
			if CalleeName(ci) != "(net/http.Handler).ServeHTTP" || len(ci.Common().Args) != 2 {
				continue
			}
			n := namedOf(stripConv(ci.Common().Args[0]).Type())
			for _, w := range out {
				if n != nil && types.Identical(n, w.Named) {
					dup := false
					for _, f := range w.Creators {
						if f == fn {
							dup = true
						}
					}
					if !dup {
						w.Creators = append(w.Creators, fn)
					}
				}
			}
		}
	}
	for _, w := range out {
		// keep only the functions that hand the wrapper to a handler (a pool's New func merely allocates)
		var keep []*ssa.Function
		for _, f := range w.Creators {
			hands := false
			for _, ci := range callsIn(f) {
				if CalleeName(ci) == "(net/http.Handler).ServeHTTP" || CalleeName(ci) == "(*net/http/httputil.ReverseProxy).ServeHTTP" {
					hands = true
				}
			}
			if hands {
				keep = append(keep, f)
			}
		}
		w.Creators = keep
	}
	sort.Slice(out, func(i, j int) bool { return out[i].Key < out[j].Key })
	return out
}

// rwFreshPerRequest: the wrapper a request is served through starts from a clean state: it is a
// fresh allocation, or every field of it is re-initialised before the downstream handler runs.
func (c *Ctx) rwFreshPerRequest(w *Wrapper) {
	p := c.P
	st := w.Named.Underlying().(*types.Struct)
	for _, cr := range w.Creators {
		ckey := w.Key + "@" + p.FuncKey(cr)
		var handed ssa.Value
		var at ssa.Instruction
		for _, ci := range callsIn(cr) {
			n := CalleeName(ci)
			if (n == "(net/http.Handler).ServeHTTP" || n == "(*net/http/httputil.ReverseProxy).ServeHTTP") && len(ci.Common().Args) >= 2 {
				a := ci.Common().Args[0]
				if n != "(net/http.Handler).ServeHTTP" {
					a = ci.Common().Args[1]
				}
				if nt := namedOf(stripConv(a).Type()); nt != nil && types.Identical(nt, w.Named) {
					handed, at = stripConv(a), ci
				}
			}
		}
		if handed == nil {
			continue
		}
		root := rootOf(handed)
		for i := 0; i < 4; i++ { // look through local variable cells holding the pointer
			a, isAlloc := root.(*ssa.Alloc)
			if !isAlloc {
				break
			}
			if _, isPtrCell := a.Type().(*types.Pointer).Elem().Underlying().(*types.Pointer); !isPtrCell {
				break
			}
			var stored ssa.Value
			n := 0
			if refs := a.Referrers(); refs != nil {
				for _, r := range *refs {
					if st, ok := r.(*ssa.Store); ok && st.Addr == a {
						stored = st.Val
						n++
					}
				}
			}
			if n != 1 {
				break
			}
			root = rootOf(stripConv(stored))
		}
		if _, isAlloc := root.(*ssa.Alloc); isAlloc {
			c.Pass("wrapper-fresh-per-request", ckey, p.InstrPos(at), "the writer handed to the downstream handler is allocated for this request")
			continue
		}
		if call, isCall := root.(*ssa.Call); isCall && returnsNewObject(StaticFn(call), 0) {
			// built by a constructor helper every return of which yields a new object
			c.Pass("wrapper-fresh-per-request", ckey, p.InstrPos(at), "the writer handed to the downstream handler is allocated for this request by "+CalleeName(call))
			continue
		}
		// recycled object: which fields are (re)initialised before the hand-over?
		set := map[string]bool{}
		sp := c.rwSpec(w)
		sp.P = p
		for _, t := range sp.Walk(cr) {
			ni := t.Index("next", 0)
			if ni < 0 {
				continue
			}
			cur := map[string]bool{}
			for _, it := range t.Items[:ni] {
				if strings.HasPrefix(it.Label, "store ") {
					cur[strings.SplitN(strings.TrimPrefix(it.Label, "store "), " ", 2)[0]] = true
				}
			}
			if len(set) == 0 {
				set = cur
			} else {
				for k := range set {
					if !cur[k] {
						delete(set, k)
					}
				}
			}
		}
		var missing []string
		for i := 0; i < st.NumFields(); i++ {
			if !set[canonFieldName(w.Named, st.Field(i).Name())] {
				missing = append(missing, st.Field(i).Name())
			}
		}
		c.Check(len(missing) == 0, "wrapper-fresh-per-request", ckey, p.InstrPos(at),
			"the recycled writer has every field re-initialised before the handler runs",
			fmt.Sprintf("the writer handed to the downstream handler is recycled (%s) and field(s) %v keep the previous request's value: state of an earlier response (e.g. a reached limit, buffered bytes, a sent-header flag) leaks into this one", p.Desc(root, nil), missing))
	}
}

// embCall: is ci a call of method `name` on the embedded ResponseWriter of wrapper w (directly, or
// through a type assertion of it to an optional interface)?
func (w *Wrapper) embCall(p *Program, ci ssa.CallInstruction, fr *Frame) (string, bool) {
	cc := ci.Common()
	if !cc.IsInvoke() {
		// http.NewResponseController(w.ResponseWriter).Flush() / .Hijack(): the controller calls the
		// embedded writer's FlushError/Flush or Hijack (directly or through its Unwrap chain)
		switch n := CalleeName(ci); n {
		case "(*net/http.ResponseController).Flush", "(*net/http.ResponseController).Hijack":
			if len(cc.Args) > 0 {
				if mk, ok := cc.Args[0].(*ssa.Call); ok && CalleeName(mk) == "net/http.NewResponseController" && len(mk.Call.Args) == 1 {
					if strings.Contains(p.Desc(mk.Call.Args[0], fr), "fld:"+w.Key+"."+w.Embed) {
						return strings.TrimPrefix(n, "(*net/http.ResponseController)."), true
					}
				}
			}
		}
		return "", false
	}
	recvT := cc.Value.Type().String()
	switch recvT {
	case "net/http.ResponseWriter", "net/http.Flusher", "net/http.Hijacker":
	default:
		return "", false
	}
	d := p.Desc(cc.Value, fr)
	if strings.Contains(d, "fld:"+w.Key+"."+w.Embed) {
		return cc.Method.Name(), true
	}
	return "", false
}

// rwSpec: events of one wrapper.
//
//	emb:WriteHeader(<status desc>) emb:Write emb:Flush emb:Hijack emb:Header
//	hdr:Set(<key>) hdr:Del(<key>) hdr:Add(<key>)        header mutation through the wrapper or the embedded writer
//	next                                                  downstream handler invoked with the wrapper
//	store <field> := v                                    wrapper state
func (c *Ctx) rwSpec(w *Wrapper) *Spec {
	p := c.P
	return &Spec{
		Event: func(in ssa.Instruction, fr *Frame) string {
			if k, st := storeKey(in); strings.HasPrefix(k, w.Key+".") {
				return "store " + strings.TrimPrefix(k, w.Key+".") + " := " + p.Desc(st.Val, fr)
			}
			ci, ok := in.(ssa.CallInstruction)
			if !ok {
				return ""
			}
			if m, ok := w.embCall(p, ci, fr); ok {
				if m == "WriteHeader" {
					return "emb:WriteHeader(" + p.Desc(ci.Common().Args[0], fr) + ")"
				}
				if m == "Header" {
					return ""
				}
				return "emb:" + m
			}
			n := CalleeName(ci)
			switch n {
			case "(net/http.Header).Set", "(net/http.Header).Del", "(net/http.Header).Add":
				args := ci.Common().Args
				d := p.Desc(args[0], fr)
				if strings.Contains(d, "ResponseWriter).Header(") || strings.Contains(d, w.Key+".") {
					return "hdr:" + strings.TrimPrefix(n, "(net/http.Header).") + "(" + p.Desc(args[1], fr) + ")"
				}
			case "(net/http.Handler).ServeHTTP":
				args := ci.Common().Args
				if len(args) == 2 {
					if n := namedOf(stripConv(args[0]).Type()); n != nil && types.Identical(n, w.Named) {
						return "next"
					}
				}
				return "next-unwrapped"
			case "compress/gzip.NewWriterLevel":
				return "gzip-writer"
			case "(*bytes.Buffer).Write":
				if strings.Contains(p.Desc(ci.Common().Args[0], fr), "fld:"+w.Key+".") {
					return "buffer-write"
				}
			case "(*compress/gzip.Writer).Write":
				return "gzip-write"
			case "net/http.Error":
				// on the embedded writer itself it is WriteHeader(code) followed by a Write of the message
				if strings.Contains(p.Desc(ci.Common().Args[0], fr), "fld:"+w.Key+"."+w.Embed) {
					return "emb:WriteHeader(" + p.Desc(ci.Common().Args[2], fr) + ")\x00emb:Write"
				}
				if code, ok := constInt(ci.Common().Args[2]); ok {
					return "status:" + itoa(code)
				}
			case "net/http.MaxBytesReader":
				return "max-bytes-reader(" + p.Desc(ci.Common().Args[2], fr) + ")"
			}
			return ""
		},
		Cond: func(in *ssa.If, fr *Frame) string {
			d := p.Desc(in.Cond, fr)
			if strings.Contains(d, w.Key+".") || strings.HasPrefix(d, "(param:") || strings.Contains(d, "Header).Get") || strings.Contains(d, "ContentLength") || strings.Contains(d, "len(") ||
				strings.Contains(d, "matchesContentType") || strings.Contains(d, "shouldCompress") || strings.Contains(d, "containsGzip") || strings.Contains(d, "NewWriterLevel") {
				return "if " + d
			}
			return ""
		},
		Expand: func(callee *ssa.Function, site ssa.CallInstruction) bool {
			if callee.Signature.Recv() != nil {
				if n := namedOf(callee.Signature.Recv().Type()); n != nil && types.Identical(n, w.Named) {
					return true
				}
				return false
			}
			// an unexported helper of the wrapper's package that is handed the response writer (the
			// rejection answer moved out of the handler: log + http.Error(w, …, 413))
			if callee.Parent() == nil && callee.Object() != nil && !callee.Object().Exported() && fnPkg(callee) != nil && w.Named.Obj().Pkg() != nil && fnPkg(callee).Pkg == w.Named.Obj().Pkg() {
				ps := callee.Signature.Params()
				for i := 0; i < ps.Len(); i++ {
					if ps.At(i).Type().String() == "net/http.ResponseWriter" {
						return true
					}
				}
			}
			return false
		},
	}
}

func isCommit(label string) bool {
	return strings.HasPrefix(label, "emb:WriteHeader(") || label == "emb:Write" || label == "emb:Flush"
}

// boolFields lists the bool fields of the wrapper.
func (w *Wrapper) boolFields() []string {
	st := w.Named.Underlying().(*types.Struct)
	var out []string
	for i := 0; i < st.NumFields(); i++ {
		if b, ok := st.Field(i).Type().Underlying().(*types.Basic); ok && b.Kind() == types.Bool {
			out = append(out, canonFieldName(w.Named, st.Field(i).Name()))
		}
	}
	return out
}

// flagTrue: the trace establishes flag true (store or test) before index idx (or anywhere if idx<0).
func (c *Ctx) flagTrue(w *Wrapper, t *Trace, flag string, idx int) bool {
	for i, it := range t.Items {
		if idx >= 0 && i >= idx {
			break
		}
		if it.Label == "store "+flag+" := k:true" {
			return true
		}
		if _, isIf := it.Instr.(*ssa.If); isIf {
			if o, ok := c.condRel(it).Orient("fld:"+w.Key+"."+flag, ""); ok && o.Y == "" && o.Pred == "" && !o.Neq && o.Lo == 1 && o.Hi == 1 {
				return true
			}
		}
	}
	return false
}

type wrapperFacts struct {
	Forwarding  bool            // WriteHeader forwards on every path
	Deferring   bool            // WriteHeader never forwards
	Excusers    map[string]bool // flags that are only ever set together with a commit
	CommitFlags map[string]bool // flags whose falsity proves that nothing was committed yet
	traces      map[string][]*Trace
}

// analyseWrapper computes the typestate facts of a wrapper from its methods.
func (c *Ctx) analyseWrapper(w *Wrapper) *wrapperFacts {
	f := &wrapperFacts{Excusers: map[string]bool{}, CommitFlags: map[string]bool{}, traces: map[string][]*Trace{}}
	var names []string
	for n := range w.Methods {
		names = append(names, n)
	}
	sort.Strings(names)
	for _, n := range names {
		sp := c.rwSpec(w)
		sp.P = c.P
		f.traces[n] = sp.Walk(w.Methods[n])
		c.Count("paths_enumerated", len(f.traces[n]))
	}
	flags := w.boolFields()
	// excusers: every store flag := true is on a trace with a commit event
	for _, fl := range flags {
		ok, seen := true, false
		for _, ts := range f.traces {
			for _, t := range ts {
				if t.Index("store "+fl+" := k:true", 0) < 0 {
					continue
				}
				seen = true
				has := false
				for _, it := range t.Items {
					if isCommit(it.Label) {
						has = true
					}
				}
				if !has {
					ok = false
				}
			}
		}
		if ok && seen {
			f.Excusers[fl] = true
		}
	}
	if wh, ok := f.traces["WriteHeader"]; ok {
		nFwd, nRec := 0, 0
		for _, t := range wh {
			has := false
			for _, it := range t.Items {
				if strings.HasPrefix(it.Label, "emb:WriteHeader(") {
					has = true
				}
			}
			already := false
			for e := range f.Excusers {
				if c.flagTrueByTest(w, t, e, len(t.Items)) {
					already = true // header was sent before: nothing to do on this path
				}
			}
			// a status net/http would refuse (outside 100..999) handed straight to the embedded writer,
			// so that it panics on the handler's goroutine: not part of the wrapper's own protocol
			invalid := c.invalidStatusPath(t)
			switch {
			case has && invalid:
			case has:
				nFwd++
			case !already:
				nRec++
			}
		}
		f.Forwarding, f.Deferring = nFwd > 0 && nRec == 0, nFwd == 0
	} else {
		f.Forwarding = true // promoted from the embedded interface
	}
	// commit flags
	for _, fl := range flags {
		ok := true
		for name, ts := range f.traces {
			switch name {
			case "Write", "WriteHeader", "Flush", "FlushError", "ReadFrom", "Push":
			default:
				continue // only what a downstream handler can call
			}
			for _, t := range ts {
				for i, it := range t.Items {
					if !isCommit(it.Label) {
						continue
					}
					excused := false
					for e := range f.Excusers {
						if c.flagTrueByTest(w, t, e, i) {
							excused = true
						}
					}
					if excused {
						continue
					}
					if !c.flagTrue(w, t, fl, -1) {
						ok = false
					}
				}
			}
		}
		if ok {
			f.CommitFlags[fl] = true
		}
	}
	return f
}

// infeasibleAfter: after index from, the path tests a commit flag false (nothing was sent) and then,
// with no commit in between, a commit-implied flag true (something was sent): contradictory.
func (c *Ctx) infeasibleAfter(w *Wrapper, f *wrapperFacts, t *Trace, from int) bool {
	noCommit := false
	for j := from; j < len(t.Items); j++ {
		it := t.Items[j]
		if isCommit(it.Label) {
			noCommit = false
			continue
		}
		if _, isIf := it.Instr.(*ssa.If); !isIf {
			continue
		}
		r := c.condRel(it)
		for fl := range f.CommitFlags {
			if o, ok := r.Orient("fld:"+w.Key+"."+fl, ""); ok && o.Y == "" && o.Pred == "" && !o.Neq && o.Lo == 0 && o.Hi == 0 {
				noCommit = true
			}
		}
		if noCommit {
			for fl := range f.Excusers {
				if o, ok := r.Orient("fld:"+w.Key+"."+fl, ""); ok && o.Y == "" && o.Pred == "" && !o.Neq && o.Lo == 1 && o.Hi == 1 {
					return true
				}
			}
		}
	}
	return false
}

// flagTrueByTest: flag tested true (not stored) before idx.
func (c *Ctx) flagTrueByTest(w *Wrapper, t *Trace, flag string, idx int) bool {
	for i, it := range t.Items {
		if i >= idx {
			break
		}
		if _, isIf := it.Instr.(*ssa.If); isIf {
			if o, ok := c.condRel(it).Orient("fld:"+w.Key+"."+flag, ""); ok && o.Y == "" && o.Pred == "" && !o.Neq && o.Lo == 1 && o.Hi == 1 {
				return true
			}
		}
	}
	return false
}

// rwForwarding: optional interfaces survive the wrapper (C01, C14, C15, C20).
func (c *Ctx) rwForwarding(ws []*Wrapper, needHijack, needFlush bool, sel func(*Wrapper) bool) {
	p := c.P
	for _, w := range ws {
		if sel != nil && !sel(w) {
			continue
		}
		unwrap := false
		if u := w.Methods["Unwrap"]; u != nil {
			instrsOf(u, func(in ssa.Instruction) {
				if r, ok := in.(*ssa.Return); ok && len(r.Results) == 1 && strings.Contains(p.Desc(r.Results[0], nil), "fld:"+w.Key+"."+w.Embed) {
					unwrap = true
				}
			})
		}
		pos := p.Pos(w.Named.Obj().Pos())
		var checkAs func(rule, method, embMethod, iface string)
		check := func(rule, method, iface string) { checkAs(rule, method, method, iface) }
		checkAs = func(rule, name, method, iface string) {
			fn := w.Methods[name]
			construct := w.Key
			if name != method {
				construct = w.Key + "/" + name
			}
			ok := false
			detail := "wrapper has no " + method + " method and no Unwrap: an embedded interface promotes only Header/Write/WriteHeader, so " + iface + " support is silently dropped"
			if fn != nil {
				sp := c.rwSpec(w)
				sp.P = p
				reach, direct := false, true
				swallowed := ""
				for _, t := range sp.Walk(fn) {
					if !t.Has("emb:"+method) && t.Exit == ExitNormal {
						// only acceptable when the embedded writer does not implement the interface
						unsupported := false
						for _, it := range t.Items {
							ifi, isIf := it.Instr.(*ssa.If)
							if !isIf {
								continue
							}
							cond, pol := ifi.Cond, it.Pol
							if u, isNot := cond.(*ssa.UnOp); isNot && u.Op == token.NOT {
								cond, pol = u.X, !pol
							}
							if ex, isEx := cond.(*ssa.Extract); isEx && ex.Index == 1 && !pol {
								if _, isTA := ex.Tuple.(*ssa.TypeAssert); isTA {
									unsupported = true
								}
							}
						}
						if !unsupported && swallowed == "" && !(method == "Flush" && w.buffersBody()) {
							// (a wrapper that holds the body back in a buffer has nothing to flush while it does)
							swallowed = t.String()
						}
					}
					if t.Has("emb:" + method) {
						reach = true
						if method == "Hijack" {
							// the hijacked connection must be returned unwrapped
							if r, isRet := t.RetInstr.(*ssa.Return); isRet {
								for _, v := range r.Results {
									d := p.Desc(v, nil)
									if !strings.Contains(d, "call:(net/http.Hijacker).Hijack") && !strings.Contains(d, "call:(*net/http.ResponseController).Hijack") && !strings.Contains(d, "phi(") && !strings.HasPrefix(d, "var:") {
										direct = false
									}
								}
							}
						}
					}
				}
				ok = reach && direct && swallowed == ""
				if !reach {
					detail = method + " never reaches the embedded writer's " + method
				} else if !direct {
					detail = "Hijack does not return the underlying connection as is"
				} else if swallowed != "" {
					detail = method + " returns without reaching the embedded writer's " + method + " although that writer supports it (a flush of the response head before the first body byte, an SSE keep-alive, … is swallowed; http.ResponseController prefers this method over Unwrap): " + firstN(swallowed, 300)
				}
			}
			if !ok && unwrap && fn == nil {
				// Unwrap serves callers that go through http.ResponseController; a wrapper further out
				// that looks for the interface by type assertion on the writer it wraps does not see it
				if by := c.assertBasedForwarders(ws, w, method); len(by) > 0 {
					c.Fail(rule, construct, pos, "the wrapper offers only Unwrap, but "+strings.Join(by, ", ")+" find(s) "+iface+" by a type assertion on the writer it wraps: whenever this wrapper is that writer (the plugin order is configuration) the assertion fails and "+method+" is refused — a WebSocket upgrade is answered 502, a streamed chunk waits for the end of the response")
					return
				}
			}
			if ok || (unwrap && fn == nil) {
				c.Pass(rule, construct, pos, map[bool]string{true: name + " forwards to the embedded writer", false: "Unwrap exposes the embedded writer to http.ResponseController (no wrapper looks for the interface by type assertion)"}[ok])
			} else {
				c.Fail(rule, construct, pos, detail)
			}
		}
		if needHijack {
			check("wrapper-forwards-hijack", "Hijack", "http.Hijacker (WebSocket upgrade)")
		}
		if needFlush {
			check("wrapper-forwards-flush", "Flush", "http.Flusher (streaming, SSE)")
			if w.Methods["FlushError"] != nil {
				// preferred by http.ResponseController over Flush: it must flush just as well
				checkAs("wrapper-forwards-flush", "FlushError", "Flush", "http.Flusher (streaming, SSE)")
			}
		}
	}
}

// rwHeaderTypestate: for one wrapper, (1) the wroteHeader-style invariant, (2) recorded status is
// delivered by Write/Flush and by the creator after the handler returns, (3) no header mutation
// after commit.
func (c *Ctx) rwHeaderTypestate(w *Wrapper) {
	p := c.P
	f := c.analyseWrapper(w)
	pos := p.Pos(w.Named.Obj().Pos())
	kind := "mixed"
	if f.Forwarding {
		kind = "forwarding"
	} else if f.Deferring {
		kind = "deferring"
	}
	c.rwFreshPerRequest(w)
	c.rwWriteDoesNotRetain(w)
	c.Pass("wrapper-classified", w.Key, pos, fmt.Sprintf("WriteHeader is %s; commit-implied flags %v; flags whose falsity means nothing was sent %v", kind, keys(f.Excusers), keys(f.CommitFlags)))
	if kind == "mixed" {
		c.Undecided("wrapper-classified", w.Key+"/WriteHeader", pos, "WriteHeader forwards on some paths and records on others; the typestate rules do not model this")
		return
	}
	// (2a) body/flush methods commit the recorded status first
	if f.Deferring {
		for _, m := range []string{"Write", "Flush", "FlushError", "ReadFrom"} {
			// (FlushError is what http.ResponseController — and so the reverse proxy's streaming
			// copy — prefers over Flush)
			ts, ok := f.traces[m]
			if !ok {
				continue
			}
			var bad []string
			for _, t := range ts {
				for i, it := range t.Items {
					if it.Label != "emb:Write" && it.Label != "emb:Flush" {
						continue
					}
					okHere := false
					for j := 0; j < i; j++ {
						if strings.HasPrefix(t.Items[j].Label, "emb:WriteHeader(") {
							okHere = true
						}
					}
					for e := range f.Excusers {
						if c.flagTrueByTest(w, t, e, i) {
							okHere = true // header already sent earlier
						}
					}
					if !okHere {
						bad = append(bad, "embedded "+strings.TrimPrefix(it.Label, "emb:")+" reached without the recorded status having been sent  on path: "+t.String())
					}
				}
			}
			if len(bad) == 0 {
				c.Pass("deferred-status-delivered", w.Key+"."+m, p.Pos(w.Methods[m].Pos()), "every path that pushes bytes/flushes first sends the recorded status (or has tested that it was sent)")
			} else {
				c.Fail("deferred-status-delivered", w.Key+"."+m, p.Pos(w.Methods[m].Pos()), firstLine(bad[0]), bad...)
			}
		}
		// a deferring wrapper that offers Unwrap but no flush method of its own lets
		// http.ResponseController flush the embedded writer directly: the implicit 200 goes out
		// instead of the recorded status
		if w.Methods["Unwrap"] != nil && w.Methods["Flush"] == nil && w.Methods["FlushError"] == nil {
			c.Fail("deferred-status-delivered", w.Key+".Unwrap", p.Pos(w.Methods["Unwrap"].Pos()), "the wrapper holds the status back but exposes the embedded writer through Unwrap without a Flush of its own: http.ResponseController (the reverse proxy's streaming copy) flushes the embedded writer directly, committing an implicit 200 before the recorded status is sent")
		}
		// the status recorded is the most recent one written while the header is still unsent
		// (an informational 1xx is followed by the final status)
		if wh, ok := f.traces["WriteHeader"]; ok {
			var bad []string
			for _, t := range wh {
				sent := false
				for e := range f.Excusers {
					if c.flagTrueByTest(w, t, e, len(t.Items)) {
						sent = true
					}
				}
				if sent || c.invalidStatusPath(t) {
					continue
				}
				rec := false
				for _, it := range t.Items {
					if strings.HasPrefix(it.Label, "store statusCode := param:") {
						rec = true
					}
				}
				if !rec {
					bad = append(bad, "a status written while the header is still unsent is dropped (a 1xx followed by the final status leaves the wrong one recorded and the client gets 200)  on path: "+t.String())
				}
			}
			if len(bad) == 0 {
				c.Pass("deferred-status-last-wins", w.Key+".WriteHeader", p.Pos(w.Methods["WriteHeader"].Pos()), "every call made before the header went out records its status")
			} else {
				c.Fail("deferred-status-last-wins", w.Key+".WriteHeader", p.Pos(w.Methods["WriteHeader"].Pos()), firstLine(bad[0]), bad...)
			}
		}
		// the status sent is the recorded one
		for name, ts := range f.traces {
			for _, t := range ts {
				if name == "WriteHeader" && c.invalidStatusPath(t) {
					continue
				}
				for _, it := range t.Items {
					if strings.HasPrefix(it.Label, "emb:WriteHeader(") {
						d := strings.TrimSuffix(strings.TrimPrefix(it.Label, "emb:WriteHeader("), ")")
						if d != "fld:"+w.Key+".statusCode" && !strings.HasPrefix(d, "k:") {
							c.Fail("deferred-status-delivered", w.Key+"."+name+"/status-value", p.InstrPos(it.Instr), "status sent to the client is not the recorded one: "+d)
						}
					}
				}
			}
		}
	}
	if f.Forwarding {
		if wh, ok := f.traces["WriteHeader"]; ok {
			var bad []string
			for _, t := range wh {
				has := false
				for _, it := range t.Items {
					if strings.HasPrefix(it.Label, "emb:WriteHeader(param:") {
						has = true
					}
				}
				if !has {
					bad = append(bad, "a WriteHeader call is not forwarded with the caller's status (after an informational 1xx the final status is swallowed and the client gets an implicit 200)  on path: "+t.String())
				}
			}
			if len(bad) == 0 {
				c.Pass("forwarding-every-status", w.Key+".WriteHeader", p.Pos(w.Methods["WriteHeader"].Pos()), "every WriteHeader call reaches the embedded writer with the caller's status")
			} else {
				c.Fail("forwarding-every-status", w.Key+".WriteHeader", p.Pos(w.Methods["WriteHeader"].Pos()), firstLine(bad[0]), bad...)
			}
		}
	}
	// (2b),(3) creators
	for _, cr := range w.Creators {
		sp := c.rwSpec(w)
		sp.P = p
		ts := sp.Walk(cr)
		c.Count("paths_enumerated", len(ts))
		ckey := w.Key + "@" + p.FuncKey(cr)
		var badDeliver, badHeader []string
		for _, t := range ts {
			ni := t.Index("next", 0)
			if ni < 0 || c.infeasibleAfter(w, f, t, ni) {
				continue
			}
			if f.Deferring {
				// after the handler returns the recorded status must be sent, unless the path shows that
				// nothing was recorded (statusCode == 0) or that it was already sent (an excuser flag true)
				delivered := false
				for j := ni + 1; j < len(t.Items); j++ {
					if strings.HasPrefix(t.Items[j].Label, "emb:WriteHeader(") {
						delivered = true
					}
				}
				if !delivered {
					for j := ni + 1; j < len(t.Items); j++ {
						if _, isIf := t.Items[j].Instr.(*ssa.If); !isIf {
							continue
						}
						r := c.condRel(t.Items[j])
						if o, ok := r.Orient("fld:"+w.Key+".statusCode", ""); ok && o.Y == "" && !o.Neq && o.Lo == 0 && o.Hi == 0 {
							delivered = true
						}
					}
					for e := range f.Excusers {
						if c.flagTrueByTest(w, t, e, len(t.Items)) {
							delivered = true
						}
					}
				}
				if !delivered {
					badDeliver = append(badDeliver, "handler returned but the recorded status is never sent (a bodiless 204/304/redirect/HEAD reply reaches the client as 200)  on path: "+t.String())
				}
			}
			// header typestate after the handler ran
			committed := f.Forwarding // a forwarding WriteHeader may already have committed
			maybe := !f.Forwarding    // deferring: committed only if a commit flag could be true
			for j := ni + 1; j < len(t.Items); j++ {
				it := t.Items[j]
				if isCommit(it.Label) {
					committed = true
				}
				if _, isIf := it.Instr.(*ssa.If); isIf && maybe {
					for fl := range f.CommitFlags {
						if o, ok := c.condRel(it).Orient("fld:"+w.Key+"."+fl, ""); ok && o.Y == "" && !o.Neq && o.Lo == 0 && o.Hi == 0 {
							maybe = false // nothing was sent by the handler
						}
					}
				}
				if strings.HasPrefix(it.Label, "hdr:") {
					if committed {
						badHeader = append(badHeader, it.Label+" after the header block was committed to the underlying writer (lost on a real connection: the client sees the old headers with the new body)  on path: "+t.String())
					} else if maybe && len(f.CommitFlags) > 0 {
						badHeader = append(badHeader, it.Label+" without having established that the handler did not already send the header  on path: "+t.String())
					}
				}
			}
		}
		if f.Deferring {
			if len(badDeliver) == 0 {
				c.Pass("deferred-status-delivered", ckey, p.Pos(cr.Pos()), "after the downstream handler returns the recorded status is sent on every path (or was provably sent / never recorded)")
			} else {
				c.Fail("deferred-status-delivered", ckey, p.Pos(cr.Pos()), firstLine(badDeliver[0]), trim(badDeliver, 4)...)
			}
		}
		if len(badHeader) == 0 {
			c.Pass("header-before-commit", ckey, p.Pos(cr.Pos()), "no response header is mutated after the header block may have been committed")
		} else {
			c.Fail("header-before-commit", ckey, p.Pos(cr.Pos()), firstLine(badHeader[0]), trim(badHeader, 4)...)
		}
	}
	// (3) inside single methods
	var names []string
	for n := range f.traces {
		names = append(names, n)
	}
	sort.Strings(names)
	for _, n := range names {
		var bad []string
		for _, t := range f.traces[n] {
			committed := false
			for _, it := range t.Items {
				if isCommit(it.Label) {
					committed = true
				}
				if committed && strings.HasPrefix(it.Label, "hdr:") {
					bad = append(bad, it.Label+" after the header block was committed  on path: "+t.String())
				}
			}
		}
		if len(bad) > 0 {
			c.Fail("header-before-commit", w.Key+"."+n, p.Pos(w.Methods[n].Pos()), firstLine(bad[0]), trim(bad, 4)...)
		}
	}
}

func keys(m map[string]bool) []string {
	var out []string
	for k := range m {
		out = append(out, k)
	}
	sort.Strings(out)
	return out
}

func trim(s []string, n int) []string {
	if len(s) > n {
		return append(s[:n:n], fmt.Sprintf("… %d more", len(s)-n))
	}
	return s
}

// buffersBody: the wrapper accumulates the response body in a bytes.Buffer field (a transformer that
// decides about the whole body, like gzip), as opposed to passing bytes through as they come.
func (w *Wrapper) buffersBody() bool {
	st, _ := w.Named.Underlying().(*types.Struct)
	for i := 0; st != nil && i < st.NumFields(); i++ {
		t := st.Field(i).Type()
		if pt, isPtr := t.Underlying().(*types.Pointer); isPtr {
			t = pt.Elem()
		}
		if QualType(namedOf(t)) == "bytes.Buffer" {
			return true
		}
	}
	return false
}

// assertBasedForwarders: the wrappers other than self whose method (Hijack/Flush) reaches the
// embedded writer's method through a type assertion to the optional interface.
func (c *Ctx) assertBasedForwarders(ws []*Wrapper, self *Wrapper, method string) []string {
	iface := map[string]string{"Hijack": "net/http.Hijacker", "Flush": "net/http.Flusher"}[method]
	var out []string
	for _, w := range ws {
		if w == self || w.Methods[method] == nil {
			continue
		}
		hit := false
		instrsOf(w.Methods[method], func(in ssa.Instruction) {
			if ta, ok := in.(*ssa.TypeAssert); ok && ta.AssertedType.String() == iface {
				hit = true
			}
		})
		if hit {
			out = append(out, w.Key+"."+method)
		}
	}
	sort.Strings(out)
	return out
}

// rwWriteDoesNotRetain: io.Writer's contract — "Write must not retain p".  The slice a handler (or
// the reverse proxy's copy loop, which recycles its buffer) passes to a wrapper's Write is only valid
// during the call: a wrapper that keeps it — stores it, or a buffer/reader built directly on it, into
// a field — later delivers whatever the caller has put into that memory since (C14, C15, C01).
func (c *Ctx) rwWriteDoesNotRetain(w *Wrapper) {
	p := c.P
	rule := "write-does-not-retain"
	for _, name := range []string{"Write", "WriteString", "ReadFrom"} {
		fn := w.Methods[name]
		if fn == nil || len(fn.Params) < 2 || name == "ReadFrom" {
			continue
		}
		param := fn.Params[1]
		tainted := map[ssa.Value]bool{param: true}
		changed := true
		for changed {
			changed = false
			instrsOf(fn, func(in ssa.Instruction) {
				v, ok := in.(ssa.Value)
				if !ok || tainted[v] {
					return
				}
				hit := false
				switch x := in.(type) {
				case *ssa.Slice:
					hit = tainted[x.X]
				case *ssa.ChangeType:
					hit = tainted[x.X]
				case *ssa.MakeInterface:
					hit = tainted[x.X]
				case *ssa.Phi:
					for _, e := range x.Edges {
						hit = hit || tainted[e]
					}
				case *ssa.UnOp:
					hit = x.Op == token.MUL && tainted[x.X] // *bytes.NewBuffer(b): the struct holding b
				case *ssa.Call:
					switch CalleeName(x) {
					case "bytes.NewBuffer", "bytes.NewReader":
						hit = len(x.Call.Args) == 1 && tainted[x.Call.Args[0]]
					}
				}
				if hit {
					tainted[v] = true
					changed = true
				}
			})
		}
		bad := ""
		instrsOf(fn, func(in ssa.Instruction) {
			st, ok := in.(*ssa.Store)
			if !ok || !tainted[st.Val] || bad != "" {
				return
			}
			switch a := st.Addr.(type) {
			case *ssa.FieldAddr:
				if fr, ok := fieldRefOf(a); ok {
					bad = p.InstrPos(st) + ": the caller's slice is kept in " + fr.Key() + " after Write returns"
				}
			case *ssa.Global:
				bad = p.InstrPos(st) + ": the caller's slice is kept in a package variable after Write returns"
			case *ssa.IndexAddr:
				bad = p.InstrPos(st) + ": the caller's slice is kept in a container after Write returns"
			}
		})
		c.Check(bad == "", rule, w.Key+"."+name, p.Pos(fn.Pos()), "the slice passed to "+name+" is only copied or forwarded during the call",
			bad+": io.Writer forbids retaining it — the reverse proxy recycles its copy buffer and a handler may reuse its own, so the bytes delivered later are whatever was written there since")
	}
}

// returnsNewObject: every return of fn yields an object allocated by that call (a composite literal
// or new), possibly through another such constructor — not one taken from a pool, a field or a global.
func returnsNewObject(fn *ssa.Function, depth int) bool {
	if fn == nil || fn.Blocks == nil || depth > 3 {
		return false
	}
	ok, n := true, 0
	instrsOf(fn, func(in ssa.Instruction) {
		r, isRet := in.(*ssa.Return)
		if !isRet || len(r.Results) == 0 {
			return
		}
		n++
		switch v := rootOf(stripConv(r.Results[0])).(type) {
		case *ssa.Alloc:
			if !v.Heap {
				ok = false
			}
		case *ssa.Call:
			if !returnsNewObject(StaticFn(v), depth+1) {
				ok = false
			}
		default:
			ok = false
		}
	})
	return ok && n > 0
}

// presetHeadersSurviveInterim: a library effect the request path has to answer.  When the backend
// sends an interim response (103 Early Hints, 100 Continue), httputil.ReverseProxy copies its headers
// into rw.Header(), calls rw.WriteHeader(1xx) and then *clears that header map* — including whatever
// the layers in front of the balancer had put there before proxying: the request/trace IDs (C16), the
// headers plugin's response headers.  "Every response carries the configured ID headers" therefore
// needs, in the writer the balancer hands to the reverse proxy, a mechanism that puts them back:
//   - the writer has a Header method of its own (a promoted one returns the emptied map as is),
//   - that method stores the entries of a header snapshot held in a field back into the map,
//   - the snapshot is taken (Clone) from the client's writer where the wrapper is created, and
//   - WriteHeader notes (a boolean field set on the status < 200 edge) that the map has been emptied.
func (c *Ctx) presetHeadersSurviveInterim() {
	p := c.P
	rule := "preset-headers-survive-interim"
	pr := c.proxyFn()
	if pr == nil {
		c.Missing(rule, "loadbalancer.(*LoadBalancer).proxyRequest")
		return
	}
	var site ssa.CallInstruction
	for _, ci := range callsIn(pr) {
		if CalleeName(ci) == "(*net/http/httputil.ReverseProxy).ServeHTTP" {
			site = ci
		}
	}
	construct := p.FuncKey(pr) + "/ReverseProxy.ServeHTTP"
	if site == nil {
		c.Missing(rule, construct)
		return
	}
	var w *Wrapper
	if nt := namedOf(stripConv(site.Common().Args[1]).Type()); nt != nil {
		for _, cand := range c.wrappers() {
			if types.Identical(cand.Named, nt) {
				w = cand
			}
		}
	}
	lost := "after relaying an interim response (103 Early Hints, 100 Continue) httputil.ReverseProxy empties the response header map, and nothing puts back what was set before proxying: the final response of such an exchange carries neither the request/trace-ID headers nor the headers plugin's response headers"
	if w == nil {
		c.Fail(rule, construct, p.InstrPos(site), "the reverse proxy writes straight to the client's writer: "+lost)
		return
	}
	hm := w.Methods["Header"]
	if hm == nil {
		c.Fail(rule, construct, p.InstrPos(site), w.Key+" promotes Header() from the embedded writer: "+lost)
		return
	}
	// the snapshot field: a field of type http.Header read in Header() and written into the map
	snap := ""
	restores := false
	instrsOf(hm, func(in ssa.Instruction) {
		if fa, ok := in.(*ssa.FieldAddr); ok {
			if fr, ok := fieldRefOf(fa); ok && strings.HasPrefix(fr.Key(), w.Key+".") && QualType(namedOf(fa.Type().Underlying().(*types.Pointer).Elem())) == "http.Header" {
				snap = fr.Key()
			}
		}
		switch x := in.(type) {
		case *ssa.MapUpdate:
			if QualType(namedOf(x.Map.Type())) == "http.Header" {
				restores = true
			}
		case ssa.CallInstruction:
			switch CalleeName(x) {
			case "(net/http.Header).Set", "(net/http.Header).Add", "maps.Copy":
				restores = true
			}
		}
	})
	if snap == "" || !restores {
		c.Fail(rule, construct, p.InstrPos(site), w.Key+".Header does not restore a snapshot of the headers set before proxying: "+lost)
		return
	}
	// the snapshot is taken from the client's writer where the wrapper is created — before the proxy
	// has put anything into the map — and is never replaced or dropped afterwards: a snapshot taken
	// when the first interim response arrives already contains that response's own headers (they
	// would be "restored" onto the final response), one discarded after the first restore leaves
	// nothing for a second interim response
	taken := false
	late := ""
	for _, fn := range p.Funcs {
		instrsOf(fn, func(in ssa.Instruction) {
			k, st := storeKey(in)
			if k != snap {
				return
			}
			isMethod := fn.Signature.Recv() != nil && namedOf(fn.Signature.Recv().Type()) != nil && types.Identical(namedOf(fn.Signature.Recv().Type()), w.Named)
			if isMethod {
				late = p.InstrPos(st) + ": " + p.FuncKey(fn) + " assigns the header snapshot (" + p.Desc(st.Val, nil) + ") after the wrapper was created"
				return
			}
			if call, ok := stripConv(st.Val).(*ssa.Call); ok && CalleeName(call) == "(net/http.Header).Clone" {
				taken = true
			}
		})
	}
	if late != "" {
		c.Fail(rule, construct, p.InstrPos(site), late+": the snapshot must be the headers present before proxying, kept for the whole exchange — "+lost)
		return
	}
	// WriteHeader notes the interim response
	noted := false
	if wh := w.Methods["WriteHeader"]; wh != nil {
		sp := c.rwSpec(w)
		sp.P = p
		sp.Cond = func(in *ssa.If, fr *Frame) string { return "if " + p.Desc(in.Cond, fr) }
		for _, t := range sp.Walk(wh) {
			for i, it := range t.Items {
				if !strings.HasPrefix(it.Label, "store ") || !strings.HasSuffix(it.Label, " := k:true") {
					continue
				}
				for _, b := range t.Items[:i] {
					if _, isIf := b.Instr.(*ssa.If); isIf {
						if o, ok := c.condRel(b).Orient("param:", ""); ok && o.Pred == "" && o.Hi != posInf && o.Hi < 200 {
							noted = true
						}
					}
				}
			}
		}
	}
	switch {
	case !taken:
		c.Fail(rule, construct, p.InstrPos(site), "the header snapshot "+snap+" is never taken from the client's writer (Header().Clone()) where the wrapper is created: "+lost)
	case !noted:
		c.Fail(rule, construct, p.InstrPos(site), w.Key+".WriteHeader does not note an interim status (< 200), so Header() cannot know the map was emptied: "+lost)
	default:
		c.Pass(rule, construct, p.InstrPos(site), w.Key+" snapshots the headers set before proxying ("+snap+"), notes interim responses in WriteHeader and restores the snapshot in Header()")
	}
}

// invalidStatusPath: the path has found the status parameter outside 100..999 — the escape on which a
// wrapper hands a status net/http would refuse straight to the embedded writer.
func (c *Ctx) invalidStatusPath(t *Trace) bool {
	for _, it := range t.Items {
		if _, isIf := it.Instr.(*ssa.If); isIf {
			if r := c.condRel(it); r.OK && r.Pred == "" && r.Y == "" && strings.HasPrefix(r.X, "param:") && (r.Hi != posInf && r.Hi <= 99 || r.Lo != negInf && r.Lo >= 1000) {
				return true
			}
		}
	}
	return false
}
