package main

import (
	"fmt"
	"go/constant"
	"go/token"
	"go/types"
	"sort"
	"strings"

	"golang.org/x/tools/go/ssa"
)

// ---- callee identification -------------------------------------------------------------

// CalleeName returns the resolved name of a call: "net/http.Error", "(*sync.Mutex).Lock",
// "(net/http.ResponseWriter).WriteHeader" for interface invokes, "builtin:len",
// or "dyn:<sig>" for calls through function values.
func CalleeName(c ssa.CallInstruction) string {
	cc := c.Common()
	if cc.IsInvoke() {
		return cc.Method.FullName()
	}
	switch v := cc.Value.(type) {
	case *ssa.Function:
		return v.String()
	case *ssa.Builtin:
		return "builtin:" + v.Name()
	case *ssa.MakeClosure:
		return v.Fn.(*ssa.Function).String()
	}
	return "dyn:" + cc.Signature().String()
}

// StaticFn returns the Go function statically called (incl. immediately-applied closures).
func StaticFn(c ssa.CallInstruction) *ssa.Function {
	cc := c.Common()
	if cc.IsInvoke() {
		return nil
	}
	switch v := cc.Value.(type) {
	case *ssa.Function:
		return v
	case *ssa.MakeClosure:
		return v.Fn.(*ssa.Function)
	}
	return nil
}

// Callees returns the possible Helios callees of a call according to static resolution first and
// the VTA call graph otherwise.
func (p *Program) Callees(c ssa.CallInstruction) []*ssa.Function {
	if f := StaticFn(c); f != nil {
		return []*ssa.Function{f}
	}
	n := p.CG.Nodes[c.Parent()]
	if n == nil {
		return nil
	}
	var out []*ssa.Function
	seen := map[*ssa.Function]bool{}
	for _, e := range n.Out {
		if e.Site == c && !seen[e.Callee.Func] {
			seen[e.Callee.Func] = true
			out = append(out, e.Callee.Func)
		}
	}
	return out
}

// Receiver returns the receiver value of a method call (static or invoke), or nil.
func Receiver(c ssa.CallInstruction) ssa.Value {
	cc := c.Common()
	if cc.IsInvoke() {
		return cc.Value
	}
	if f := StaticFn(c); f != nil && f.Signature.Recv() != nil && len(cc.Args) > 0 {
		return cc.Args[0]
	}
	return nil
}

// CallArgs returns the non-receiver arguments.
func CallArgs(c ssa.CallInstruction) []ssa.Value {
	cc := c.Common()
	if cc.IsInvoke() {
		return cc.Args
	}
	if f := StaticFn(c); f != nil && f.Signature.Recv() != nil && len(cc.Args) > 0 {
		return cc.Args[1:]
	}
	return cc.Args
}

// ---- field access ----------------------------------------------------------------------

// FieldRef describes x.f for a FieldAddr / Field instruction.
type FieldRef struct {
	Struct *types.Named // may be nil for anonymous structs
	Name   string
	Base   ssa.Value
}

func namedOf(t types.Type) *types.Named {
	for {
		switch tt := t.(type) {
		case *types.Pointer:
			t = tt.Elem()
			continue
		case *types.Named:
			return tt
		case *types.Alias:
			t = types.Unalias(tt)
			continue
		}
		return nil
	}
}

func fieldRefOf(v ssa.Value) (FieldRef, bool) {
	switch x := v.(type) {
	case *ssa.FieldAddr:
		st := structOf(x.X.Type())
		if st == nil {
			return FieldRef{}, false
		}
		return FieldRef{Struct: namedOf(x.X.Type()), Name: canonFieldName(namedOf(x.X.Type()), st.Field(x.Field).Name()), Base: x.X}, true
	case *ssa.Field:
		st := structOf(x.X.Type())
		if st == nil {
			return FieldRef{}, false
		}
		return FieldRef{Struct: namedOf(x.X.Type()), Name: canonFieldName(namedOf(x.X.Type()), st.Field(x.Field).Name()), Base: x.X}, true
	}
	return FieldRef{}, false
}

func structOf(t types.Type) *types.Struct {
	t = t.Underlying()
	if p, ok := t.(*types.Pointer); ok {
		t = p.Elem().Underlying()
	}
	s, _ := t.(*types.Struct)
	return s
}

// QualType renders pkg.Name with the short package name ("loadbalancer.Backend").
func QualType(n *types.Named) string {
	if n == nil {
		return "<anon>"
	}
	if n.Obj().Pkg() == nil {
		return n.Obj().Name()
	}
	q := n.Obj().Pkg().Name() + "." + n.Obj().Name()
	if c, ok := typeAlias[q]; ok {
		return c
	}
	return q
}

func (f FieldRef) Key() string { return QualType(f.Struct) + "." + f.Name }

// LoadedField: if v is a load (*FieldAddr) or a Field projection, return the field.
func LoadedField(v ssa.Value) (FieldRef, bool) {
	v = stripConv(v)
	switch x := v.(type) {
	case *ssa.UnOp:
		if x.Op == token.MUL {
			return fieldRefOf(x.X)
		}
	case *ssa.Field:
		return fieldRefOf(x)
	}
	return FieldRef{}, false
}

func stripConv(v ssa.Value) ssa.Value {
	for {
		switch x := v.(type) {
		case *ssa.Convert:
			v = x.X
		case *ssa.ChangeType:
			v = x.X
		case *ssa.ChangeInterface:
			v = x.X
		case *ssa.MakeInterface:
			v = x.X
		default:
			return v
		}
	}
}

// ---- access paths ------------------------------------------------------------------------

// AccessPath canonicalises the memory location / value a value denotes, for comparing lock
// instances and guard subjects.  It is stable under renaming of locals (SSA has no locals) and
// line moves.
func AccessPath(v ssa.Value) string {
	return accessPath(v, 0)
}

func accessPath(v ssa.Value, d int) string {
	if d > 12 {
		return "…"
	}
	switch x := v.(type) {
	case *ssa.Parameter:
		return "p:" + x.Name()
	case *ssa.FreeVar:
		return "fv:" + x.Name()
	case *ssa.Global:
		return "g:" + x.Pkg.Pkg.Name() + "." + x.Name()
	case *ssa.UnOp:
		if x.Op == token.MUL {
			return "*" + accessPath(x.X, d+1)
		}
		return x.Op.String() + accessPath(x.X, d+1)
	case *ssa.FieldAddr:
		if fr, ok := fieldRefOf(x); ok {
			return accessPath(x.X, d+1) + "." + fr.Name
		}
	case *ssa.Field:
		if fr, ok := fieldRefOf(x); ok {
			return accessPath(x.X, d+1) + "." + fr.Name
		}
	case *ssa.IndexAddr:
		return accessPath(x.X, d+1) + "[]"
	case *ssa.Index:
		return accessPath(x.X, d+1) + "[]"
	case *ssa.Lookup:
		return accessPath(x.X, d+1) + "[k]"
	case *ssa.Extract:
		return fmt.Sprintf("%s#%d", accessPath(x.Tuple, d+1), x.Index)
	case *ssa.Convert:
		return accessPath(x.X, d+1)
	case *ssa.ChangeType:
		return accessPath(x.X, d+1)
	case *ssa.ChangeInterface:
		return accessPath(x.X, d+1)
	case *ssa.MakeInterface:
		return accessPath(x.X, d+1)
	case *ssa.TypeAssert:
		return accessPath(x.X, d+1)
	case *ssa.Next:
		return "next(" + accessPath(x.Iter, d+1) + ")"
	case *ssa.Range:
		return "range(" + accessPath(x.X, d+1) + ")"
	case *ssa.Const:
		return "const:" + constString(x)
	case *ssa.Alloc:
		return fmt.Sprintf("alloc:%s@%d", x.Comment, valueIndex(x))
	case *ssa.Call:
		return fmt.Sprintf("call:%s@%d", CalleeName(x), valueIndex(x))
	case *ssa.Phi:
		return fmt.Sprintf("phi:%s@%d", x.Comment, valueIndex(x))
	case *ssa.Function:
		return "func:" + x.String()
	case *ssa.MakeClosure:
		return "closure:" + x.Fn.String()
	}
	return fmt.Sprintf("%T@%d", v, valueIndexAny(v))
}

func constString(c *ssa.Const) string {
	if c.Value == nil {
		return "nil"
	}
	if c.Value.Kind() == constant.String {
		return constant.StringVal(c.Value)
	}
	return c.Value.ExactString()
}

// valueIndex gives a function-local ordinal of an instruction (block index * 1000 + offset);
// used only to distinguish different SSA values inside one function.
func valueIndex(in ssa.Instruction) int {
	b := in.Block()
	if b == nil {
		return -1
	}
	for i, x := range b.Instrs {
		if x == in {
			return b.Index*1000 + i
		}
	}
	return b.Index * 1000
}

func valueIndexAny(v ssa.Value) int {
	if in, ok := v.(ssa.Instruction); ok {
		return valueIndex(in)
	}
	return -1
}

// ---- misc ---------------------------------------------------------------------------------

func isConstNil(v ssa.Value) bool {
	c, ok := v.(*ssa.Const)
	return ok && c.Value == nil
}

func constBool(v ssa.Value) (bool, bool) {
	c, ok := v.(*ssa.Const)
	if !ok || c.Value == nil || c.Value.Kind() != constant.Bool {
		return false, false
	}
	return constant.BoolVal(c.Value), true
}

func constInt(v ssa.Value) (int64, bool) {
	v = stripConv(v)
	c, ok := v.(*ssa.Const)
	if !ok || c.Value == nil {
		return 0, false
	}
	if c.Value.Kind() != constant.Int {
		if c.Value.Kind() == constant.Float {
			if i, ok := constant.Int64Val(constant.ToInt(c.Value)); ok {
				return i, true
			}
		}
		return 0, false
	}
	i, ok := constant.Int64Val(c.Value)
	return i, ok
}

func constStr(v ssa.Value) (string, bool) {
	v = stripConv(v)
	c, ok := v.(*ssa.Const)
	if !ok || c.Value == nil || c.Value.Kind() != constant.String {
		return "", false
	}
	return constant.StringVal(c.Value), true
}

func hasSuffixAny(s string, suf ...string) bool {
	for _, x := range suf {
		if strings.HasSuffix(s, x) {
			return true
		}
	}
	return false
}

// instrsOf iterates all instructions of fn.
func instrsOf(fn *ssa.Function, f func(ssa.Instruction)) {
	for _, b := range fn.Blocks {
		for _, in := range b.Instrs {
			f(in)
		}
	}
}

// callsIn returns the call instructions (call, defer, go) of fn.
func callsIn(fn *ssa.Function) []ssa.CallInstruction {
	var out []ssa.CallInstruction
	instrsOf(fn, func(in ssa.Instruction) {
		if c, ok := in.(ssa.CallInstruction); ok {
			out = append(out, c)
		}
	})
	return out
}

// sortedKeys returns the keys of a function map in sorted order (deterministic obligations).
func sortedKeys(m map[string]*ssa.Function) []string {
	out := make([]string, 0, len(m))
	for k := range m {
		out = append(out, k)
	}
	sort.Strings(out)
	return out
}
