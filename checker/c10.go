package main

import (
	"fmt"
	"go/token"
	"go/types"
	"sort"
	"strings"

	"golang.org/x/tools/go/ssa"
)

func init() {
	registry["C10"] = checkC10
	registry["C11"] = checkC11
}

// handlerSpec: generic events of an HTTP handler / middleware closure.
func (c *Ctx) handlerSpec(condSubs ...string) *Spec {
	p := c.P
	return &Spec{
		Event: func(in ssa.Instruction, fr *Frame) string {
			ci, ok := in.(ssa.CallInstruction)
			if !ok {
				return ""
			}
			n := CalleeName(ci)
			if code, ok := httpStatusCall(ci); ok {
				return "status:" + itoa(code)
			}
			switch {
			case n == "(net/http.Handler).ServeHTTP" || n == "(net/http.HandlerFunc).ServeHTTP":
				return "next"
			case n == "(*net/http/httputil.ReverseProxy).ServeHTTP":
				return "next"
			case n == "(net/http.ResponseWriter).Write":
				return "write"
			case strings.HasPrefix(n, "(*github.com/0xReLogic/Helios/internal/loadbalancer.LoadBalancer)."):
				return "lb." + ci.Common().Value.Name() + ""
			}
			return ""
		},
		Cond:   p.condMentions(condSubs...),
		Expand: func(*ssa.Function, ssa.CallInstruction) bool { return false },
	}
}

func checkC10(c *Ctx) {
	p := c.P
	c.Clause("every mux registration except /v1/health wraps its handler in the auth middleware")
	c.Clause("auth reaches next only with an empty configured token or with Authorization == 'Bearer ' + token (prefix test and exact comparison); every other path writes 401 and stops")
	c.Clause("IsAllowed returns true only for a parsed address that hit no deny entry and (allow list empty or an allow entry contains it)")
	c.Clause("the address given to IsAllowed derives from r.RemoteAddr only, never from request headers")
	c.Clause("with IP lists configured NewMux returns the filter middleware, and on a list parse error a handler through which the mux is not reachable")
	c.Clause("the not-allowed edge writes 403 and never reaches next")
	c.Clause("a single-address list entry becomes the exact network of the parsed address (/32 of its 4-byte form, else /128), never a network parsed from the entry's text plus a suffix; every parsed entry lands in the list that is consulted")
	c.NotDecided("CIDR arithmetic of net.IPNet.Contains; IPv4-mapped address forms; JSON bodies of the endpoints")

	c.Clause("the token enforced is the configured one verbatim: nothing stores to AdminAPIConfig.AuthToken after the file was decoded (expanding or trimming it can turn a configured token into the empty one, which disables authentication)")
	c.credentialVerbatim()
	nm := p.Fn("internal/adminapi", "", "NewMux")
	if nm == nil {
		c.Missing("endpoint-authenticated", "adminapi.NewMux")
		return
	}
	// 1. registrations
	var authFn *ssa.Function
	for _, cl := range nm.AnonFuncs {
		// the auth middleware: func(http.Handler) http.Handler
		if cl.Signature.Params().Len() == 1 && cl.Signature.Params().At(0).Type().String() == "net/http.Handler" && cl.Signature.Results().Len() == 1 {
			authFn = cl
		}
	}
	nReg := 0
	for _, ci := range callsIn(nm) {
		n := CalleeName(ci)
		if n != "(*net/http.ServeMux).Handle" && n != "(*net/http.ServeMux).HandleFunc" {
			continue
		}
		pat, _ := constStr(ci.Common().Args[1])
		if pat == "/v1/health" {
			continue
		}
		nReg++
		h := stripConv(ci.Common().Args[2])
		ok := false
		if call, isCall := h.(*ssa.Call); isCall && authFn != nil {
			if mc, isMC := call.Call.Value.(*ssa.MakeClosure); isMC && mc.Fn == authFn {
				ok = true
			}
		}
		c.Check(ok, "endpoint-authenticated", "adminapi.NewMux/"+pat, p.InstrPos(ci),
			"handler is wrapped by the auth middleware", "endpoint "+pat+" is registered without the auth middleware: it answers unauthenticated requests although a token is configured")
	}
	c.Floor("endpoint-authenticated", nReg, 5, "authenticated mux registrations")

	// 2. auth fails closed
	var authInner *ssa.Function
	if authFn != nil && len(authFn.AnonFuncs) == 1 {
		authInner = authFn.AnonFuncs[0]
	}
	authSpec := c.handlerSpec("AuthToken", "Authorization", "Bearer ")
	// a predicate extracted from the middleware (bearerTokenMatches(header, token)) is looked into
	authSpec.Expand = func(callee *ssa.Function, _ ssa.CallInstruction) bool {
		pk := fnPkg(callee)
		return pk != nil && strings.HasSuffix(pk.Pkg.Path(), "/internal/adminapi") && callee.Parent() == nil && callee.Object() != nil && !callee.Object().Exported()
	}
	c.traceRule("auth-fails-closed", "adminapi.NewMux/auth", authInner, authSpec,
		"next is reached only with no token configured or Authorization == Bearer+token; otherwise 401 and nothing else",
		func(t *Trace) string {
			ni := t.Index("next", 0)
			noToken := false
			prefix, exact := false, false
			for i, it := range t.Items {
				if ni >= 0 && i > ni {
					break
				}
				if _, isIf := it.Instr.(*ssa.If); !isIf {
					continue
				}
				r := c.condRel(it)
				if r.Pred == "" && strings.Contains(r.X, "AdminAPIConfig.AuthToken") && (r.Y == `k:""` || r.Y == "") && !r.Neq && r.Lo == 0 && r.Hi == 0 && !strings.Contains(r.X, "Authorization") {
					noToken = true
				}
				if r.Pred == "hasprefix" && r.Bool && strings.Contains(r.X, `k:"Authorization"`) && r.Y == `k:"Bearer "` {
					prefix = true
				}
				if r.Pred == "" && !r.Neq && r.Lo == 0 && r.Hi == 0 {
					a, b := r.X, r.Y
					if strings.Contains(b, "strings.TrimPrefix(") {
						a, b = b, a
					}
					if strings.HasPrefix(a, "call:strings.TrimPrefix(") && strings.Contains(a, `k:"Authorization"`) && strings.Contains(a, `k:"Bearer "`) && b == "fld:config.AdminAPIConfig.AuthToken" {
						exact = true
					}
				}
			}
			if ni >= 0 {
				if !(noToken || (prefix && exact)) {
					return "request reaches the protected handler without (token unset) or (Authorization has the Bearer prefix and the remainder equals the token)"
				}
				for _, it := range t.Items[:ni] {
					if strings.HasPrefix(it.Label, "status:") || it.Label == "write" {
						return "response written before delegating"
					}
				}
				return ""
			}
			if !t.Has("status:401") {
				return "rejected request is not answered 401"
			}
			return ""
		})

	// 3. filter decision
	ia := p.Fn("internal/adminapi", "IPFilter", "IsAllowed")
	filterSpec := func() *Spec {
		sp := c.handlerSpec("ParseIP", "IPFilter.", "IsAllowed")
		sp.Expand = func(callee *ssa.Function, site ssa.CallInstruction) bool {
			// the filter's own methods and the package's small helpers (IsAllowed may delegate to them)
			if rc := callee.Signature.Recv(); rc != nil {
				return QualType(namedOf(rc.Type())) == "adminapi.IPFilter"
			}
			pk := fnPkg(callee)
			return pk != nil && strings.HasSuffix(pk.Pkg.Path(), "/internal/adminapi") && callee.Parent() == nil && callee.Name() != "parseCIDR" && callee.Name() != "NewIPFilter" && callee.Name() != "NewMux"
		}
		return sp
	}
	// judge: what a path established about the address before it was allowed
	decision := func(t *Trace, allowed bool) string {
		parsed, denyHit, allowHit, allowEmpty := false, false, false, false
		lastDenyTest, firstAllowDecision := -1, -1
		denySeen := false // the deny list was at least ranged over (its loop bound or an entry was tested)
		for i, it := range t.Items {
			ifi, isIf := it.Instr.(*ssa.If)
			if !isIf {
				continue
			}
			if strings.Contains(c.P.Desc(ifi.Cond, it.Frame), "IPFilter.denyList") && (firstAllowDecision < 0) {
				denySeen = true
			}
			r := c.condRel(it)
			switch {
			case strings.HasPrefix(r.X, "call:net.ParseIP(") && r.Pred == "":
				if r.Neq || r.Lo != 0 {
					parsed = true
				}
			case strings.Contains(r.X, "IPNet).Contains(") && strings.Contains(r.X, "IPFilter.denyList"):
				lastDenyTest = i
				if r.Lo == 1 {
					denyHit = true
				}
			case strings.Contains(r.X, "IPNet).Contains(") && strings.Contains(r.X, "IPFilter.allowList"):
				if firstAllowDecision < 0 {
					firstAllowDecision = i
				}
				if r.Lo == 1 {
					allowHit = true
				}
			case strings.Contains(r.X, "len(fld:adminapi.IPFilter.allowList)") && r.Y == "":
				if firstAllowDecision < 0 {
					firstAllowDecision = i
				}
				if !r.Neq && r.Lo == 0 && r.Hi == 0 {
					allowEmpty = true
				}
			}
		}
		if allowed {
			if !parsed {
				return "an address that was not parsed successfully is allowed (a nil address matches no deny entry)"
			}
			if denyHit {
				return "an address contained in a deny entry is allowed"
			}
			if !allowEmpty && !allowHit {
				return "allowed although the allow list is non-empty and no entry contains the address"
			}
			if lastDenyTest > firstAllowDecision && firstAllowDecision >= 0 {
				return "allow decision taken before the deny list was consulted"
			}
			if !denySeen {
				return "an address can be allowed without the deny list having been scanned"
			}
		}
		return ""
	}
	c.traceRule("filter-decision", "adminapi.(*IPFilter).IsAllowed", ia, filterSpec(),
		"deny wins, unparsable is refused, allow requires an empty allow list or a containing entry",
		func(t *Trace) string {
			if len(t.Ret) != 1 || (t.Ret[0].K != ATrue && t.Ret[0].K != AFalse) {
				return "undecided: non-constant result"
			}
			return decision(t, t.Ret[0].K == ATrue)
		})
	// 3b. every configured entry becomes a rule or an error: nothing is skipped silently
	nf := p.Fn("internal/adminapi", "", "NewIPFilter")
	spF := &Spec{
		Event: func(in ssa.Instruction, fr *Frame) string {
			if ci, ok := in.(ssa.CallInstruction); ok {
				switch {
				case CalleeName(ci) == "builtin:append":
					return "append(" + p.Desc(ci.Common().Args[0], fr) + ")"
				case strings.HasSuffix(CalleeName(ci), "adminapi.parseCIDR"):
					return "parse(" + p.Desc(ci.Common().Args[0], fr) + ")"
				}
			}
			if nx, ok := in.(*ssa.Next); ok {
				return "iter(" + p.Desc(nx.Iter, fr) + ")"
			}
			return ""
		},
		Cond: p.condMentions("parseCIDR"),
		Expand: func(callee *ssa.Function, site ssa.CallInstruction) bool {
			pk := fnPkg(callee)
			return pk != nil && strings.HasSuffix(pk.Pkg.Path(), "/internal/adminapi") && callee.Name() != "parseCIDR"
		},
	}
	c.traceRule("filter-entries-accounted", "adminapi.NewIPFilter", nf, spF,
		"every list entry visited is parsed and either appended to its list or makes construction fail",
		func(t *Trace) string {
			// entries are visited through index loops: count loop-body visits by the parse events
			var pending string
			for i, it := range t.Items {
				switch {
				case strings.HasPrefix(it.Label, "parse("):
					pending = it.Label
					// what happens to this entry?
					ok := false
					for _, jt := range t.Items[i+1:] {
						if strings.HasPrefix(jt.Label, "parse(") {
							break
						}
						if strings.HasPrefix(jt.Label, "append(") {
							ok = true
						}
					}
					if !ok && !(len(t.Ret) == 2 && t.Ret[1].K == ANonNil) {
						return "an entry is parsed but neither added to the filter nor reported as an error"
					}
				}
			}
			_ = pending
			return ""
		})
	if nf != nil {
		// structural: inside each entry loop every path reaches parseCIDR (no `continue` before it);
		// the loops may live in NewIPFilter itself or in a helper it calls once per list
		loopOK := func(fn *ssa.Function) (ok bool, n int) {
			ok = true
			instrsOf(fn, func(in ssa.Instruction) {
				ci, isCall := in.(ssa.CallInstruction)
				if !isCall || !strings.HasSuffix(CalleeName(ci), "adminapi.parseCIDR") {
					return
				}
				n++
				hdr := loopHeader(in.Block())
				if hdr == nil {
					ok = false
					return
				}
				for _, s := range hdr.Succs {
					if hdr.Dominates(s) && reaches(s, hdr, map[*ssa.BasicBlock]bool{}) && s != in.Block() {
						if reachesAvoiding(s, hdr, in.Block(), map[*ssa.BasicBlock]bool{}) {
							ok = false
						}
					}
				}
			})
			return
		}
		okLoops, nLoops := loopOK(nf)
		for _, ci := range callsIn(nf) {
			if h := StaticFn(ci); h != nil && p.IsHelios(h) && h.Name() != "parseCIDR" {
				if okH, nH := loopOK(h); nH > 0 {
					nLoops += nH
					okLoops = okLoops && okH
				}
			}
		}
		c.Check(okLoops && nLoops >= 2, "filter-entries-accounted", "adminapi.NewIPFilter/no-skipped-entry", p.Pos(nf.Pos()),
			"both lists are parsed entry by entry", "a list entry can be skipped without being parsed: a list of only such entries yields an empty filter, which allows every address")
	}

	// 4, 6. middleware
	mw := p.Fn("internal/adminapi", "IPFilter", "Middleware")
	var mwInner *ssa.Function
	if mw != nil && len(mw.AnonFuncs) == 1 {
		mwInner = mw.AnonFuncs[0]
	}
	if mwInner == nil {
		c.Missing("peer-address-only", "adminapi.(*IPFilter).Middleware/handler")
	} else {
		found := false
		decisionName := ""
		for _, ci := range callsIn(mwInner) {
			f := StaticFn(ci)
			if f == nil || f.Signature.Recv() == nil || QualType(namedOf(f.Signature.Recv().Type())) != "adminapi.IPFilter" {
				continue
			}
			if rs := f.Signature.Results(); rs.Len() != 1 || !types.Identical(rs.At(0).Type(), types.Typ[types.Bool]) || len(ci.Common().Args) < 2 {
				continue
			}
			found = true
			decisionName = "IPFilter)." + f.Name() + "("
			d := p.Desc(ci.Common().Args[1], nil)
			ok := strings.Contains(d, "http.Request.RemoteAddr") && !strings.Contains(d, "Header") && !strings.Contains(d, "GetClientIP")
			c.Check(ok, "peer-address-only", "adminapi.(*IPFilter).Middleware/handler", p.InstrPos(ci),
				"the filtered address derives from r.RemoteAddr only", "the filtered address depends on client-supplied data: "+d+" (a forged X-Forwarded-For / X-Real-IP passes an allow list or dodges a deny list)")
		}
		if !found {
			c.Missing("peer-address-only", "adminapi.(*IPFilter).Middleware/decision-call")
		}
		c.traceRule("forbidden-not-served", "adminapi.(*IPFilter).Middleware/handler", mwInner, c.handlerSpec("IPFilter)."),
			"filter decision false ⇒ 403 and next is not reached; true ⇒ next without writing",
			func(t *Trace) string {
				r, _, ok := c.findRel(t, decisionName, "", 0, -1)
				if !ok || decisionName == "" {
					return "the filter decision is not tested"
				}
				allowed := r.Lo == 1
				if allowed {
					if !t.Has("next") {
						return "allowed request is not served"
					}
					if t.Has("status:403") {
						return "allowed request answered 403"
					}
				} else {
					if t.Has("next") {
						return "request from a refused address is still served"
					}
					if !t.Has("status:403") {
						return "refused request is not answered 403"
					}
				}
				return ""
			})
		// the same decision rule, end to end: from the handler through whatever filter methods it calls
		c.traceRule("filter-decision", "adminapi.(*IPFilter).Middleware/end-to-end", mwInner, filterSpec(),
			"a request is served only for a parsed peer address that hit no deny entry and (allow list empty or contained); every other request is answered 403",
			func(t *Trace) string {
				if t.Has("next") {
					return decision(t, true)
				}
				if !t.Has("status:403") {
					return "refused request is not answered 403"
				}
				return ""
			})
	}

	// 4b. a single-address entry denotes exactly that address.  A mask suffix appended to the entry's
	//     own text is only right when the text is in the family the suffix belongs to: "/32" after an
	//     IPv4-mapped literal ("::ffff:10.0.0.1", which To4() accepts) is an IPv6 prefix of 32 bits —
	//     the entry becomes ::/32, denies nothing it was meant to and, in an allow list, admits ::1.
	nSuffix := 0
	for _, fn := range p.Funcs {
		pk := fnPkg(fn)
		if pk == nil || !strings.HasSuffix(pk.Pkg.Path(), "/internal/adminapi") {
			continue
		}
		instrsOf(fn, func(in ssa.Instruction) {
			b, ok := in.(*ssa.BinOp)
			if !ok || b.Op != token.ADD {
				return
			}
			suffix, isK := constStr(b.Y)
			if !isK || suffix != "/32" {
				return
			}
			nSuffix++
			text := stripConv(b.X)
			okText := false
			if call, isCall := text.(*ssa.Call); isCall && CalleeName(call) == "(net.IP).String" {
				okText = true // the 4-byte form printed by the library is dotted-quad
			}
			c.Check(okText, "single-address-entry-exact", p.FuncKey(fn)+"/v4-suffix", p.InstrPos(b), "the /32 suffix is appended to the printed 4-byte form of the address",
				"\"/32\" is appended to "+p.Desc(text, nil)+", the entry as written: an IPv4-mapped literal (::ffff:a.b.c.d) passes the To4() test but is IPv6 syntax, so the entry becomes the network ::/32 — a deny entry no longer matches its address and an allow entry admits ::1 and every other address below ::/32")
		})
	}
	if nSuffix == 0 {
		c.Pass("single-address-entry-exact", "adminapi/v4-suffix", "-", "no mask suffix is appended to entry text (single addresses are turned into exact networks another way)")
	}

	// 5. no fail-open
	sp := c.handlerSpec("IPAllowList", "IPDenyList", "NewIPFilter")
	c.traceRule("filter-fails-closed", "adminapi.NewMux", nm, sp,
		"with IP lists configured the returned handler is the filter middleware; on a parse error it is a handler that cannot reach the mux",
		func(t *Trace) string {
			r, isRet := t.RetInstr.(*ssa.Return)
			if !isRet || len(r.Results) != 1 {
				return ""
			}
			d := p.Desc(r.Results[0], nil)
			configured := false
			for _, it := range t.Items {
				if _, isIf := it.Instr.(*ssa.If); isIf {
					rel := c.condRel(it)
					// (a length that is ≠ 0 is ≥ 1)
					if (strings.Contains(rel.X, "len(fld:config.AdminAPIConfig.IPAllowList)") || strings.Contains(rel.X, "len(fld:config.AdminAPIConfig.IPDenyList)")) && rel.Y == "" && rel.Pred == "" &&
						(rel.Lo >= 1 || (rel.Neq && rel.Lo == 0 && rel.Hi == 0)) {
						configured = true
					}
				}
			}
			if !configured {
				// unfiltered handler: both lists must have been found empty on this path
				if strings.HasPrefix(d, "call:net/http.NewServeMux(") {
					emptyA, emptyD := false, false
					for _, it := range t.Items {
						if _, isIf := it.Instr.(*ssa.If); isIf {
							rel := c.condRel(it)
							if rel.Y == "" && rel.Pred == "" && !rel.Neq && rel.Hi <= 0 {
								if strings.Contains(rel.X, "len(fld:config.AdminAPIConfig.IPAllowList)") {
									emptyA = true
								}
								if strings.Contains(rel.X, "len(fld:config.AdminAPIConfig.IPDenyList)") {
									emptyD = true
								}
							}
						}
					}
					if !emptyA || !emptyD {
						return "the API is served unfiltered without both the allow list and the deny list having been found empty (a deny-only or allow-only configuration is ignored)"
					}
				}
				return ""
			}
			if e, _, ok := c.findRel(t, "NewIPFilter(", "", 0, -1); ok && (e.Neq || e.Lo != 0) && strings.Contains(e.X, "#1") {
				// error edge
				if strings.HasPrefix(d, "call:net/http.NewServeMux(") {
					return "a malformed IP list entry makes NewMux return the bare mux: the Admin API is served unfiltered exactly when filtering was requested"
				}
				if mc, isMC := stripConv(r.Results[0]).(*ssa.MakeClosure); isMC {
					for _, b := range mc.Bindings {
						if strings.Contains(p.Desc(b, nil), "NewServeMux") {
							return "the error-edge handler can still reach the mux"
						}
					}
				}
				return ""
			}
			if !strings.HasPrefix(d, "call:(*github.com/0xReLogic/Helios/internal/adminapi.IPFilter).Middleware(") {
				return "IP lists are configured but the returned handler is not the filter middleware: " + d
			}
			return ""
		})
}

// ---- C11 ------------------------------------------------------------------------------------------

// strategyNameTables extracts the three strategy-name tables.
func (c *Ctx) strategyNameTables() (validator, create, set []string, okAll bool) {
	p := c.P
	okAll = true
	create = c.switchStrings(c.strategyFactory())
	setFn := p.Fn("internal/loadbalancer", "LoadBalancer", "SetStrategy")
	set = c.switchStrings(setFn)
	if len(set) == 0 && setFn != nil {
		// SetStrategy may share the factory, or keep its own name table in a helper it calls
		for _, ci := range callsIn(setFn) {
			g := StaticFn(ci)
			if g == nil {
				continue
			}
			if g == c.strategyFactory() {
				set = create
				break
			}
			if pk := fnPkg(g); pk != nil && strings.HasSuffix(pk.Pkg.Path(), "/internal/loadbalancer") {
				if ks := c.switchStrings(g); contains(ks, "round_robin") && contains(ks, "least_connections") {
					set = ks
					break
				}
			}
		}
	}
	if len(create) == 0 || len(set) == 0 {
		okAll = false
	}
	validator = c.mapLiteralKeys(p.Fn("internal/config", "Config", "validateLoadBalancer"))
	if len(validator) == 0 {
		// the strategy table may live in a merged validator
		for _, fn := range p.Funcs {
			if pk := fnPkg(fn); pk != nil && strings.HasSuffix(pk.Pkg.Path(), "/internal/config") {
				if ks := c.mapLiteralKeys(fn); contains(ks, "round_robin") {
					validator = ks
				}
			}
		}
	}
	return
}

// strategyFactory: the function that turns the configured strategy name into a strategy at start-up —
// createStrategy, or the constructor it was inlined into: a function of the balancer package, other
// than SetStrategy, that compares a string with the strategy names and builds strategies.
func (c *Ctx) strategyFactory() *ssa.Function {
	p := c.P
	if f := p.Fn("internal/loadbalancer", "", "createStrategy"); f != nil {
		return f
	}
	var out *ssa.Function
	for _, fn := range p.Funcs {
		pk := fnPkg(fn)
		if pk == nil || !strings.HasSuffix(pk.Pkg.Path(), "/internal/loadbalancer") || fn.Name() == "SetStrategy" || fn.Parent() != nil {
			continue
		}
		if ks := c.switchStrings(fn); contains(ks, "round_robin") && contains(ks, "least_connections") {
			if out == nil || fn.Name() < out.Name() {
				out = fn
			}
		}
	}
	return out
}

// mapLiteralKeys: constant string keys inserted into map literals in fn.
func (c *Ctx) mapLiteralKeys(fn *ssa.Function) []string {
	var out []string
	if fn == nil {
		return nil
	}
	instrsOf(fn, func(in ssa.Instruction) {
		if mu, ok := in.(*ssa.MapUpdate); ok {
			if _, isMake := mu.Map.(*ssa.MakeMap); isMake {
				if s, ok := constStr(mu.Key); ok {
					out = append(out, s)
				}
			}
		}
	})
	return uniqueStrings(out)
}

func sameStrings(a, b []string) bool {
	if len(a) != len(b) {
		return false
	}
	for i := range a {
		if a[i] != b[i] {
			return false
		}
	}
	return true
}

func checkC11(c *Ctx) {
	p := c.P
	c.Clause("LoadBalancer.strategy is read under lb.mutex and stored under its write lock; AddBackend, RemoveBackend and SetStrategy mutate the strategy only with the write lock held; each strategy's slice only under its own mutex")
	c.Clause("failed operations change nothing: no mutator runs before an error return of AddBackend / SetStrategy")
	c.Clause("SetStrategy hands every element of the old strategy's GetBackends() (the same *Backend) to the new strategy before publishing it; the three strategy-name tables agree")
	c.Clause("RemoveBackend removes every backend of the name (or AddBackend rejects duplicates)")
	c.Clause("admin handlers answer the success status only on the nil-error edge of the balancer call")
	c.Clause("a registered backend forwards to the address of its own registration: its URL is this call's parsed address and its ReverseProxy is built from that URL in this call, on every path (nothing remembered from an earlier registration of the name)")
	c.Clause("a Backend's identity and forwarding machinery (Name, URL, ReverseProxy, Weight) are never stored after the backend was published: a request that picked it just before a removal is still served through it")
	c.Clause("the balancer and strategy locks are never re-acquired while held (a recursive read lock deadlocks as soon as an admin write queues between the two acquisitions) and are acquired in a consistent order")
	c.Clause("RemoveBackend looks the name up and removes it in one write-locked critical section; AddBackend accepts only an http(s) URL with a host (anything else is an error before any state changes)")
	c.Clause("AddBackend refuses a name that is already listed (an error, nothing changed): 'no backend of that name' is about one backend")
	c.Clause("an admin request is decoded into a fresh variable of the handler call (nothing pooled or shared): fields a body leaves out are zero, not an earlier request's")
	c.Clause("each strategy's AddBackend extends its pool by one append and touches nothing else of it (an in-place insertion overwrites or shifts the backends already there)")
	c.NotDecided("linearizability of concurrent histories beyond mutual exclusion; that in-flight requests complete")

	lockOrder(c, "LoadBalancer.mutex", "Strategy.mutex", "Strategy.mu")
	lockDiscipline(c, func(k string) bool {
		return k == "loadbalancer.LoadBalancer.strategy" || strings.HasSuffix(k, "Strategy.backends") || k == "loadbalancer.weightedBackend.currentWeight" ||
			k == "loadbalancer.Backend.Name" || k == "loadbalancer.Backend.URL" || k == "loadbalancer.Backend.ReverseProxy" || k == "loadbalancer.Backend.Weight"
	})
	li := p.Locks()
	nMut := 0
	for _, name := range []string{"AddBackend", "RemoveBackend", "SetStrategy"} {
		fn := p.Fn("internal/loadbalancer", "LoadBalancer", name)
		construct := "loadbalancer.(*LoadBalancer)." + name
		if fn == nil {
			c.Missing("mutators-hold-write-lock", construct)
			continue
		}
		var bad []string
		n := 0
		instrsOf(fn, func(in ssa.Instruction) {
			ci, ok := in.(ssa.CallInstruction)
			isMut := false
			if ok {
				cn := CalleeName(ci)
				isMut = strings.HasSuffix(cn, "Strategy).AddBackend") || strings.HasSuffix(cn, "Strategy).RemoveBackend")
			}
			if k, _ := storeKey(in); k == "loadbalancer.LoadBalancer.strategy" {
				isMut = true
			}
			if !isMut {
				return
			}
			n++
			if li.Fns[fn].Must[in].HoldsClass("loadbalancer.LoadBalancer.mutex") != 'W' {
				bad = append(bad, p.InstrPos(in)+": backend set mutated without LoadBalancer.mutex held in write mode")
			}
		})
		nMut += n
		if len(bad) == 0 {
			c.Pass("mutators-hold-write-lock", construct, p.Pos(fn.Pos()), fmt.Sprintf("%d mutations under the write lock", n))
		} else {
			c.Fail("mutators-hold-write-lock", construct, p.Pos(fn.Pos()), bad[0], bad...)
		}
	}
	c.Floor("mutators-hold-write-lock", nMut, 4, "strategy mutations in admin operations")

	// 2. failed operations change nothing
	mutSpec := func() *Spec {
		return &Spec{
			Event: func(in ssa.Instruction, fr *Frame) string {
				if k, _ := storeKey(in); strings.HasPrefix(k, "loadbalancer.LoadBalancer.") || strings.HasPrefix(k, "config.") {
					return "mutate:store " + k
				}
				if ci, ok := in.(ssa.CallInstruction); ok {
					n := CalleeName(ci)
					switch {
					case strings.HasSuffix(n, "Strategy).AddBackend"):
						return "mutate:add(" + p.Desc(ci.Common().Value, fr) + "," + p.Desc(ci.Common().Args[0], fr) + ")"
					case strings.HasSuffix(n, "Strategy).RemoveBackend"):
						return "mutate:remove"
					case strings.HasSuffix(n, "MetricsCollector).UpdateBackendHealth"):
						return "mutate:metrics"
					case strings.HasSuffix(n, "Strategy).GetBackends"):
						return "getbackends(" + p.Desc(ci.Common().Value, fr) + ")"
					case n == "builtin:delete" && strings.Contains(p.Desc(ci.Common().Args[0], fr), "fld:loadbalancer.LoadBalancer."):
						return "undo:" + p.Desc(ci.Common().Args[0], fr) + "[" + p.Desc(ci.Common().Args[1], fr) + "]"
					}
				}
				// an entry added to a map the balancer keeps (a set of taken names, a cache)
				if mu, ok := in.(*ssa.MapUpdate); ok {
					if d := p.Desc(mu.Map, fr); strings.HasPrefix(d, "fld:loadbalancer.LoadBalancer.") && !strings.Contains(d, "healthChecker") {
						return "mutate:insert " + d + "[" + p.Desc(mu.Key, fr) + "]"
					}
				}
				return ""
			},
			// unexported helpers of the balancer are looked into: a mutation moved into one is still a
			// mutation of the operation
			Expand: func(callee *ssa.Function, _ ssa.CallInstruction) bool {
				if callee.Signature.Recv() == nil || callee.Object() == nil || callee.Object().Exported() {
					return false
				}
				return QualType(namedOf(callee.Signature.Recv().Type())) == "loadbalancer.LoadBalancer"
			},
		}
	}
	for _, name := range []string{"AddBackend", "SetStrategy"} {
		fn := p.Fn("internal/loadbalancer", "LoadBalancer", name)
		c.traceRule("failed-op-changes-nothing", "loadbalancer.(*LoadBalancer)."+name, fn, mutSpec(),
			"every path returning a non-nil error performed no mutation",
			func(t *Trace) string {
				if len(t.Ret) != 1 {
					return "undecided: arity"
				}
				if t.Ret[0].K == ANil {
					return ""
				}
				for i, it := range t.Items {
					if !strings.HasPrefix(it.Label, "mutate:") {
						continue
					}
					// an insertion that the same path takes back before it fails changed nothing
					if strings.HasPrefix(it.Label, "mutate:insert ") {
						undone := false
						for _, later := range t.Items[i+1:] {
							if later.Label == "undo:"+strings.TrimPrefix(it.Label, "mutate:insert ") {
								undone = true
							}
						}
						if undone {
							continue
						}
					}
					return "operation fails after having already changed state: " + it.Label
				}
				return ""
			})
	}
	// 3. switch keeps the same backends
	ss := p.Fn("internal/loadbalancer", "LoadBalancer", "SetStrategy")
	c.traceRule("switch-keeps-backends", "loadbalancer.(*LoadBalancer).SetStrategy", ss, mutSpec(),
		"the new strategy receives the range elements of the old strategy's GetBackends() and is published afterwards",
		func(t *Trace) string {
			if len(t.Ret) != 1 || t.Ret[0].K != ANil {
				return ""
			}
			gi, si := -1, -1
			for i, it := range t.Items {
				if it.Label == "getbackends(fld:loadbalancer.LoadBalancer.strategy)" && gi < 0 {
					gi = i
				}
				if it.Label == "mutate:store loadbalancer.LoadBalancer.strategy" {
					si = i
				}
			}
			if si < 0 {
				return "successful switch does not publish the new strategy"
			}
			if gi < 0 || gi > si {
				return "the old strategy's backends are not read before the new strategy is published"
			}
			st := t.Items[si].Instr.(*ssa.Store)
			newD := p.Desc(st.Val, nil)
			for i, it := range t.Items {
				if strings.HasPrefix(it.Label, "mutate:add(") {
					if i > si {
						return "backends are moved after the new strategy was already published (requests can see an empty pool)"
					}
					ci := it.Instr.(ssa.CallInstruction)
					if p.Desc(ci.Common().Value, nil) != newD {
						return "backends are added to something other than the strategy being published"
					}
					if a := p.Desc(ci.Common().Args[0], nil); !strings.Contains(a, "GetBackends(fld:loadbalancer.LoadBalancer.strategy)") {
						return "the new strategy is given something other than the old strategy's own *Backend objects: " + a
					}
				}
			}
			return ""
		})
	if ss != nil {
		// the move loop has no early exit and does add
		var addAt ssa.Instruction
		instrsOf(ss, func(in ssa.Instruction) {
			if ci, ok := in.(ssa.CallInstruction); ok && strings.HasSuffix(CalleeName(ci), "Strategy).AddBackend") {
				addAt = in
			}
		})
		ok := addAt != nil
		detail := "SetStrategy never adds the existing backends to the new strategy"
		if addAt != nil {
			hdr := loopHeader(addAt.Block())
			if hdr == nil {
				ok, detail = false, "existing backends are not moved in a loop over all of them"
			} else {
				// every trip through the loop body passes the add
				for _, s := range hdr.Succs {
					if hdr.Dominates(s) && reaches(s, hdr, map[*ssa.BasicBlock]bool{}) && s != addAt.Block() {
						if reachesAvoiding(s, hdr, addAt.Block(), map[*ssa.BasicBlock]bool{}) {
							ok, detail = false, "some backends are skipped when the strategy is switched (an iteration of the move loop can return to the loop head without adding the backend)"
						}
					}
				}
				for _, b := range ss.Blocks {
					if hdr.Dominates(b) && b != hdr && reaches(b, hdr, map[*ssa.BasicBlock]bool{}) {
						for _, s := range b.Succs {
							if !hdr.Dominates(s) || (!reaches(s, hdr, map[*ssa.BasicBlock]bool{}) && s != hdr) {
								ok, detail = false, "the loop moving backends can exit before all were moved"
							}
						}
						if !addAt.Block().Dominates(b) && b != addAt.Block() && len(b.Succs) == 1 && b.Succs[0] == hdr {
							ok, detail = false, "some iterations skip adding the backend"
						}
					}
				}
			}
		}
		c.Check(ok, "switch-keeps-backends", "loadbalancer.(*LoadBalancer).SetStrategy/move-loop", p.Pos(ss.Pos()), "every element is added, no early exit", detail)
	}
	v, cr, st, okT := c.strategyNameTables()
	if !okT {
		c.Missing("strategy-tables-agree", "validateLoadBalancer/createStrategy/SetStrategy")
	} else {
		c.Check(sameStrings(v, cr) && sameStrings(cr, st) && len(v) >= 5, "strategy-tables-agree", "validateLoadBalancer=createStrategy=SetStrategy", "-",
			fmt.Sprintf("all three tables are %v", v), fmt.Sprintf("strategy name tables differ: validator %v, createStrategy %v, SetStrategy %v", v, cr, st))
	}
	// 4. remove really removes the name
	rb := p.Fn("internal/loadbalancer", "LoadBalancer", "RemoveBackend")
	construct := "loadbalancer.(*LoadBalancer).RemoveBackend"
	if rb == nil {
		c.Missing("remove-removes-name", construct)
	} else {
		var rm ssa.Instruction
		instrsOf(rb, func(in ssa.Instruction) {
			if ci, ok := in.(ssa.CallInstruction); ok && strings.HasSuffix(CalleeName(ci), "Strategy).RemoveBackend") {
				rm = in
			}
		})
		all := false
		if rm != nil {
			if hdr := loopHeader(rm.Block()); hdr != nil {
				all = reaches(rm.Block(), hdr, map[*ssa.BasicBlock]bool{}) // the loop continues after a removal
				// guarded by name equality
				eq := false
				for _, b := range rb.Blocks {
					ifi, ok := b.Instrs[len(b.Instrs)-1].(*ssa.If)
					if !ok {
						continue
					}
					// the removal sits on the edge that established name equality — the true edge of
					// `==`, or the false edge of a `!= … continue` guard
					for si, pol := range []bool{true, false} {
						if !b.Succs[si].Dominates(rm.Block()) || b.Succs[si].Dominates(b) {
							continue // not the edge towards the removal (or a back edge to the loop head)
						}
						r := p.RelOf(ifi.Cond, pol, nil)
						if strings.Contains(r.X+r.Y, "Backend.Name") && strings.Contains(r.X+r.Y, "param:name") && !r.Neq && r.Lo == 0 && r.Hi == 0 {
							eq = true
						}
					}
				}
				if !eq {
					all = false
				}
			}
		}
		// atomicity: what is removed is decided inside the write-locked section that removes it.  The
		// pool snapshot (GetBackends) the removed elements come from — looked for in RemoveBackend and in
		// the balancer helpers it calls — must be taken with lb.mutex held in write mode; a list of
		// matches collected under the read lock and removed later misses a backend of that name added
		// in between, although a listing in between showed it ("once remove returns no backend of
		// that name is listed")
		li := p.Locks()
		var snapshots []ssa.CallInstruction
		seenH := map[*ssa.Function]bool{}
		var collect func(f *ssa.Function, d int)
		collect = func(f *ssa.Function, d int) {
			if f == nil || seenH[f] || d > 2 || f.Blocks == nil {
				return
			}
			seenH[f] = true
			for _, ci := range callsIn(f) {
				if strings.HasSuffix(CalleeName(ci), "Strategy).GetBackends") {
					snapshots = append(snapshots, ci)
				}
				if g := StaticFn(ci); g != nil && g.Signature.Recv() != nil && QualType(namedOf(g.Signature.Recv().Type())) == "loadbalancer.LoadBalancer" {
					collect(g, d+1)
				}
			}
		}
		collect(rb, 0)
		for _, snap := range snapshots {
			fl := li.Fns[snap.Parent()]
			if fl == nil || fl.Must[snap].HoldsClass("loadbalancer.LoadBalancer.mutex") != 'W' {
				c.Fail("remove-removes-name", construct+"/atomic", p.InstrPos(snap), "the backends to remove are looked up without lb.mutex held in write mode (in "+p.FuncKey(snap.Parent())+") and removed in a later critical section: a backend of that name added in between survives the removal although a listing in between already showed it — no sequential order of the three operations explains the history")
			}
		}
		// alternative: AddBackend rejects duplicates
		dupRejected := false
		if ab := p.Fn("internal/loadbalancer", "LoadBalancer", "AddBackend"); ab != nil {
			instrsOf(ab, func(in ssa.Instruction) {
				if ifi, ok := in.(*ssa.If); ok {
					r := p.RelOf(ifi.Cond, true, nil)
					if strings.Contains(r.X+r.Y, "Backend.Name") && strings.Contains(r.X+r.Y, "BackendConfig.Name") {
						dupRejected = true
					}
				}
			})
		}
		c.Check(all || dupRejected, "remove-removes-name", construct, p.Pos(rb.Pos()),
			map[bool]string{true: "the removal loop continues after a match (every backend of the name is removed)", false: "AddBackend rejects a name that is already present"}[all],
			"only the first backend with the name is removed and AddBackend accepts duplicate names: add(x), add(x), remove(x) leaves a backend named x listed and receiving traffic")
	}
	c11OwnMachinery(c)
	c.backendAddressUsable()
	c.backendNamesUnique()
	c.adminRequestFresh()
	c.strategyAddAppends()
	// 5. admin handlers
	nm := p.Fn("internal/adminapi", "", "NewMux")
	if nm == nil {
		c.Missing("admin-status-on-success", "adminapi.NewMux")
		return
	}
	nH := 0
	for _, cl := range Closures(nm) {
		var op string
		for _, ci := range callsIn(cl) {
			n := CalleeName(ci)
			if strings.HasSuffix(n, "LoadBalancer).AddBackend") || strings.HasSuffix(n, "LoadBalancer).SetStrategy") {
				op = n[strings.LastIndex(n, ".")+1:]
			}
		}
		if op == "" {
			continue
		}
		nH++
		c.traceRule("admin-status-on-success", "adminapi.NewMux/"+op+"-handler", cl, c.handlerSpec("LoadBalancer)."+op), "2xx only when the balancer call returned nil; an error is answered 4xx",
			func(t *Trace) string {
				r, _, ok := c.findRel(t, "LoadBalancer)."+op+"(", "", 0, -1)
				if !ok {
					if t.Has("lb." + op) {
						return "the error of " + op + " is ignored"
					}
					return ""
				}
				failed := r.Neq || r.Lo != 0
				for _, it := range t.Items {
					if strings.HasPrefix(it.Label, "status:") {
						var code int64
						fmt.Sscanf(strings.TrimPrefix(it.Label, "status:"), "%d", &code)
						if failed && code < 400 {
							return "failed operation answered with a success status"
						}
						if !failed && code >= 400 {
							return "successful operation answered with an error status"
						}
					}
				}
				if failed && !t.Has("status:400") {
					return "failed operation is not answered 400"
				}
				return ""
			})
	}
	c.Floor("admin-status-on-success", nH, 2, "admin mutation handlers")
	_ = sort.Strings
}

// c11OwnMachinery: "once add returns the backend is eligible" means traffic for it reaches the address
// that was just registered.  Wherever a Backend is given its URL and ReverseProxy, every value that
// can reach those fields (through φs and local variables) is this call's own: the URL is a result of
// url.Parse, the proxy a result of httputil.NewSingleHostReverseProxy applied to such a URL.  A proxy
// taken from anywhere else (a cache keyed by name, a field, a global) still points at the address of
// the registration it was built for.
func c11OwnMachinery(c *Ctx) {
	p := c.P
	rule := "add-builds-own-proxy"
	n := 0
	var origins func(v ssa.Value, seen map[ssa.Value]bool, out *[]ssa.Value)
	origins = func(v ssa.Value, seen map[ssa.Value]bool, out *[]ssa.Value) {
		if v == nil || seen[v] {
			return
		}
		seen[v] = true
		switch x := v.(type) {
		case *ssa.Phi:
			for _, e := range x.Edges {
				origins(e, seen, out)
			}
			return
		case *ssa.ChangeType:
			origins(x.X, seen, out)
			return
		case *ssa.Parameter:
			// a helper's parameter: what its callers pass (all call sites)
			if fn := x.Parent(); fn != nil && p.IsHelios(fn) && fn.Object() != nil && !fn.Object().Exported() {
				idx := -1
				for i, pm := range fn.Params {
					if pm == x {
						idx = i
					}
				}
				found := false
				for _, caller := range p.Funcs {
					for _, ci := range callsIn(caller) {
						if StaticFn(ci) == fn && idx >= 0 && idx < len(ci.Common().Args) {
							origins(ci.Common().Args[idx], seen, out)
							found = true
						}
					}
				}
				if found {
					return
				}
			}
		case *ssa.Call:
			// a helper of this repository: what it returns
			if h := StaticFn(x); h != nil && p.IsHelios(h) && h.Blocks != nil && h.Signature.Results().Len() == 1 {
				instrsOf(h, func(in ssa.Instruction) {
					if r, ok := in.(*ssa.Return); ok && len(r.Results) == 1 {
						origins(r.Results[0], seen, out)
					}
				})
				return
			}
		case *ssa.Extract:
			if call, ok := x.Tuple.(*ssa.Call); ok {
				if h := StaticFn(call); h != nil && p.IsHelios(h) && h.Blocks != nil {
					instrsOf(h, func(in ssa.Instruction) {
						if r, ok := in.(*ssa.Return); ok && x.Index < len(r.Results) {
							if k, isK := r.Results[x.Index].(*ssa.Const); isK && k.Value == nil {
								return // the failure return
							}
							origins(r.Results[x.Index], seen, out)
						}
					})
					return
				}
			}
		case *ssa.UnOp:
			if a, ok := x.X.(*ssa.Alloc); ok && x.Op == token.MUL {
				if refs := a.Referrers(); refs != nil {
					found := false
					for _, r := range *refs {
						if st, ok := r.(*ssa.Store); ok && st.Addr == ssa.Value(a) {
							origins(st.Val, seen, out)
							found = true
						}
					}
					if found {
						return
					}
				}
			}
		}
		*out = append(*out, v)
	}
	isParsedURL := func(v ssa.Value) bool {
		var os []ssa.Value
		origins(v, map[ssa.Value]bool{}, &os)
		if len(os) == 0 {
			return false
		}
		for _, o := range os {
			ex, ok := o.(*ssa.Extract)
			if !ok || ex.Index != 0 {
				return false
			}
			call, ok := ex.Tuple.(*ssa.Call)
			if !ok {
				return false
			}
			switch CalleeName(call) {
			case "net/url.Parse", "net/url.ParseRequestURI":
			default:
				return false
			}
		}
		return true
	}
	for _, fn := range p.Funcs {
		if !p.InScope(fn) {
			continue
		}
		instrsOf(fn, func(in ssa.Instruction) {
			k, st := storeKey(in)
			if k != "loadbalancer.Backend.ReverseProxy" && k != "loadbalancer.Backend.URL" {
				return
			}
			n++
			construct := p.FuncKey(fn) + "/" + strings.TrimPrefix(k, "loadbalancer.")
			if k == "loadbalancer.Backend.URL" {
				c.Check(isParsedURL(st.Val), rule, construct, p.InstrPos(st), "the backend's URL is this call's url.Parse result on every path",
					"a backend can be registered with a URL that is not the one parsed from this registration: "+p.Desc(st.Val, nil))
				return
			}
			var os []ssa.Value
			origins(st.Val, map[ssa.Value]bool{}, &os)
			var bad []string
			for _, o := range os {
				call, ok := o.(*ssa.Call)
				if !ok || CalleeName(call) != "net/http/httputil.NewSingleHostReverseProxy" {
					bad = append(bad, p.Desc(o, nil))
					continue
				}
				if !isParsedURL(call.Call.Args[0]) {
					bad = append(bad, "NewSingleHostReverseProxy("+p.Desc(call.Call.Args[0], nil)+")")
				}
			}
			c.Check(len(os) > 0 && len(bad) == 0, rule, construct, p.InstrPos(st), fmt.Sprintf("the backend's proxy is NewSingleHostReverseProxy(url.Parse(address)) of this call on every path (%d origin(s))", len(os)),
				"a backend can be registered with a proxy that was not built from this registration's address ("+strings.Join(bad, "; ")+"): it is listed under the new address while its traffic goes wherever that proxy points — a name re-added with another address keeps serving the old one, also after it was removed")
		})
	}
	c.Floor(rule, n, 2, "stores to Backend.URL / Backend.ReverseProxy")
}

// backendAddressUsable: an address that cannot be proxied to is a failed operation, not a registered
// backend.  url.Parse accepts almost anything ("localhost:8081" is scheme "localhost", opaque "8081";
// "not a url" is a relative path): every path of AddBackend that registers a backend has therefore
// found the parsed URL's scheme to be http or https and its host non-empty.  Otherwise the backend is
// listed healthy, every request routed to it is answered 502, and a configuration file with such an
// address starts a proxy that cannot work instead of failing with a clear error (C11, C18).
func (c *Ctx) backendAddressUsable() {
	p := c.P
	ab := p.Fn("internal/loadbalancer", "LoadBalancer", "AddBackend")
	sp := &Spec{
		Event: func(in ssa.Instruction, fr *Frame) string {
			if ci, ok := in.(ssa.CallInstruction); ok && strings.HasSuffix(CalleeName(ci), "Strategy).AddBackend") {
				return "register"
			}
			return ""
		},
		Cond: p.condMentions("url.URL.Scheme", "url.URL.Host"),
		Expand: func(callee *ssa.Function, site ssa.CallInstruction) bool {
			return fnPkg(callee) == fnPkg(ab) && callee.Signature.Recv() == nil
		},
	}
	c.traceRule("backend-address-usable", "loadbalancer.(*LoadBalancer).AddBackend", ab, sp,
		"a backend is registered only after its URL was found to have scheme http/https and a host",
		func(t *Trace) string {
			ri := t.Index("register", 0)
			if ri < 0 {
				return ""
			}
			scheme, host := false, false
			for _, it := range t.Items[:ri] {
				if _, isIf := it.Instr.(*ssa.If); !isIf {
					continue
				}
				r := c.condRel(it)
				if !r.OK {
					continue
				}
				if strings.Contains(r.X, "url.URL.Scheme") && !r.Neq && r.Lo == 0 && r.Hi == 0 && (r.Y == `k:"http"` || r.Y == `k:"https"`) {
					scheme = true
				}
				if strings.Contains(r.X, "url.URL.Host") && r.Neq && (r.Y == `k:""` || r.Y == "") {
					host = true
				}
			}
			if !scheme || !host {
				return "a backend is registered without its address having been found to be an http(s) URL with a host: \"localhost:8081\" (no scheme) or \"not a url\" parse without error, are listed as healthy backends and answer every request with 502"
			}
			return ""
		})
}

// credentialVerbatim: "unless the request carries exactly 'Bearer <token>'" is about the token as it
// stands in the configuration.  The field is filled by the YAML decoder only; any store to it in
// Helios code rewrites the credential (os.ExpandEnv turns "$ecret" into "" — and an empty token means
// authentication is off; TrimSpace or ToLower widen what is accepted).
func (c *Ctx) credentialVerbatim() {
	p := c.P
	construct := "config.AdminAPIConfig.AuthToken"
	var bad []string
	reads := 0
	for _, fn := range p.Funcs {
		if !p.InScope(fn) {
			continue
		}
		for _, a := range Accesses(fn) {
			if a.Key != construct {
				continue
			}
			if a.IsWrite() {
				bad = append(bad, fmt.Sprintf("%s: %s stores to %s: the token enforced is no longer the one configured", p.InstrPos(a.Instr), p.FuncKey(fn), construct))
			} else {
				reads++
			}
		}
	}
	if reads == 0 {
		c.Missing("credential-verbatim", construct)
		return
	}
	if len(bad) == 0 {
		c.Pass("credential-verbatim", construct, "-", fmt.Sprintf("read %d times, never stored after decoding", reads))
	} else {
		c.Fail("credential-verbatim", construct, "-", bad[0], bad...)
	}
}
