package main

import (
	"fmt"
	"go/token"
	"sort"
	"strings"

	"golang.org/x/tools/go/ssa"
)

// storeKey returns the field key a Store writes to ("" if not a field store).
func storeKey(in ssa.Instruction) (string, *ssa.Store) {
	st, ok := in.(*ssa.Store)
	if !ok {
		return "", nil
	}
	if fa, ok := st.Addr.(*ssa.FieldAddr); ok {
		if fr, ok := fieldRefOf(fa); ok {
			return fr.Key(), st
		}
	}
	return "", nil
}

// forAll evaluates pred on every trace and reports the failing ones.
func forAll(ts []*Trace, pred func(t *Trace) string) []string {
	var bad []string
	seen := map[string]bool{}
	for _, t := range ts {
		if r := pred(t); r != "" {
			w := r + "  on path: " + t.String()
			if !seen[w] {
				seen[w] = true
				bad = append(bad, w)
			}
		}
	}
	return bad
}

// traceRule runs pred over the traces of fn under spec and records one obligation.
func (c *Ctx) traceRule(rule, construct string, fn *ssa.Function, spec *Spec, okDetail string, pred func(t *Trace) string) bool {
	if fn == nil {
		c.Missing(rule, construct)
		return false
	}
	spec.P = c.P
	ts := spec.Walk(fn)
	c.Count("paths_enumerated", len(ts))
	pos := c.P.Pos(fn.Pos())
	if spec.Overflow() {
		c.Undecided(rule, construct, pos, "path enumeration exceeded its bound")
		return false
	}
	if len(ts) == 0 {
		c.Undecided(rule, construct, pos, "no complete path found through the function")
		return false
	}
	bad := forAll(ts, pred)
	if len(bad) == 0 {
		c.Pass(rule, construct, pos, fmt.Sprintf("%s (%d distinct projected paths)", okDetail, len(ts)))
		return true
	}
	if len(bad) > 6 {
		bad = append(bad[:6], fmt.Sprintf("… %d more", len(bad)-6))
	}
	c.Fail(rule, construct, pos, firstLine(bad[0]), bad...)
	return false
}

func firstLine(s string) string {
	if i := strings.Index(s, "  on path:"); i >= 0 {
		return s[:i]
	}
	return s
}

// condRel returns the normalised relation of a branch item.
func (c *Ctx) condRel(it Item) Rel {
	ifi, ok := it.Instr.(*ssa.If)
	if !ok {
		return Rel{}
	}
	if it.Cond != nil {
		fr := it.CondFrame
		if fr == nil {
			fr = it.Frame
		}
		return c.P.RelOf(it.Cond, it.Pol != it.CondNeg, fr)
	}
	return c.P.RelOf(ifi.Cond, it.Pol, it.Frame)
}

// findRel looks for a branch item before index `before` (or anywhere if <0) whose relation can be
// oriented to (mx, my); returns the relation.
func (c *Ctx) findRel(t *Trace, mx, my string, from, before int) (Rel, int, bool) {
	for i := from; i < len(t.Items) && (before < 0 || i < before); i++ {
		if _, ok := t.Items[i].Instr.(*ssa.If); !ok {
			continue
		}
		r := c.condRel(t.Items[i])
		if !r.OK {
			continue
		}
		if o, ok := r.Orient(mx, my); ok {
			return o, i, true
		}
	}
	return Rel{}, -1, false
}

// isHTTPErrorCall: http.Error(w, msg, code) or w.WriteHeader(code) with a constant code; returns code.
func httpStatusCall(ci ssa.CallInstruction) (int64, bool) {
	name := CalleeName(ci)
	args := ci.Common().Args
	switch name {
	case "net/http.Error":
		if len(args) == 3 {
			return constIntOK(args[2])
		}
	case "(net/http.ResponseWriter).WriteHeader":
		if len(args) == 1 {
			return constIntOK(args[0])
		}
	}
	return 0, false
}

func constIntOK(v ssa.Value) (int64, bool) { return constInt(v) }

// anyCondLabel is a Cond func keeping every branch, labelled by its operand provenance.
func (p *Program) anyCondLabel() func(*ssa.If, *Frame) string {
	return func(in *ssa.If, fr *Frame) string { return "if " + p.Desc(in.Cond, fr) }
}

// condMentions keeps only branches whose provenance mentions one of the substrings.
func (p *Program) condMentions(subs ...string) func(*ssa.If, *Frame) string {
	return func(in *ssa.If, fr *Frame) string {
		d := p.Desc(in.Cond, fr)
		for _, s := range subs {
			if strings.Contains(d, s) {
				return "if " + d
			}
		}
		return ""
	}
}

func expandAllHelios(except ...string) func(*ssa.Function, ssa.CallInstruction) bool {
	return func(callee *ssa.Function, site ssa.CallInstruction) bool {
		n := callee.String()
		if strings.Contains(n, "/internal/logging.") {
			return false
		}
		for _, e := range except {
			if strings.Contains(n, e) {
				return false
			}
		}
		return true
	}
}

func expandOnly(names ...string) func(*ssa.Function, ssa.CallInstruction) bool {
	return func(callee *ssa.Function, site ssa.CallInstruction) bool {
		n := callee.String()
		for _, e := range names {
			if strings.HasSuffix(n, e) {
				return true
			}
		}
		return false
	}
}

func fmtInt(i int64) string { return fmt.Sprintf("%d", i) }

// traceRuleSplit is traceRule with one obligation per context: pred classifies each path into a
// context (sub-construct) and returns a reason when the path violates the rule.  Known findings
// can then name the exact context that fails.
func (c *Ctx) traceRuleSplit(rule, construct string, fn *ssa.Function, spec *Spec, okDetail string, pred func(t *Trace) (string, string)) bool {
	if fn == nil {
		c.Missing(rule, construct)
		return false
	}
	spec.P = c.P
	ts := spec.Walk(fn)
	c.Count("paths_enumerated", len(ts))
	pos := c.P.Pos(fn.Pos())
	if spec.Overflow() {
		c.Undecided(rule, construct, pos, "path enumeration exceeded its bound")
		return false
	}
	if len(ts) == 0 {
		c.Undecided(rule, construct, pos, "no complete path found through the function")
		return false
	}
	type agg struct {
		n   int
		bad []string
	}
	ctxs := map[string]*agg{}
	var order []string
	for _, t := range ts {
		cx, reason := pred(t)
		if cx == "" {
			continue
		}
		a := ctxs[cx]
		if a == nil {
			a = &agg{}
			ctxs[cx] = a
			order = append(order, cx)
		}
		a.n++
		if reason != "" {
			w := reason + "  on path: " + t.String()
			dup := false
			for _, b := range a.bad {
				if b == w {
					dup = true
				}
			}
			if !dup {
				a.bad = append(a.bad, w)
			}
		}
	}
	sortStrings(order)
	all := true
	for _, cx := range order {
		a := ctxs[cx]
		if len(a.bad) == 0 {
			c.Pass(rule, construct+"/"+cx, pos, fmt.Sprintf("%s (%d paths in this context)", okDetail, a.n))
			continue
		}
		all = false
		if len(a.bad) > 6 {
			a.bad = append(a.bad[:6], fmt.Sprintf("… %d more", len(a.bad)-6))
		}
		st := Violated
		if strings.HasPrefix(a.bad[0], "undecided:") {
			st = Undecided
		}
		c.add(rule, construct+"/"+cx, pos, st, firstLine(a.bad[0]), a.bad...)
	}
	return all
}

func sortStrings(s []string) {
	for i := 1; i < len(s); i++ {
		for j := i; j > 0 && s[j] < s[j-1]; j-- {
			s[j], s[j-1] = s[j-1], s[j]
		}
	}
}

// fieldLoads returns the load instructions of struct fields that feed v (through arithmetic,
// comparisons, conversions, pure call arguments and phis).
func fieldLoads(v ssa.Value, depth int, seen map[ssa.Value]bool, out *[]*ssa.UnOp) {
	if depth > 8 || v == nil || seen[v] {
		return
	}
	seen[v] = true
	switch x := v.(type) {
	case *ssa.UnOp:
		if x.Op == token.MUL {
			if _, ok := x.X.(*ssa.FieldAddr); ok {
				*out = append(*out, x)
				return
			}
			if ia, ok := x.X.(*ssa.IndexAddr); ok {
				fieldLoads(ia.X, depth+1, seen, out)
				return
			}
			if a, ok := x.X.(*ssa.Alloc); ok { // local variable: follow what was stored
				if refs := a.Referrers(); refs != nil {
					for _, r := range *refs {
						if st, ok := r.(*ssa.Store); ok && st.Addr == a {
							fieldLoads(st.Val, depth+1, seen, out)
						}
					}
				}
				return
			}
		}
		fieldLoads(x.X, depth+1, seen, out)
	case *ssa.BinOp:
		fieldLoads(x.X, depth+1, seen, out)
		fieldLoads(x.Y, depth+1, seen, out)
	case *ssa.Convert:
		fieldLoads(x.X, depth+1, seen, out)
	case *ssa.ChangeType:
		fieldLoads(x.X, depth+1, seen, out)
	case *ssa.Phi:
		for _, e := range x.Edges {
			fieldLoads(e, depth+1, seen, out)
		}
	case *ssa.Call:
		for _, a := range x.Call.Args {
			fieldLoads(a, depth+1, seen, out)
		}
		// a small helper that reads fields itself: its loads happen at (under the locks of) this call
		if f := StaticFn(x); f != nil && f.Blocks != nil && f.Parent() == nil && len(f.Blocks) <= 4 && fnPkg(f) != nil && strings.HasPrefix(fnPkg(f).Pkg.Path(), modPath) {
			instrsOf(f, func(in ssa.Instruction) {
				if r, ok := in.(*ssa.Return); ok {
					var inner []*ssa.UnOp
					for _, rv := range r.Results {
						fieldLoads(rv, depth+1, seen, &inner)
					}
					for _, ld := range inner {
						if loadContext[ld] == nil {
							loadContext[ld] = x
						}
						*out = append(*out, ld)
					}
				}
			})
		}
	case *ssa.Extract:
		fieldLoads(x.Tuple, depth+1, seen, out)
	case *ssa.Lookup:
		fieldLoads(x.X, depth+1, seen, out)
		fieldLoads(x.Index, depth+1, seen, out)
	case *ssa.IndexAddr:
		fieldLoads(x.X, depth+1, seen, out)
	case *ssa.Index:
		fieldLoads(x.X, depth+1, seen, out)
	case *ssa.Slice:
		fieldLoads(x.X, depth+1, seen, out)
	case *ssa.Field:
		fieldLoads(x.X, depth+1, seen, out)
	case *ssa.FieldAddr:
		fieldLoads(x.X, depth+1, seen, out)
	case *ssa.MakeInterface:
		fieldLoads(x.X, depth+1, seen, out)
	case *ssa.Alloc:
		// a local aggregate (e.g. the varargs array of append): follow what is stored into it
		var follow func(addr ssa.Value, d int)
		follow = func(addr ssa.Value, d int) {
			refs := addr.Referrers()
			if refs == nil || d > 3 {
				return
			}
			for _, r := range *refs {
				switch y := r.(type) {
				case *ssa.Store:
					if y.Addr == addr {
						fieldLoads(y.Val, depth+1, seen, out)
					}
				case *ssa.IndexAddr:
					follow(y, d+1)
				case *ssa.FieldAddr:
					follow(y, d+1)
				}
			}
		}
		follow(x, 0)
	}
}

// loadContext: for loads found inside a helper, the call (in the function under analysis) at which
// they effectively execute.
var loadContext = map[*ssa.UnOp]ssa.Instruction{}

// loadedUnder: every load of field `key` feeding the branch condition of item `it` is executed
// with lock class `class` held in at least `mode`.  A condition that tests a value read in an
// earlier critical section (a stale snapshot) fails this test even if the branch itself sits
// inside the later critical section.
func (c *Ctx) loadedUnder(it Item, key, class string, mode byte) (bool, string) {
	ifi, ok := it.Instr.(*ssa.If)
	if !ok {
		return false, "not a branch"
	}
	var loads []*ssa.UnOp
	fieldLoads(ifi.Cond, 0, map[ssa.Value]bool{}, &loads)
	li := c.P.Locks()
	found := false
	for _, ld := range loads {
		fr, ok := fieldRefOf(ld.X)
		if !ok || fr.Key() != key {
			continue
		}
		found = true
		var at ssa.Instruction = ld
		if ctx := loadContext[ld]; ctx != nil {
			at = ctx
		}
		fl := li.Fns[at.Parent()]
		if fl == nil {
			return false, "load outside analysed code"
		}
		held := fl.Must[at].HoldsClass(class)
		if held == 0 || (mode == 'W' && held != 'W') {
			return false, fmt.Sprintf("%s is read at %s without %s held in mode %c (a stale value read in an earlier critical section is re-used)", key, c.P.InstrPos(ld), class, mode)
		}
	}
	if !found {
		return false, "the condition does not read " + key
	}
	return true, ""
}

// ---- discovered anchors -------------------------------------------------------------------------
// An unexported function name is only a hint: when the function of that name is gone (renamed,
// merged, inlined) the construct is looked up by what it does.

// fnCalling returns the non-closure functions of a package (path suffix) that call a callee whose
// name satisfies pred, in name order.
func (c *Ctx) fnCalling(pkgSuffix string, pred func(callee string, ci ssa.CallInstruction) bool) []*ssa.Function {
	p := c.P
	var out []*ssa.Function
	for _, fn := range p.Funcs {
		pk := fnPkg(fn)
		if pk == nil || !strings.HasSuffix(pk.Pkg.Path(), pkgSuffix) || fn.Parent() != nil {
			continue
		}
		hit := false
		for _, ci := range callsIn(fn) {
			if pred(CalleeName(ci), ci) {
				hit = true
			}
		}
		if hit {
			out = append(out, fn)
		}
	}
	sort.Slice(out, func(i, j int) bool { return out[i].Name() < out[j].Name() })
	return out
}

func (c *Ctx) anchor(pkg, recv, name string, discover func() *ssa.Function) *ssa.Function {
	if f := c.P.Fn(pkg, recv, name); f != nil {
		return f
	}
	return discover()
}

// probeRoot: the function a probing goroutine runs for one backend (checkBackendHealth): the probe
// sender (the function calling (*http.Client).Do), or the closest caller above it that is itself
// only called from goroutine closures.
func (c *Ctx) probeRoot() *ssa.Function {
	return c.anchor("internal/loadbalancer", "LoadBalancer", "checkBackendHealth", func() *ssa.Function {
		p := c.P
		senders := c.fnCalling("/internal/loadbalancer", func(n string, _ ssa.CallInstruction) bool { return n == "(*net/http.Client).Do" })
		if len(senders) == 0 {
			return nil
		}
		f := senders[0]
		for hops := 0; hops < 3; hops++ {
			var named []*ssa.Function
			for _, g := range p.Funcs {
				if !p.InScope(g) {
					continue
				}
				for _, ci := range callsIn(g) {
					if StaticFn(ci) == f && g.Parent() == nil {
						named = append(named, g)
					}
				}
			}
			if len(named) != 1 || named[0].Object() == nil || named[0].Object().Exported() {
				break
			}
			f = named[0]
		}
		return f
	})
}

// byteLimitParser / gzipOptionParser / acceptEncodingFn / idGenerator / handlerBuilder.
func (c *Ctx) byteLimitParser() *ssa.Function {
	return c.anchor("internal/plugins", "", "parseByteLimit", func() *ssa.Function {
		for _, fn := range c.P.Funcs {
			pk := fnPkg(fn)
			if pk == nil || !strings.HasSuffix(pk.Pkg.Path(), "/internal/plugins") || fn.Parent() != nil {
				continue
			}
			rs := fn.Signature.Results()
			if rs.Len() == 2 && rs.At(0).Type().String() == "int64" && rs.At(1).Type().String() == "error" {
				return fn
			}
		}
		return nil
	})
}

func (c *Ctx) gzipOptionParser() *ssa.Function {
	return c.anchor("internal/plugins", "", "parseGzipConfig", func() *ssa.Function {
		var out *ssa.Function
		for _, fn := range c.P.Funcs {
			pk := fnPkg(fn)
			if pk == nil || !strings.HasSuffix(pk.Pkg.Path(), "/internal/plugins") {
				continue
			}
			instrsOf(fn, func(in ssa.Instruction) {
				if lk, ok := in.(*ssa.Lookup); ok {
					if k, isStr := constStr(lk.Index); isStr && k == "level" {
						out = outermost(fn)
					}
				}
			})
		}
		return out
	})
}

func (c *Ctx) acceptEncodingFn() *ssa.Function {
	return c.anchor("internal/plugins", "", "containsGzip", func() *ssa.Function {
		p := c.P
		for _, fn := range p.Funcs {
			pk := fnPkg(fn)
			if pk == nil || !strings.HasSuffix(pk.Pkg.Path(), "/internal/plugins") {
				continue
			}
			for _, ci := range callsIn(fn) {
				h := StaticFn(ci)
				if h == nil || !p.IsHelios(h) || h.Blocks == nil {
					continue
				}
				for _, a := range ci.Common().Args {
					if strings.Contains(p.Desc(a, nil), `k:"Accept-Encoding"`) {
						return h
					}
				}
			}
		}
		return nil
	})
}

func (c *Ctx) idGenerator() *ssa.Function {
	return c.anchor("internal/logging", "", "generateIdentifier", func() *ssa.Function {
		fs := c.fnCalling("/internal/logging", func(n string, _ ssa.CallInstruction) bool { return n == "crypto/rand.Read" })
		if len(fs) == 0 {
			return nil
		}
		return fs[0]
	})
}

func (c *Ctx) handlerBuilder() *ssa.Function {
	return c.anchor("cmd/helios", "", "buildHandler", func() *ssa.Function {
		fs := c.fnCalling("/cmd/helios", func(n string, _ ssa.CallInstruction) bool { return strings.HasSuffix(n, "plugins.BuildChain") })
		if len(fs) == 0 {
			return nil
		}
		return fs[0]
	})
}

// probeSender: the function that performs the probe request ((*http.Client).Do).
func (c *Ctx) probeSender() *ssa.Function {
	if c.senderDone {
		return c.sender
	}
	c.senderDone = true
	fs := c.fnCalling("/internal/loadbalancer", func(n string, _ ssa.CallInstruction) bool { return n == "(*net/http.Client).Do" })
	if len(fs) > 0 {
		c.sender = fs[0]
	}
	return c.sender
}
