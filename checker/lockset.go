package main

import (
	"sort"
	"strings"

	"golang.org/x/tools/go/ssa"
)

// Held is one held lock: class "pkg.Type.field" (or "g:pkg.var"), instance root (access path of the
// object owning the mutex, "?" when inherited from callers) and mode 'R' or 'W'.
type Held struct {
	Class string
	Root  string
	Mode  byte
}

type LockSet map[string]Held // key: Class|Root

func (ls LockSet) clone() LockSet {
	o := make(LockSet, len(ls))
	for k, v := range ls {
		o[k] = v
	}
	return o
}

func (ls LockSet) String() string {
	var s []string
	for _, h := range ls {
		s = append(s, h.Class+"("+string(h.Mode)+")@"+h.Root)
	}
	sort.Strings(s)
	return "{" + strings.Join(s, ", ") + "}"
}

// HoldsClass reports the strongest mode in which class is held ('W' > 'R'), 0 if not held.
func (ls LockSet) HoldsClass(class string) byte {
	var m byte
	for _, h := range ls {
		if h.Class == class {
			if h.Mode == 'W' {
				return 'W'
			}
			m = h.Mode
		}
	}
	return m
}

// HoldsInstance is like HoldsClass but also requires the instance root to be root (or unknown).
func (ls LockSet) HoldsInstance(class, root string) byte {
	var m byte
	for _, h := range ls {
		if h.Class == class && (h.Root == root || h.Root == "?") {
			if h.Mode == 'W' {
				return 'W'
			}
			m = h.Mode
		}
	}
	return m
}

// lockOp classifies a call as a sync lock operation.
type lockOp struct {
	Acquire bool
	Mode    byte
	Class   string
	Root    string
	Known   bool      // receiver resolved to a field/global mutex
	RootV   ssa.Value // the object owning the mutex (nil for globals)
}

func asLockOp(c ssa.CallInstruction) (lockOp, bool) {
	name := CalleeName(c)
	var op lockOp
	switch name {
	case "(*sync.Mutex).Lock", "(*sync.RWMutex).Lock":
		op = lockOp{Acquire: true, Mode: 'W'}
	case "(*sync.RWMutex).RLock":
		op = lockOp{Acquire: true, Mode: 'R'}
	case "(*sync.Mutex).Unlock", "(*sync.RWMutex).Unlock":
		op = lockOp{Acquire: false, Mode: 'W'}
	case "(*sync.RWMutex).RUnlock":
		op = lockOp{Acquire: false, Mode: 'R'}
	default:
		return op, false
	}
	args := c.Common().Args
	if len(args) == 0 {
		return op, true
	}
	switch r := args[0].(type) {
	case *ssa.FieldAddr:
		if fr, ok := fieldRefOf(r); ok {
			op.Class = fr.Key()
			op.Root = AccessPath(r.X)
			op.RootV = r.X
			op.Known = true
		}
	case *ssa.Global:
		op.Class = "g:" + r.Pkg.Pkg.Name() + "." + r.Name()
		op.Root = "g"
		op.Known = true
	}
	if !op.Known {
		op.Class = "?:" + AccessPath(args[0])
		op.Root = "?"
	}
	return op, true
}

// FnLocks is the result of the lockset dataflow for one function.
type FnLocks struct {
	Fn     *ssa.Function
	Must   map[ssa.Instruction]LockSet // locks held on every path reaching the instruction
	May    map[ssa.Instruction]LockSet // locks held on some path
	Entry  LockSet
	Exit   []exitLocks // lock sets at Return/Panic (after deferred unlocks)
	Unknow []ssa.CallInstruction
	// RunMust/RunMay: lock sets in force when a deferred (non-lock) call actually runs, i.e. after
	// the deferred calls registered later have run (LIFO) and before those registered earlier.
	RunMust map[*ssa.Defer]LockSet
	RunMay  map[*ssa.Defer]LockSet
	// Unheld: release operations (direct, or deferred ones at the point where they run) reached
	// with the lock's class held on no path — "sync: Unlock of unlocked RWMutex", a fatal error
	Unheld []unheldRelease
}

type unheldRelease struct {
	At    ssa.Instruction // the Unlock call, or the RunDefers that runs a deferred one
	Defer *ssa.Defer      // the deferred call, if any
	Class string
	// Some: held on some paths reaching the release but not on all (otherwise: on none)
	Some bool
}

type defEntry struct {
	op     lockOp
	isLock bool
	at     *ssa.Defer
}

type exitLocks struct {
	At   ssa.Instruction
	Must LockSet
	May  LockSet
}

func analyseLocks(fn *ssa.Function, entry LockSet) *FnLocks {
	res := &FnLocks{Fn: fn, Must: map[ssa.Instruction]LockSet{}, May: map[ssa.Instruction]LockSet{}, Entry: entry,
		RunMust: map[*ssa.Defer]LockSet{}, RunMay: map[*ssa.Defer]LockSet{}}
	if len(fn.Blocks) == 0 {
		return res
	}
	type state struct {
		must, may LockSet
		deferred  []defEntry // deferred calls registered so far (path-insensitive union, in order)
		ok        bool
	}
	in := make([]state, len(fn.Blocks))
	out := make([]state, len(fn.Blocks))
	in[0] = state{must: entry.clone(), may: entry.clone(), ok: true}
	apply := func(ls LockSet, op lockOp, must bool) {
		key := op.Class + "|" + op.Root
		if op.Acquire {
			ls[key] = Held{Class: op.Class, Root: op.Root, Mode: op.Mode}
			return
		}
		if _, ok := ls[key]; ok {
			delete(ls, key)
			return
		}
		// the owner is a φ (`b = next(); b.mu.Lock()` in a loop, released through the merged
		// variable): it denotes one of its operands, whose lock this releases
		if roots := phiOperandPaths(op.RootV); len(roots) > 0 {
			hit := false
			for k, h := range ls {
				if h.Class == op.Class && roots[h.Root] {
					delete(ls, k)
					hit = true
				}
			}
			if hit {
				return
			}
		}
		// fall back: release any lock of the class with this mode (instance path differed)
		for k, h := range ls {
			if h.Class == op.Class {
				delete(ls, k)
				return
			}
		}
	}
	// keyed by site and rewritten every time the site's block is processed: the last processing of a
	// block sees its fixpoint state
	type unheldKey struct {
		at ssa.Instruction
		d  *ssa.Defer
	}
	unheld := map[unheldKey]unheldRelease{}
	work := []int{0}
	inWork := map[int]bool{0: true}
	for len(work) > 0 {
		bi := work[0]
		work = work[1:]
		inWork[bi] = false
		b := fn.Blocks[bi]
		st := state{must: in[bi].must.clone(), may: in[bi].may.clone(), deferred: append([]defEntry(nil), in[bi].deferred...), ok: true}
		for _, ins := range b.Instrs {
			res.Must[ins] = st.must.clone()
			res.May[ins] = st.may.clone()
			switch x := ins.(type) {
			case *ssa.Call:
				if op, ok := asLockOp(x); ok {
					if !op.Known {
						res.Unknow = append(res.Unknow, x)
					}
					if !op.Acquire && op.Known && st.may.HoldsClass(op.Class) == 0 {
						unheld[unheldKey{x, nil}] = unheldRelease{At: x, Class: op.Class}
					} else if !op.Acquire && op.Known && st.must.HoldsClass(op.Class) == 0 {
						unheld[unheldKey{x, nil}] = unheldRelease{At: x, Class: op.Class, Some: true}
					} else if !op.Acquire {
						delete(unheld, unheldKey{x, nil})
					}
					apply(st.must, op, true)
					apply(st.may, op, false)
				} else if callee := StaticFn(x); callee != nil {
					// a helper that returns with a lock held on every path (a lock-acquiring wrapper:
					// `b := rl.lockLiveBucket(ip); defer b.mutex.Unlock()`) acquires it for its caller
					for _, h := range lockSummary[callee] {
						op := lockOp{Acquire: true, Mode: h.Mode, Class: h.Class, Root: "?", Known: true}
						apply(st.must, op, true)
						apply(st.may, op, false)
					}
				}
			case *ssa.Defer:
				if op, ok := asLockOp(x); ok {
					if !op.Acquire {
						st.deferred = append(st.deferred, defEntry{op: op, isLock: true, at: x})
					}
				} else {
					st.deferred = append(st.deferred, defEntry{at: x})
				}
			case *ssa.RunDefers:
				for i := len(st.deferred) - 1; i >= 0; i-- {
					d := st.deferred[i]
					if d.isLock {
						if d.op.Known && st.may.HoldsClass(d.op.Class) == 0 {
							unheld[unheldKey{x, d.at}] = unheldRelease{At: x, Defer: d.at, Class: d.op.Class}
						} else if d.op.Known && st.must.HoldsClass(d.op.Class) == 0 {
							unheld[unheldKey{x, d.at}] = unheldRelease{At: x, Defer: d.at, Class: d.op.Class, Some: true}
						} else {
							delete(unheld, unheldKey{x, d.at})
						}
						apply(st.must, d.op, true)
						apply(st.may, d.op, false)
						continue
					}
					// union/intersection over the RunDefers sites that can run this call
					if prev, ok := res.RunMay[d.at]; ok {
						for k, h := range st.may {
							prev[k] = h
						}
						m := res.RunMust[d.at]
						for k := range m {
							if _, ok := st.must[k]; !ok {
								delete(m, k)
							}
						}
					} else {
						res.RunMay[d.at] = st.may.clone()
						res.RunMust[d.at] = st.must.clone()
					}
				}
			case *ssa.Return:
				res.Exit = append(res.Exit, exitLocks{At: x, Must: st.must.clone(), May: st.may.clone()})
			case *ssa.Panic:
				res.Exit = append(res.Exit, exitLocks{At: x, Must: st.must.clone(), May: st.may.clone()})
			}
		}
		out[bi] = st
		for _, s := range b.Succs {
			si := s.Index
			var n state
			if !in[si].ok {
				n = state{must: st.must.clone(), may: st.may.clone(), deferred: append([]defEntry(nil), st.deferred...), ok: true}
			} else {
				n = state{must: LockSet{}, may: in[si].may.clone(), ok: true}
				for k, h := range in[si].must {
					if h2, ok := st.must[k]; ok {
						if h2.Mode != h.Mode {
							h.Mode = 'R'
						}
						n.must[k] = h
						continue
					}
					// the same class held on both edges through different instance paths (the locked
					// object is a φ: `for b.evicted { b.mu.Unlock(); b = next(); b.mu.Lock() }`): some
					// instance of the class is held either way
					var other *Held
					cnt := 0
					for _, h2 := range st.must {
						if h2.Class == h.Class {
							h2 := h2
							other = &h2
							cnt++
						}
					}
					if cnt == 1 {
						if _, dup := st.must[k]; !dup {
							m := h
							if other.Mode != h.Mode {
								m.Mode = 'R'
							}
							m.Root = "?"
							n.must[h.Class+"|?"] = m
						}
					}
				}
				for k, h := range st.may {
					if h0, ok := n.may[k]; !ok || (h0.Mode == 'R' && h.Mode == 'W') {
						n.may[k] = h
					}
				}
				n.deferred = append([]defEntry(nil), in[si].deferred...)
				for _, d := range st.deferred {
					found := false
					for _, e := range n.deferred {
						if e == d {
							found = true
						}
					}
					if !found {
						n.deferred = append(n.deferred, d)
					}
				}
			}
			if !in[si].ok || !sameLS(n.must, in[si].must) || !sameLS(n.may, in[si].may) || len(n.deferred) != len(in[si].deferred) {
				in[si] = n
				if !inWork[si] {
					work = append(work, si)
					inWork[si] = true
				}
			}
		}
	}
	for _, u := range unheld {
		res.Unheld = append(res.Unheld, u)
	}
	sort.Slice(res.Unheld, func(i, j int) bool { return res.Unheld[i].At.Pos() < res.Unheld[j].At.Pos() })
	return res
}

// lockSummary: for lock-acquiring wrappers, the locks their caller holds after the call returns.
var lockSummary = map[*ssa.Function][]Held{}

func sameHeld(a, b []Held) bool {
	if len(a) != len(b) {
		return false
	}
	for i := range a {
		if a[i] != b[i] {
			return false
		}
	}
	return true
}

func sameLS(a, b LockSet) bool {
	if len(a) != len(b) {
		return false
	}
	for k, v := range a {
		if w, ok := b[k]; !ok || w != v {
			return false
		}
	}
	return true
}

// LockInfo holds the lock analysis of all Helios functions, with entry sets inherited from callers
// ("called with lock held" helpers).
type LockInfo struct {
	P   *Program
	Fns map[*ssa.Function]*FnLocks
}

func (p *Program) Locks() *LockInfo {
	if p.locks != nil {
		return p.locks
	}
	li := &LockInfo{P: p, Fns: map[*ssa.Function]*FnLocks{}}
	p.locks = li
	entry := map[*ssa.Function]LockSet{}
	for _, fn := range p.Funcs {
		entry[fn] = LockSet{}
	}
	lockSummary = map[*ssa.Function][]Held{}
	for iter := 0; iter < 5; iter++ {
		for _, fn := range p.Funcs {
			li.Fns[fn] = analyseLocks(fn, entry[fn])
		}
		changed := false
		// lock-acquiring wrappers: locks held (must) at every normal return that were not held at entry
		for _, fn := range p.Funcs {
			fl := li.Fns[fn]
			var acq []Held
			first := true
			nRet := 0
			for _, ex := range fl.Exit {
				if _, isRet := ex.At.(*ssa.Return); !isRet {
					continue
				}
				nRet++
				var here []Held
				for _, h := range ex.Must {
					if fl.Entry.HoldsClass(h.Class) == 0 {
						here = append(here, Held{Class: h.Class, Root: "?", Mode: h.Mode})
					}
				}
				if first {
					acq, first = here, false
					continue
				}
				var keep []Held
				for _, a := range acq {
					for _, b := range here {
						if a.Class == b.Class && a.Mode == b.Mode {
							keep = append(keep, a)
							break
						}
					}
				}
				acq = keep
			}
			if nRet == 0 {
				acq = nil
			}
			sort.Slice(acq, func(i, j int) bool { return acq[i].Class < acq[j].Class })
			if !sameHeld(acq, lockSummary[fn]) {
				if len(acq) == 0 {
					delete(lockSummary, fn)
				} else {
					lockSummary[fn] = acq
				}
				changed = true
			}
		}
		for _, fn := range p.Funcs {
			n := p.CG.Nodes[fn]
			if n == nil {
				continue
			}
			var acc LockSet
			sites := 0
			// a closure handed straight to a library function that calls it before returning
			// (sort.Slice's less, sync.Map.Range's visitor …) runs with what its creator holds there
			if site := syncCallbackSite(fn); site != nil {
				if fl := li.Fns[fn.Parent()]; fl != nil {
					held := LockSet{}
					for _, h := range fl.Must[site] {
						held[h.Class+"|?"] = Held{Class: h.Class, Root: "?", Mode: h.Mode}
					}
					if !sameLS(held, entry[fn]) {
						entry[fn] = held
						changed = true
					}
					continue
				}
			}
			for _, e := range n.In {
				caller := e.Caller.Func
				fl := li.Fns[caller]
				if fl == nil {
					if p.IsHelios(caller) {
						continue
					}
					// called from outside Helios (net/http, sync.Map.Range …): nothing held
					acc = LockSet{}
					sites++
					continue
				}
				site, ok := e.Site.(*ssa.Call)
				if !ok { // go / defer: runs later, assume nothing held
					acc = LockSet{}
					sites++
					continue
				}
				held := LockSet{}
				for _, h := range fl.Must[site] {
					held[h.Class+"|?"] = Held{Class: h.Class, Root: "?", Mode: h.Mode}
				}
				if sites == 0 {
					acc = held
				} else {
					for k, h := range acc {
						if h2, ok := held[k]; !ok {
							delete(acc, k)
						} else if h2.Mode != h.Mode {
							h.Mode = 'R'
							acc[k] = h
						}
					}
				}
				sites++
			}
			if sites == 0 || acc == nil {
				acc = LockSet{}
			}
			// exported entry points and handler closures may also be called from outside
			if fn.Parent() == nil && fn.Object() != nil && fn.Object().Exported() {
				if recvExported(fn) {
					acc = LockSet{}
				}
			}
			if !sameLS(acc, entry[fn]) {
				entry[fn] = acc
				changed = true
			}
		}
		if !changed {
			break
		}
	}
	return li
}

// syncCallbackSite: fn is a closure whose only use is as an argument of a call, in its parent, to a
// standard-library function that invokes its callback synchronously; returns that call.
func syncCallbackSite(fn *ssa.Function) *ssa.Call {
	par := fn.Parent()
	if par == nil {
		return nil
	}
	var site *ssa.Call
	uses := 0
	for _, b := range par.Blocks {
		for _, in := range b.Instrs {
			mc, ok := in.(*ssa.MakeClosure)
			if !ok || mc.Fn != ssa.Value(fn) || mc.Referrers() == nil {
				continue
			}
			for _, r := range *mc.Referrers() {
				uses++
				call, isCall := r.(*ssa.Call)
				if !isCall {
					continue
				}
				switch CalleeName(call) {
				case "sort.Slice", "sort.SliceStable", "sort.Search", "slices.SortFunc", "slices.SortStableFunc", "slices.IndexFunc",
					"slices.ContainsFunc", "slices.DeleteFunc", "slices.BinarySearchFunc", "strings.Map", "strings.FieldsFunc", "strings.IndexFunc",
					"strings.TrimFunc", "(*sync.Map).Range", "(*sync.Once).Do":
					site = call
				}
			}
		}
	}
	if uses != 1 {
		return nil
	}
	return site
}

func recvExported(fn *ssa.Function) bool {
	r := fn.Signature.Recv()
	if r == nil {
		return true
	}
	n := namedOf(r.Type())
	return n != nil && n.Obj().Exported()
}

// phiOperandPaths: the access paths of the values a φ (possibly nested) merges; nil when v is not a φ.
func phiOperandPaths(v ssa.Value) map[string]bool {
	ph, ok := v.(*ssa.Phi)
	if !ok {
		return nil
	}
	out := map[string]bool{}
	seen := map[*ssa.Phi]bool{}
	var walk func(p *ssa.Phi)
	walk = func(p *ssa.Phi) {
		if seen[p] {
			return
		}
		seen[p] = true
		for _, e := range p.Edges {
			if inner, ok := e.(*ssa.Phi); ok {
				walk(inner)
				continue
			}
			out[AccessPath(e)] = true
		}
	}
	walk(ph)
	return out
}
