package main

import (
	"strings"

	"golang.org/x/tools/go/ssa"
)

// backendNamesUnique: health (the metrics mirror), passive failure counts and the per-backend
// metrics are keyed by the backend's *name*.  They describe one backend only if a name identifies one
// backend: AddBackend has to refuse a name that is already listed, before it changes anything.
//
//   - an equality test of a listed backend's Name (an element of the strategy's GetBackends()) with
//     the Name of the configuration being added, inside a loop over that list;
//   - its equal edge returns an error and reaches no mutator;
//   - every mutator (the strategy's AddBackend, the metrics health mirror) comes after that loop.
//
// Without it a second registration of "b1" while b1 is ejected makes the metrics report b1 healthy
// (C04), lets two backends share one failure count (C04) and one set of counters (C13), and "no
// backend of that name is listed" (C11) has to remove several.
func (c *Ctx) backendNamesUnique() {
	p := c.P
	construct := "loadbalancer.(*LoadBalancer).AddBackend"
	ab := p.Fn("internal/loadbalancer", "LoadBalancer", "AddBackend")
	if ab == nil {
		c.Missing("backend-names-unique", construct)
		return
	}
	isMutator := func(in ssa.Instruction) bool {
		ci, ok := in.(ssa.CallInstruction)
		if !ok {
			return false
		}
		n := CalleeName(ci)
		return strings.HasSuffix(n, "Strategy).AddBackend") || strings.HasSuffix(n, "MetricsCollector).UpdateBackendHealth")
	}
	var test *ssa.If
	var eqSucc *ssa.BasicBlock
	for _, b := range ab.Blocks {
		ifi, ok := b.Instrs[len(b.Instrs)-1].(*ssa.If)
		if !ok {
			continue
		}
		for si, pol := range []bool{true, false} {
			r := p.RelOf(ifi.Cond, pol, nil)
			if r.OK && r.Pred == "" && !r.Neq && r.Lo == 0 && r.Hi == 0 &&
				strings.Contains(r.X+"|"+r.Y, "fld:loadbalancer.Backend.Name") && strings.Contains(r.X+"|"+r.Y, "fld:config.BackendConfig.Name") {
				test, eqSucc = ifi, b.Succs[si]
			}
		}
	}
	// … or the comparison lives in a helper whose boolean result AddBackend tests
	var viaHelper *ssa.Function
	if test == nil {
		for _, b := range ab.Blocks {
			ifi, ok := b.Instrs[len(b.Instrs)-1].(*ssa.If)
			if !ok {
				continue
			}
			call, isCall := ifi.Cond.(*ssa.Call)
			neg := false
			if u, isNot := ifi.Cond.(*ssa.UnOp); isNot {
				call, isCall = u.X.(*ssa.Call)
				neg = true
			}
			if !isCall {
				continue
			}
			h := call.Call.StaticCallee()
			if h == nil || !p.InScope(h) || h.Blocks == nil {
				continue
			}
			usesName := false
			for _, a := range call.Call.Args {
				if strings.Contains(p.Desc(a, nil), "fld:config.BackendConfig.Name") {
					usesName = true
				}
			}
			if usesName && helperFindsName(p, h) {
				test, viaHelper = ifi, h
				if neg {
					eqSucc = b.Succs[1]
				} else {
					eqSucc = b.Succs[0]
				}
			} else if usesName {
				// a set of taken names kept next to the pool: the helper looks the name up in a map of
				// the balancer and answers a constant on the "taken" edge; removal has to delete from
				// that map, or a removed name could never be registered again
				if ok, takenReturns, field := helperLooksNameUp(p, h); ok {
					if !removalDeletesFrom(p, field) {
						c.Fail("backend-names-unique", construct, p.InstrPos(ifi), "names are tracked in "+field+" but RemoveBackend never deletes from it: the set and the pool drift apart")
						return
					}
					test, viaHelper = ifi, h
					if takenReturns != neg {
						eqSucc = b.Succs[0]
					} else {
						eqSucc = b.Succs[1]
					}
				}
			}
		}
	}
	if test == nil {
		c.Fail("backend-names-unique", construct, p.Pos(ab.Pos()), "AddBackend never compares the new name with the names already listed: a second backend registered under a name shares and overwrites the state kept per name (adding b1 again while b1 is ejected makes the metrics report b1 healthy inside its window; both share one passive failure count and one set of counters)")
		return
	}
	// the listed backend compared is an element of the pool snapshot
	fromPool := false
	var walk func(v ssa.Value, d int)
	seen := map[ssa.Value]bool{}
	walk = func(v ssa.Value, d int) {
		if v == nil || seen[v] || d > 12 {
			return
		}
		seen[v] = true
		if call, ok := v.(*ssa.Call); ok && strings.HasSuffix(CalleeName(call), "Strategy).GetBackends") {
			fromPool = true
			return
		}
		for _, op := range v.(ssa.Instruction).Operands(nil) {
			if op != nil && *op != nil {
				if _, isInstr := (*op).(ssa.Instruction); isInstr {
					walk(*op, d+1)
				}
			}
		}
	}
	if iv, ok := test.Cond.(ssa.Instruction); ok {
		walk(iv.(ssa.Value), 0)
	}
	hdr := loopHeader(test.Block())
	if viaHelper != nil {
		fromPool = true // established by helperFindsName
		hdr = test.Block()
	}
	if !fromPool {
		c.Fail("backend-names-unique", construct, p.InstrPos(test), "the name is not compared with the backends the strategy lists (GetBackends)")
		return
	}
	if hdr == nil {
		c.Fail("backend-names-unique", construct, p.InstrPos(test), "the name is compared with one backend only, not with every listed backend (no loop)")
		return
	}
	// the equal edge: an error return, no mutator on the way
	okRet := false
	bad := ""
	seenB := map[*ssa.BasicBlock]bool{}
	var follow func(b *ssa.BasicBlock)
	follow = func(b *ssa.BasicBlock) {
		if seenB[b] || bad != "" {
			return
		}
		seenB[b] = true
		for _, in := range b.Instrs {
			if isMutator(in) {
				bad = "the backend is registered although its name is already listed (" + p.InstrPos(in) + ")"
				return
			}
			if ret, ok := in.(*ssa.Return); ok {
				if len(ret.Results) == 0 {
					bad = "the duplicate is not reported"
					return
				}
				last := ret.Results[len(ret.Results)-1]
				if k, isC := last.(*ssa.Const); isC && k.IsNil() {
					bad = "a name that is already listed is answered with a nil error"
					return
				}
				okRet = true
			}
		}
		for _, s := range b.Succs {
			if viaHelper == nil && (s == hdr || s.Dominates(test.Block())) {
				bad = "after a match the loop goes on instead of refusing the registration"
				return
			}
			follow(s)
		}
	}
	follow(eqSucc)
	if bad == "" && !okRet {
		bad = "the equal edge does not return"
	}
	if bad != "" {
		c.Fail("backend-names-unique", construct, p.InstrPos(test), bad)
		return
	}
	// every mutator after the loop
	for _, b := range ab.Blocks {
		for _, in := range b.Instrs {
			if isMutator(in) && !(hdr.Dominates(b) && (viaHelper != nil && b != hdr || !reaches(b, hdr, map[*ssa.BasicBlock]bool{}))) {
				c.Fail("backend-names-unique", construct, p.InstrPos(in), "the backend is registered (or its health published) before the names have been compared")
				return
			}
		}
	}
	c.Pass("backend-names-unique", construct, p.InstrPos(test), "a name that is already listed is refused with an error before anything is changed")
}

// helperFindsName: h loops over the strategy's GetBackends(), compares each Name with a parameter
// and returns true on the equal edge (false otherwise).
func helperFindsName(p *Program, h *ssa.Function) bool {
	listed := false
	instrsOf(h, func(in ssa.Instruction) {
		if call, ok := in.(*ssa.Call); ok && strings.HasSuffix(CalleeName(call), "Strategy).GetBackends") {
			listed = true
		}
	})
	if !listed {
		return false
	}
	for _, b := range h.Blocks {
		ifi, ok := b.Instrs[len(b.Instrs)-1].(*ssa.If)
		if !ok {
			continue
		}
		for si, pol := range []bool{true, false} {
			r := p.RelOf(ifi.Cond, pol, nil)
			if r.OK && r.Pred == "" && !r.Neq && r.Lo == 0 && r.Hi == 0 && strings.Contains(r.X+"|"+r.Y, "fld:loadbalancer.Backend.Name") && strings.Contains(r.X+"|"+r.Y, "param:") {
				// the equal edge returns true
				for _, in := range b.Succs[si].Instrs {
					if ret, isRet := in.(*ssa.Return); isRet && len(ret.Results) == 1 {
						if k, isC := ret.Results[0].(*ssa.Const); isC && k.Value != nil && k.Value.String() == "true" {
							return loopHeader(b) != nil
						}
					}
				}
			}
		}
	}
	return false
}

// helperLooksNameUp: h tests `_, taken := lb.<map>[param]` on a map field of the balancer and returns
// a boolean constant on the taken edge; reports that constant and the field.
func helperLooksNameUp(p *Program, h *ssa.Function) (ok bool, takenReturns bool, field string) {
	for _, b := range h.Blocks {
		ifi, isIf := b.Instrs[len(b.Instrs)-1].(*ssa.If)
		if !isIf {
			continue
		}
		ex, isEx := ifi.Cond.(*ssa.Extract)
		if !isEx || ex.Index != 1 {
			continue
		}
		lk, isLk := ex.Tuple.(*ssa.Lookup)
		if !isLk || !lk.CommaOk {
			continue
		}
		if _, isPrm := lk.Index.(*ssa.Parameter); !isPrm {
			continue
		}
		d := p.Desc(lk.X, nil)
		if !strings.HasPrefix(d, "fld:loadbalancer.LoadBalancer.") {
			continue
		}
		for _, in := range b.Succs[0].Instrs {
			if ret, isRet := in.(*ssa.Return); isRet && len(ret.Results) == 1 {
				if k, isC := ret.Results[0].(*ssa.Const); isC && k.Value != nil {
					return true, k.Value.String() == "true", strings.TrimPrefix(d, "fld:")
				}
			}
		}
	}
	return false, false, ""
}

// removalDeletesFrom: RemoveBackend (or a balancer helper it calls) deletes from the map field.
func removalDeletesFrom(p *Program, field string) bool {
	rb := p.Fn("internal/loadbalancer", "LoadBalancer", "RemoveBackend")
	if rb == nil {
		return false
	}
	found := false
	seen := map[*ssa.Function]bool{}
	var visit func(f *ssa.Function, d int)
	visit = func(f *ssa.Function, d int) {
		if f == nil || seen[f] || d > 2 || f.Blocks == nil {
			return
		}
		seen[f] = true
		for _, ci := range callsIn(f) {
			if CalleeName(ci) == "builtin:delete" && strings.Contains(p.Desc(ci.Common().Args[0], nil), "fld:"+field) {
				found = true
			}
			if g := StaticFn(ci); g != nil && g.Signature.Recv() != nil && QualType(namedOf(g.Signature.Recv().Type())) == "loadbalancer.LoadBalancer" {
				visit(g, d+1)
			}
		}
	}
	visit(rb, 0)
	return found
}
