package main

import (
	"go/token"
	"go/types"
	"strings"

	"golang.org/x/tools/go/ssa"
)

func init() { registry["C09"] = checkC09 }

func checkC09(c *Ctx) {
	p := c.P
	c.Clause("bucket.tokens/lastRefill touched only under bucket.mutex, refillTokens only called with it held (every schedule)")
	c.Clause("Allow returns true only on the tokens≥1 edge and after tokens-- ; false spends nothing")
	c.Clause("refill adds floor(elapsed/refill) only when ≥1, clamps to maxTokens, and advances lastRefill on the same edge")
	c.Clause("a new bucket starts with tokens = maxTokens")
	c.Clause("Allow and its callees write only the bucket looked up for their own key (isolation frame condition)")
	c.Clause("LoadBalancer.ServeHTTP forwards only after Allow(GetClientIP(r)) returned true; the false edge answers 429, counts it and never reaches the proxy/breaker")
	c.Clause("a bucket is removed from the map only when it is full after crediting its pending refill (eviction grants no tokens)")
	c.Clause("eviction removes and marks the bucket under the bucket's own lock and Allow re-checks the mark after locking, so nobody spends from an evicted bucket next to its replacement; the sweep changes no bucket it keeps (no refill, no clock update)")
	c.Clause("the bucket Allow spends from is the map's shared object (no copy), keyed by the caller's address string as given")
	c.Clause("the limiter Helios builds from its configuration gets max_tokens and the refill period from the configuration fields of the same meaning")
	c.NotDecided("the sliding-window bound max+floor(T/refill)+1 over arrival histories; idle-refill counts")

	// 1. lock discipline
	c.constructorArgsFromConfig("NewTokenBucketRateLimiter")
	lockDiscipline(c, func(k string) bool { return strings.HasPrefix(k, "ratelimiter.bucket.") })

	allow := p.Fn("internal/ratelimiter", "TokenBucketRateLimiter", "Allow")
	tok := "ratelimiter.bucket.tokens"
	spec := func() *Spec {
		return &Spec{
			Event: func(in ssa.Instruction, fr *Frame) string {
				if k, st := storeKey(in); k != "" && strings.HasPrefix(k, "ratelimiter.bucket.") {
					return "store " + k + " := " + p.Desc(st.Val, fr)
				}
				if ci, ok := in.(ssa.CallInstruction); ok {
					n := CalleeName(ci)
					if strings.HasPrefix(n, "(*sync.Map).") {
						return n
					}
				}
				return ""
			},
			Cond:   p.condMentions("ratelimiter.bucket", "refillRate"),
			Expand: expandAllHelios(),
		}
	}
	// 2a. spend on admit
	c.traceRule("spend-on-admit", "ratelimiter.(*TokenBucketRateLimiter).Allow", allow, spec(),
		"every `return true` path passes tokens≥1 and exactly one tokens-1 store; `return false` paths do not spend",
		func(t *Trace) string {
			if len(t.Ret) != 1 || (t.Ret[0].K != ATrue && t.Ret[0].K != AFalse) {
				return "undecided: Allow returns a value that is not a boolean constant"
			}
			dec := -1
			nDec := 0
			for i, it := range t.Items {
				if it.Label == "store "+tok+" := (fld:"+tok+" - k:1)" {
					nDec++
					dec = i
				} else if strings.HasPrefix(it.Label, "store "+tok+" := (fld:"+tok+" - ") {
					return "tokens decremented by something other than 1: " + it.Label
				}
			}
			if t.Ret[0].K == ATrue {
				r, ci, ok := c.findRel(t, tok, "", 0, -1)
				// take the last token test before the decrement
				for j := ci + 1; ok && j < len(t.Items) && (dec < 0 || j < dec); j++ {
					if r2, _, ok2 := c.findRel(t, tok, "", j, j+1); ok2 && r2.Y == "" {
						r, ci = r2, j
					}
				}
				if !ok || r.Y != "" && !strings.HasPrefix(r.Y, "k:") {
					return "admitted without testing the token count"
				}
				if !(r.Pred == "" && !r.Neq && r.Lo >= 1) {
					return "admitted on an edge that does not imply tokens ≥ 1: " + r.String()
				}
				if nDec != 1 || dec < ci {
					return "admitted without spending exactly one token after the test"
				}
			} else if nDec != 0 {
				return "rejected request still spends a token"
			}
			return ""
		})
	// 2b. refill
	c.traceRule("refill-shape", "ratelimiter.(*TokenBucketRateLimiter).refillTokens", allow, spec(),
		"tokens grow only by floor(elapsed/refill) on the ≥1 edge, are clamped to maxTokens and lastRefill is advanced on that edge",
		func(t *Trace) string {
			for i, it := range t.Items {
				// tokens = min(tokens + n, maxTokens) is the add and the clamp in one store
				if st, isSt := it.Instr.(*ssa.Store); isSt && strings.HasPrefix(it.Label, "store "+tok+" := ") {
					if added, ok := c.minClampedAdd(st.Val, it.Frame, tok); ok {
						if !(strings.Contains(added, "fld:ratelimiter.bucket.lastRefill") && strings.Contains(added, " / fld:ratelimiter.TokenBucketRateLimiter.refillRate") && strings.HasPrefix(added, "(sub(now,")) {
							return "refill adds a quantity that is not (now-lastRefill)/refillRate: " + added
						}
						g, _, ok := c.findRel(t, added, "", 0, i)
						if !ok || !(g.Pred == "" && !g.Neq && g.Lo == 1 && g.Hi == posInf) {
							return "refill not guarded by tokensToAdd ≥ 1 (got " + g.String() + ")"
						}
						if t.Index("store ratelimiter.bucket.lastRefill := now", i) < 0 {
							return "refill edge does not advance lastRefill to now (same elapsed time would be credited again)"
						}
						continue
					}
				}
				if !strings.HasPrefix(it.Label, "store "+tok+" := (fld:"+tok+" + ") {
					if strings.HasPrefix(it.Label, "store "+tok+" := ") && it.Frame != nil && strings.HasSuffix(it.Frame.Fn.Name(), "refillTokens") &&
						it.Label != "store "+tok+" := fld:ratelimiter.TokenBucketRateLimiter.maxTokens" {
						return "unexpected token store in refill: " + it.Label
					}
					continue
				}
				added := strings.TrimSuffix(strings.TrimPrefix(it.Label, "store "+tok+" := (fld:"+tok+" + "), ")")
				if !(strings.Contains(added, "fld:ratelimiter.bucket.lastRefill") && strings.Contains(added, " / fld:ratelimiter.TokenBucketRateLimiter.refillRate") && strings.HasPrefix(added, "(sub(now,")) {
					return "refill adds a quantity that is not (now-lastRefill)/refillRate: " + added
				}
				// guard: added ≥ 1
				g, _, ok := c.findRel(t, added, "", 0, i)
				if !ok || !(g.Pred == "" && !g.Neq && g.Lo == 1 && g.Hi == posInf) {
					return "refill not guarded by tokensToAdd ≥ 1 (got " + g.String() + ")"
				}
				// clamp after the add
				cl, ci, ok := c.findRel(t, tok, "maxTokens", i+1, -1)
				if !ok {
					return "no clamp of tokens against maxTokens after refill"
				}
				if cl.Lo == 1 && cl.Hi == posInf { // tokens > max edge: must store max
					if t.Index("store "+tok+" := fld:ratelimiter.TokenBucketRateLimiter.maxTokens", ci) < 0 {
						return "tokens > maxTokens edge does not clamp"
					}
				} else if !(cl.Lo == negInf && cl.Hi == 0) {
					return "clamp relation is not tokens ≤ maxTokens / tokens > maxTokens: " + cl.String()
				}
				if t.Index("store ratelimiter.bucket.lastRefill := now", i) < 0 {
					return "refill edge does not advance lastRefill to now (same elapsed time would be credited again)"
				}
			}
			// lastRefill may only advance together with a refill (otherwise fractional periods are lost on every call)
			for i, it := range t.Items {
				if it.Label == "store ratelimiter.bucket.lastRefill := now" && it.Frame != nil && strings.HasSuffix(it.Frame.Fn.Name(), "refillTokens") {
					found := false
					for j := 0; j < i; j++ {
						if strings.HasPrefix(t.Items[j].Label, "store "+tok+" := (fld:"+tok+" + ") {
							found = true
						}
						if st, isSt := t.Items[j].Instr.(*ssa.Store); isSt && strings.HasPrefix(t.Items[j].Label, "store "+tok+" := ") {
							if _, ok := c.minClampedAdd(st.Val, t.Items[j].Frame, tok); ok {
								found = true
							}
						}
					}
					if !found {
						return "lastRefill advanced on an edge that added no tokens (elapsed time is discarded)"
					}
				}
			}
			return ""
		})
	// 3. full initial burst + 4. isolation
	c.traceRule("initial-burst", "ratelimiter.(*TokenBucketRateLimiter).getOrCreateBucket", allow, spec(),
		"a newly created bucket is initialised with tokens = maxTokens and is published only through LoadOrStore under the caller's key",
		func(t *Trace) string {
			for i, it := range t.Items {
				if it.Label == "(*sync.Map).LoadOrStore" {
					init := -1
					for j := 0; j < i; j++ {
						if strings.HasPrefix(t.Items[j].Label, "store "+tok+" := ") && t.Items[j].Frame == it.Frame {
							init = j
						}
					}
					if init < 0 || t.Items[init].Label != "store "+tok+" := fld:ratelimiter.TokenBucketRateLimiter.maxTokens" {
						return "new bucket not initialised with tokens = maxTokens"
					}
				}
			}
			for _, it := range t.Items {
				if ci, ok := it.Instr.(ssa.CallInstruction); ok && strings.HasPrefix(it.Label, "(*sync.Map).") {
					args := CallArgs(ci)
					if len(args) == 0 {
						continue
					}
					if d := p.Desc(args[0], it.Frame); d != "param:clientIP" {
						return "bucket map accessed under a key other than the caller's client address: " + d
					}
				}
			}
			return ""
		})
	c09SharedBucket(c, allow)
	c09Isolation(c, allow)
	c09Gate(c)
	c09Eviction(c)
	c09EvictionAtomic(c, allow)
}

// bucketRemovalSites: the calls in fn that take a bucket out of (or replace one in) the limiter's map.
func bucketRemovalSites(fn *ssa.Function) []ssa.CallInstruction {
	var sites []ssa.CallInstruction
	for _, ci := range callsIn(fn) {
		switch CalleeName(ci) {
		case "(*sync.Map).Delete", "(*sync.Map).LoadAndDelete", "(*sync.Map).CompareAndDelete", "(*sync.Map).Clear", "(*sync.Map).Store", "(*sync.Map).Swap", "(*sync.Map).CompareAndSwap":
			if fa, ok := ci.Common().Args[0].(*ssa.FieldAddr); ok {
				if fr, ok := fieldRefOf(fa); ok && fr.Key() == "ratelimiter.TokenBucketRateLimiter.buckets" {
					sites = append(sites, ci)
				}
			}
		}
	}
	return sites
}

// c09EvictionAtomic: Allow looks a bucket up and locks it in two steps, so a request can hold a
// bucket that the sweep removes in between.  Spending from that orphan next to its full replacement
// admits up to 2 × max_tokens in one burst.  The bound holds under every schedule only if
//
//	(a) a bucket leaves the map inside the critical section (of its own mutex) that decided so,
//	(b) that section marks the bucket (a boolean field set to true), and
//	(c) Allow tests the mark, under the bucket's lock, before it spends.
func c09EvictionAtomic(c *Ctx, allow *ssa.Function) {
	p := c.P
	rule := "eviction-atomic"
	const bk = "ratelimiter.bucket."
	mkSpec := func(isSite map[ssa.Instruction]bool) *Spec {
		return &Spec{
			Event: func(in ssa.Instruction, fr *Frame) string {
				if isSite[in] {
					return "evict"
				}
				if k, st := storeKey(in); strings.HasPrefix(k, bk) {
					return "store " + k + " := " + p.Desc(st.Val, fr)
				}
				if ci, ok := in.(ssa.CallInstruction); ok {
					if op, ok := asLockOp(ci); ok && op.Class == bk+"mutex" {
						if op.Acquire {
							return "lock"
						}
						return "unlock"
					}
				}
				return ""
			},
			Cond:   func(in *ssa.If, fr *Frame) string { return "if " + p.Desc(in.Cond, fr) },
			Expand: expandAllHelios(),
		}
	}
	marks := map[string]bool{}
	nSites := 0
	for _, fn := range p.Funcs {
		pk := fnPkg(fn)
		if pk == nil || !strings.HasSuffix(pk.Pkg.Path(), "/ratelimiter") {
			continue
		}
		sites := bucketRemovalSites(fn)
		if len(sites) == 0 {
			continue
		}
		nSites += len(sites)
		isSite := map[ssa.Instruction]bool{}
		for _, s := range sites {
			isSite[s] = true
		}
		c.traceRule(rule, p.FuncKey(fn)+"/removal", fn, mkSpec(isSite),
			"a bucket leaves the map inside the critical section of its own mutex that decided so, and is marked there",
			func(t *Trace) string {
				for i, it := range t.Items {
					if it.Label != "evict" {
						continue
					}
					// the enclosing critical section
					lo := -1
					for j := i - 1; j >= 0; j-- {
						l := t.Items[j].Label
						if l == "unlock" || l == "run:unlock" {
							break
						}
						if l == "lock" {
							lo = j
							break
						}
					}
					if lo < 0 {
						return "a bucket is removed from the map after the bucket's lock was released: a request that looked the bucket up before (and locks it after) the removal spends from the orphan while later requests get a full replacement — up to 2 × max_tokens pass in one burst"
					}
					marked := ""
					for j := lo; j < len(t.Items); j++ {
						l := t.Items[j].Label
						if j > i && (l == "unlock" || l == "run:unlock") {
							break
						}
						if strings.HasPrefix(l, "store "+bk) && strings.HasSuffix(l, " := k:true") {
							marked = strings.TrimSuffix(strings.TrimPrefix(l, "store "), " := k:true")
						}
					}
					if marked == "" {
						return "a bucket is removed under its lock but not marked: a request already waiting for that lock spends from the orphan next to its full replacement"
					}
					marks[marked] = true
				}
				return ""
			})
	}
	if nSites == 0 {
		c.Pass(rule, "ratelimiter.TokenBucketRateLimiter.buckets", "-", "buckets are never removed or replaced")
		return
	}
	// the sweep only looks: it changes neither the balance nor the refill anchor of a bucket it keeps.
	// Crediting the refill from the sweep (tokens += n; lastRefill = now) throws away the fraction of a
	// period the client had accrued, so after k idle periods it is admitted fewer than min(k, max) times
	for _, fn := range p.Funcs {
		pk := fnPkg(fn)
		if pk == nil || !strings.HasSuffix(pk.Pkg.Path(), "/ratelimiter") || len(bucketRemovalSites(fn)) == 0 {
			continue
		}
		bad := ""
		seenFn := map[*ssa.Function]bool{}
		var scan func(f *ssa.Function, depth int)
		scan = func(f *ssa.Function, depth int) {
			if f == nil || seenFn[f] || depth > 3 || f.Blocks == nil {
				return
			}
			seenFn[f] = true
			instrsOf(f, func(in ssa.Instruction) {
				if k, st := storeKey(in); k == bk+"tokens" || k == bk+"lastRefill" {
					if bad == "" {
						bad = p.InstrPos(st) + ": " + p.FuncKey(f) + " stores " + k
					}
				}
				if ci, ok := in.(ssa.CallInstruction); ok {
					if g := StaticFn(ci); g != nil && p.IsHelios(g) && fnPkg(g) == pk {
						scan(g, depth+1)
					}
				}
			})
		}
		scan(fn, 0)
		c.Check(bad == "", "sweep-is-read-only", p.FuncKey(fn), p.Pos(fn.Pos()), "the sweep reads balances and refill anchors and writes neither",
			bad+" from the sweep: advancing a kept bucket's refill anchor outside Allow discards the part of a refill period its client had already waited — after k idle periods the client is admitted fewer than min(k, max_tokens) times")
	}
	if len(marks) == 0 {
		return // already reported at the removal sites
	}
	tok := bk + "tokens"
	c.traceRule(rule, "ratelimiter.(*TokenBucketRateLimiter).Allow/spends-from-live-bucket", allow, mkSpec(nil),
		"every token is spent in a critical section that first found the bucket not evicted",
		func(t *Trace) string {
			for i, it := range t.Items {
				if it.Label != "store "+tok+" := (fld:"+tok+" - k:1)" {
					continue
				}
				live := false
				for j := i - 1; j >= 0; j-- {
					b := t.Items[j]
					if b.Label == "lock" || b.Label == "unlock" || b.Label == "run:unlock" {
						break
					}
					if _, isIf := b.Instr.(*ssa.If); !isIf {
						continue
					}
					r := c.condRel(b)
					for m := range marks {
						if o, ok := r.Orient(m, ""); ok && o.OK && o.Pred == "" && o.Y == "" && !o.Neq && o.Lo == 0 && o.Hi == 0 {
							live = true
						}
					}
				}
				if !live {
					return "a token is spent without testing, in the same critical section, that the bucket has not been evicted (" + strings.Join(keys(marks), ", ") + ")"
				}
			}
			return ""
		})
}

// c09Eviction: a client whose bucket is removed from the map starts over with a full one, so a
// removal is a grant of (maxTokens − what the bucket would hold now) tokens.  The bound of the
// property survives only if that grant is zero: on every path that removes or replaces a bucket the
// deciding branches establish that the bucket is full once its pending refill is credited —
// tokens ≥ maxTokens, or tokens + (now−lastRefill)/refillRate ≥ maxTokens.  An idle-time threshold
// alone does not: max_tokens × refill_rate_seconds is not bounded by validation, so for slow refill
// rates an idle bucket is still short of full when the threshold passes.
func c09Eviction(c *Ctx) {
	p := c.P
	rule := "eviction-grants-nothing"
	tok := "ratelimiter.bucket.tokens"
	nSites := 0
	for _, fn := range p.Funcs {
		pk := fnPkg(fn)
		if pk == nil || !strings.HasSuffix(pk.Pkg.Path(), "/ratelimiter") {
			continue
		}
		sites := bucketRemovalSites(fn)
		if len(sites) == 0 {
			continue
		}
		nSites += len(sites)
		isSite := map[ssa.Instruction]bool{}
		for _, s := range sites {
			isSite[s] = true
		}
		spec := &Spec{
			Event: func(in ssa.Instruction, fr *Frame) string {
				if isSite[in] {
					return "evict:" + strings.TrimPrefix(CalleeName(in.(ssa.CallInstruction)), "(*sync.Map).")
				}
				return ""
			},
			Cond:   func(in *ssa.If, fr *Frame) string { return "if " + p.Desc(in.Cond, fr) },
			Expand: expandAllHelios(),
		}
		c.traceRule(rule, p.FuncKey(fn)+"/buckets", fn, spec,
			"every path that removes or replaces a bucket has established that the bucket is full once its pending refill is credited",
			func(t *Trace) string {
				for i, it := range t.Items {
					if !strings.HasPrefix(it.Label, "evict:") {
						continue
					}
					if it.Label == "evict:Clear" {
						return "all buckets are dropped at once: every client gets a fresh burst"
					}
					full := false
					var seen []string
					for _, b := range t.Items[:i] {
						if _, isIf := b.Instr.(*ssa.If); !isIf {
							continue
						}
						r := c.condRel(b)
						if !r.OK || r.Pred != "" {
							continue
						}
						o, ok := r.Orient(tok, "maxTokens")
						if !ok {
							continue
						}
						seen = append(seen, o.String())
						if o.Neq || o.Lo < 0 {
							continue
						}
						x := o.X
						if x == "fld:"+tok {
							full = true
							continue
						}
						// tokens + credited refill
						pre := "(fld:" + tok + " + "
						if strings.HasPrefix(x, pre) && strings.HasSuffix(x, ")") {
							added := strings.TrimSuffix(strings.TrimPrefix(x, pre), ")")
							if elapsedSinceRefill(added) && strings.Contains(added, " / fld:ratelimiter.TokenBucketRateLimiter.refillRate") && !strings.Contains(added, " + ") && !strings.Contains(added, " * ") {
								full = true
							}
						}
					}
					if !full {
						why := "no test of the bucket's fill level precedes it"
						if len(seen) > 0 {
							why = "the tests that precede it do not imply it (" + strings.Join(seen, "; ") + ")"
						}
						return "a bucket is removed without establishing that it is full (tokens + (now−lastRefill)/refillRate ≥ maxTokens): " + why + ". Its client starts over with max_tokens; when max_tokens × refill_rate exceeds the idle threshold (e.g. 5 tokens, one per hour) that is more than the bucket had refilled, and the client exceeds max_tokens + floor(T/refill) + 1"
					}
				}
				return ""
			})
	}
	if nSites == 0 {
		c.Pass(rule, "ratelimiter.TokenBucketRateLimiter.buckets", "-", "buckets are never removed or replaced")
	}
}

// c09SharedBucket: the bucket Allow locks and spends from is the one held in the shared map: the
// helper that finds it returns Load's or LoadOrStore's value on every path, never a private copy.
func c09SharedBucket(c *Ctx, allow *ssa.Function) {
	p := c.P
	rule, construct := "bucket-is-shared", "ratelimiter.(*TokenBucketRateLimiter).Allow/bucket"
	if allow == nil {
		c.Missing(rule, construct)
		return
	}
	// the bucket(s) Allow works on: every *bucket value it takes a field of or hands to a callee
	var srcs []ssa.Value
	seenSrc := map[ssa.Value]bool{}
	isBucketPtr := func(v ssa.Value) bool {
		pt, ok := v.Type().Underlying().(*types.Pointer)
		return ok && QualType(namedOf(pt.Elem())) == "ratelimiter.bucket"
	}
	addSrc := func(v ssa.Value) {
		if v != nil && isBucketPtr(v) && !seenSrc[v] {
			seenSrc[v] = true
			srcs = append(srcs, v)
		}
	}
	instrsOf(allow, func(in ssa.Instruction) {
		switch x := in.(type) {
		case *ssa.FieldAddr:
			// the bucket whose lock is taken or released (a bucket being initialised before it is
			// offered to the map is not yet "the bucket Allow works on")
			if fr, ok := fieldRefOf(x); ok && fr.Key() == "ratelimiter.bucket.mutex" {
				addSrc(x.X)
			}
		case ssa.CallInstruction:
			// … and the bucket handed to helpers of the limiter (refill, spend)
			if f := StaticFn(x); f != nil && p.IsHelios(f) {
				for _, a := range x.Common().Args {
					addSrc(a)
				}
			}
		}
	})
	if len(srcs) == 0 {
		c.Undecided(rule, construct, p.Pos(allow.Pos()), "Allow does not work on a bucket")
		return
	}
	var bad []string
	var check func(v ssa.Value, depth int)
	check = func(v ssa.Value, depth int) {
		v = stripConv(v)
		if ta, ok := v.(*ssa.TypeAssert); ok {
			v = ta.X
		}
		if ex, ok := v.(*ssa.Extract); ok {
			if ta, ok := ex.Tuple.(*ssa.TypeAssert); ok && ex.Index == 0 {
				v = ta.X
			}
		}
		if ph, ok := v.(*ssa.Phi); ok && depth < 6 {
			for _, e := range ph.Edges {
				check(e, depth+1)
			}
			return
		}
		v = singleStore(v)
		if ta, ok := v.(*ssa.TypeAssert); ok {
			v = ta.X
		}
		d := p.Desc(v, nil)
		switch {
		case strings.HasPrefix(d, "call:(*sync.Map).Load(") && strings.HasSuffix(d, "#0"):
		case strings.HasPrefix(d, "call:(*sync.Map).LoadOrStore(") && strings.HasSuffix(d, "#0"):
		default:
			if call, ok := v.(*ssa.Call); ok && depth < 6 {
				if h := StaticFn(call); h != nil && p.IsHelios(h) {
					instrsOf(h, func(in ssa.Instruction) {
						if r, ok := in.(*ssa.Return); ok && len(r.Results) == 1 {
							check(r.Results[0], depth+1)
						}
					})
					return
				}
			}
			bad = append(bad, "the bucket being rate-limited can be "+d+" rather than the value held in the shared map: concurrent first requests of a client each spend from a private full bucket")
		}
	}
	for _, src := range srcs {
		check(src, 0)
	}
	c.Check(len(bad) == 0, rule, construct, p.Pos(allow.Pos()), "the locked bucket is always Load()/LoadOrStore()'s value", strings.Join(bad, "; "))
}

// c09Isolation: Allow and its Helios callees store only into bucket fields, local cells and the
// bucket map; no globals, no limiter-wide fields.
func c09Isolation(c *Ctx, allow *ssa.Function) {
	p := c.P
	rule, construct := "isolation-frame", "ratelimiter.(*TokenBucketRateLimiter).Allow"
	if allow == nil {
		c.Missing(rule, construct)
		return
	}
	seen := map[*ssa.Function]bool{}
	var bad []string
	n := 0
	var visit func(fn *ssa.Function)
	visit = func(fn *ssa.Function) {
		if seen[fn] || !p.IsHelios(fn) || fn.Blocks == nil {
			return
		}
		seen[fn] = true
		instrsOf(fn, func(in ssa.Instruction) {
			switch x := in.(type) {
			case *ssa.Store:
				n++
				switch a := x.Addr.(type) {
				case *ssa.Alloc:
				case *ssa.FieldAddr:
					fr, _ := fieldRefOf(a)
					if !strings.HasPrefix(fr.Key(), "ratelimiter.bucket.") {
						bad = append(bad, p.InstrPos(x)+": store to "+fr.Key()+" (shared limiter state)")
					}
				default:
					bad = append(bad, p.InstrPos(x)+": store to "+p.Desc(x.Addr, nil))
				}
			case *ssa.MapUpdate:
				n++
				bad = append(bad, p.InstrPos(x)+": map update "+p.Desc(x.Map, nil))
			case ssa.CallInstruction:
				for _, cal := range p.Callees(x) {
					if strings.Contains(cal.String(), "/internal/logging.") {
						continue
					}
					visit(cal)
				}
			}
		})
	}
	visit(allow)
	c.Count("stores_checked", n)
	if len(bad) == 0 {
		c.Pass(rule, construct, p.Pos(allow.Pos()), "all heap writes reachable from Allow go to fields of the caller's bucket")
	} else {
		c.Fail(rule, construct, p.Pos(allow.Pos()), bad[0], bad...)
	}
}

// c09Gate: the limiter gates LoadBalancer.ServeHTTP.
func c09Gate(c *Ctx) {
	p := c.P
	serve := p.Fn("internal/loadbalancer", "LoadBalancer", "ServeHTTP")
	spec := &Spec{
		Event: func(in ssa.Instruction, fr *Frame) string {
			ci, ok := in.(ssa.CallInstruction)
			if !ok {
				return ""
			}
			n := CalleeName(ci)
			switch {
			case strings.HasSuffix(n, "RateLimiter).Allow"):
				return "allow"
			case n == "(*net/http/httputil.ReverseProxy).ServeHTTP":
				return "proxy"
			case strings.HasSuffix(n, "CircuitBreaker).Execute"):
				return "execute"
			case strings.HasSuffix(n, "MetricsCollector).RecordRateLimitedRequest"):
				return "count-limited"
			}
			if code, ok := httpStatusCall(ci); ok {
				return "status:" + itoa(code)
			}
			return ""
		},
		Cond:   p.condMentions("RateLimiter).Allow", "LoadBalancer.rateLimiter"),
		Expand: expandAllHelios("TokenBucketRateLimiter"),
	}
	c.traceRule("limiter-gate", "loadbalancer.(*LoadBalancer).ServeHTTP", serve, spec,
		"breaker/proxy are reached only after Allow returned true (or no limiter is configured); the rejected edge writes 429, counts it and stops",
		func(t *Trace) string {
			ai := t.Index("allow", 0)
			firstFwd := -1
			for i, it := range t.Items {
				if it.Label == "proxy" || it.Label == "execute" {
					firstFwd = i
					break
				}
			}
			if ai < 0 {
				// no limiter consulted: must be on the rateLimiter == nil edge
				r, _, ok := c.findRel(t, "LoadBalancer.rateLimiter", "", 0, -1)
				if !ok || !(r.Lo == 0 && r.Hi == 0 && !r.Neq) {
					if firstFwd >= 0 {
						return "request forwarded without consulting the rate limiter"
					}
				}
				return ""
			}
			// key argument
			ci := t.Items[ai].Instr.(ssa.CallInstruction)
			if args := CallArgs(ci); len(args) != 1 || !strings.HasPrefix(p.Desc(args[0], t.Items[ai].Frame), "call:github.com/0xReLogic/Helios/internal/utils.GetClientIP(") {
				return "Allow is not keyed by utils.GetClientIP(r)"
			}
			r, ri, ok := c.findRel(t, "RateLimiter).Allow", "", ai, -1)
			if !ok {
				if firstFwd >= 0 {
					return "Allow result ignored"
				}
				return ""
			}
			allowed := r.Lo == 1 && r.Hi == 1
			if !allowed {
				if firstFwd >= 0 {
					return "rate-limited request still reaches the breaker/proxy"
				}
				if !t.Has("status:429") {
					return "rate-limited request is not answered 429"
				}
				if t.Count("count-limited") != 1 {
					return "rate-limited request is not counted exactly once"
				}
			} else if firstFwd >= 0 && firstFwd < ri {
				return "request forwarded before the limiter decision"
			} else if t.Has("status:429") && !t.Has("execute") {
				return "admitted request answered 429"
			}
			return ""
		})
}

func itoa(i int64) string {
	return strings.TrimSpace(strings.Replace(strings.Repeat(" ", 0)+fmtInt(i), " ", "", -1))
}

// minClampedAdd recognises  min(<tok> + n, maxTokens)  (builtin min or a helper that provably returns
// the smaller of its two arguments) and returns the descriptor of n.
func (c *Ctx) minClampedAdd(v ssa.Value, fr *Frame, tok string) (string, bool) {
	p := c.P
	call, ok := stripConv(v).(*ssa.Call)
	if !ok || len(call.Call.Args) != 2 {
		return "", false
	}
	if CalleeName(call) != "builtin:min" {
		h := StaticFn(call)
		if h == nil || !p.IsHelios(h) || !isMinLike(p, h) {
			return "", false
		}
	}
	for _, pair := range [][2]ssa.Value{{call.Call.Args[0], call.Call.Args[1]}, {call.Call.Args[1], call.Call.Args[0]}} {
		sum, isSum := stripConv(pair[0]).(*ssa.BinOp)
		if !isSum || sum.Op != token.ADD {
			continue
		}
		if p.Desc(pair[1], fr) != "fld:ratelimiter.TokenBucketRateLimiter.maxTokens" {
			continue
		}
		if p.Desc(sum.X, fr) == "fld:"+tok {
			return p.Desc(sum.Y, fr), true
		}
		if p.Desc(sum.Y, fr) == "fld:"+tok {
			return p.Desc(sum.X, fr), true
		}
	}
	return "", false
}

// isMinLike: a two-parameter function that returns its first argument when it is smaller, its second
// when that is smaller (either when equal), decided by one comparison of the two.
func isMinLike(p *Program, h *ssa.Function) bool {
	if len(h.Params) != 2 || h.Signature.Results().Len() != 1 || h.Blocks == nil {
		return false
	}
	var ifs []*ssa.If
	instrsOf(h, func(in ssa.Instruction) {
		if ifi, ok := in.(*ssa.If); ok {
			ifs = append(ifs, ifi)
		}
	})
	if len(ifs) != 1 {
		return false
	}
	ifi := ifs[0]
	rel, ok := p.RelOf(ifi.Cond, true, nil).Orient("param:"+h.Params[0].Name(), "param:"+h.Params[1].Name())
	if !ok || rel.Pred != "" || rel.Neq {
		return false
	}
	// what is returned on each edge
	retOn := func(edge int) ssa.Value {
		succ := ifi.Block().Succs[edge]
		var out ssa.Value
		instrsOf(h, func(in ssa.Instruction) {
			r, isRet := in.(*ssa.Return)
			if !isRet || len(r.Results) != 1 {
				return
			}
			v := stripConv(r.Results[0])
			if phi, isPhi := v.(*ssa.Phi); isPhi && phi.Block() == r.Block() {
				for i, pred := range phi.Block().Preds {
					if pred == succ || (pred == ifi.Block() && phi.Block() == succ) {
						out = stripConv(phi.Edges[i])
					}
				}
				return
			}
			if len(succ.Preds) == 1 && succ.Dominates(r.Block()) {
				out = v
			}
		})
		return out
	}
	tRet, fRet := retOn(0), retOn(1)
	if tRet == nil || fRet == nil {
		return false
	}
	pick := func(d int64) ssa.Value { // a − b = d
		if d >= rel.Lo && d <= rel.Hi {
			return tRet
		}
		return fRet
	}
	return pick(-1) == ssa.Value(h.Params[0]) && pick(1) == ssa.Value(h.Params[1])
}

// elapsedSinceRefill: the description contains sub(T, lastRefill) for a time T that is not itself
// derived from the bucket (now, a timestamp taken by the caller).
func elapsedSinceRefill(d string) bool {
	i := strings.Index(d, "sub(")
	j := strings.Index(d, ",fld:ratelimiter.bucket.lastRefill)")
	return i >= 0 && j > i && !strings.Contains(d[i:j], "ratelimiter.bucket.")
}
