package main

import (
	"fmt"
	"strings"

	"golang.org/x/tools/go/ssa"
)

// debugTrace prints the traces of a function with every Helios call inlined and every branch kept.
func debugTrace(p *Program, spec string) {
	parts := strings.Split(spec, ":")
	var fn *ssa.Function
	for _, f := range p.Funcs {
		if p.FuncKey(f) == spec {
			fn = f
		}
	}
	if fn == nil && len(parts) == 3 {
		fn = p.Fn(parts[0], parts[1], parts[2])
	}
	if fn == nil {
		fmt.Println("no such function", spec)
		return
	}
	s := &Spec{P: p,
		Event: func(in ssa.Instruction, fr *Frame) string {
			if c, ok := in.(ssa.CallInstruction); ok {
				n := CalleeName(c)
				if strings.Contains(n, "zerolog") || strings.HasPrefix(n, "builtin:") {
					return ""
				}
				return n
			}
			if st, ok := in.(*ssa.Store); ok {
				if fa, ok := st.Addr.(*ssa.FieldAddr); ok {
					if fr2, ok := fieldRefOf(fa); ok {
						return "store " + fr2.Key() + " := " + p.Desc(st.Val, fr)
					}
				}
			}
			return ""
		},
		Cond: func(in *ssa.If, fr *Frame) string { return "if " + p.Desc(in.Cond, fr) },
		Expand: func(callee *ssa.Function, site ssa.CallInstruction) bool {
			return !strings.Contains(callee.String(), "logging")
		},
		MayPanic: mayPanicCall,
	}
	ts := s.Walk(fn)
	fmt.Printf("%d traces (overflow=%v)\n", len(ts), s.Overflow())
	for i, t := range ts {
		fmt.Printf("--- %d exit=%d ret=%v recovered=%v\n", i, t.Exit, t.Ret, t.Recovered)
		for _, it := range t.Items {
			ind := ""
			if it.Frame != nil {
				ind = strings.Repeat("  ", it.Frame.Depth)
			}
			if ifi, ok := it.Instr.(*ssa.If); ok {
				fmt.Printf("   %s%s -> %v   [%s]\n", ind, it.Label, it.Pol, p.RelOf(ifi.Cond, it.Pol, it.Frame))
			} else {
				fmt.Printf("   %s%s\n", ind, it.Label)
			}
		}
	}
}
