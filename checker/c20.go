package main

import (
	"fmt"
	"go/token"
	"go/types"
	"strings"

	"golang.org/x/tools/go/ssa"
)

func init() {
	registry["C20"] = checkC20
	registry["C19"] = checkC19
	registry["C03"] = checkC03
}

const poolT = "loadbalancer.connPool."

func (c *Ctx) poolSpec() *Spec {
	p := c.P
	return &Spec{
		Event: func(in ssa.Instruction, fr *Frame) string {
			if k, st := storeKey(in); strings.HasPrefix(k, poolT) || strings.HasPrefix(k, "loadbalancer.WebSocketPool.") {
				return "store " + strings.TrimPrefix(strings.TrimPrefix(k, poolT), "loadbalancer.") + " := " + p.Desc(st.Val, fr)
			}
			ci, ok := in.(ssa.CallInstruction)
			if !ok {
				return ""
			}
			if op, ok := asLockOp(ci); ok {
				cls := "other"
				switch op.Class {
				case poolT + "mu":
					cls = "pool"
				case "loadbalancer.WebSocketPool.mu":
					cls = "outer"
				}
				if op.Acquire {
					return "lock:" + cls + ":" + string(op.Mode)
				}
				return "unlock:" + cls + ":" + string(op.Mode)
			}
			switch CalleeName(ci) {
			case "(net.Conn).Close":
				return "close(" + p.Desc(ci.Common().Value, fr) + ")"
			case "builtin:append":
				return "append(" + p.Desc(ci.Common().Args[0], fr) + ")"
			}
			return ""
		},
		Cond: p.condMentions("connPool.", "pooledConn.", "WebSocketPool.", "param:conn"),
		Expand: func(callee *ssa.Function, site ssa.CallInstruction) bool {
			// small unexported predicates on a pooled connection / a pool (`pc.expired(now, timeout)`)
			if callee.Signature.Recv() == nil || callee.Object() == nil || callee.Object().Exported() {
				return false
			}
			switch QualType(namedOf(callee.Signature.Recv().Type())) {
			case "loadbalancer.pooledConn", "loadbalancer.connPool":
				rs := callee.Signature.Results()
				return rs.Len() == 1 && rs.At(0).Type().String() == "bool"
			}
			return false
		},
	}
}

// clockReadUnder: the clock reading(s) a freshness condition depends on — time.Since(x) itself, or the
// time.Now() whose result is compared — were taken with the lock class held.  A reading taken before
// the lock was acquired does not count the time spent waiting for it.
func (c *Ctx) clockReadUnder(it Item, class string) (bool, string) {
	p := c.P
	li := p.Locks()
	var calls []*ssa.Call
	seen := map[ssa.Value]bool{}
	var walk func(v ssa.Value, fr *Frame, d int)
	walk = func(v ssa.Value, fr *Frame, d int) {
		if v == nil || seen[v] || d > 10 {
			return
		}
		seen[v] = true
		switch x := v.(type) {
		case *ssa.Call:
			switch CalleeName(x) {
			case "time.Now", "time.Since":
				calls = append(calls, x)
				return
			}
			for _, a := range x.Call.Args {
				walk(a, fr, d+1)
			}
		case *ssa.BinOp:
			walk(x.X, fr, d+1)
			walk(x.Y, fr, d+1)
		case *ssa.UnOp:
			walk(x.X, fr, d+1)
		case *ssa.Convert:
			walk(x.X, fr, d+1)
		case *ssa.ChangeType:
			walk(x.X, fr, d+1)
		case *ssa.Phi:
			for _, e := range x.Edges {
				walk(e, fr, d+1)
			}
		case *ssa.Parameter:
			if fr != nil && fr.Parent != nil {
				for j, pm := range fr.Fn.Params {
					if pm == x && j < len(fr.Args) {
						walk(fr.Args[j], fr.Parent, d+1)
					}
				}
			}
		}
	}
	cond, fr := it.Cond, it.CondFrame
	if cond == nil {
		if ifi, ok := it.Instr.(*ssa.If); ok {
			cond, fr = ifi.Cond, it.Frame
		}
	}
	if fr == nil {
		fr = it.Frame
	}
	walk(cond, fr, 0)
	if len(calls) == 0 {
		return false, "no clock reading found in the freshness test"
	}
	for _, call := range calls {
		fl := li.Fns[call.Parent()]
		if fl == nil || fl.Must[call].HoldsClass(class) == 0 {
			return false, "the clock is read at " + p.InstrPos(call) + ", before " + class + " is held: the time spent waiting for the lock is not counted, so a connection that went stale meanwhile is judged fresh"
		}
	}
	return true, ""
}

func checkC20(c *Ctx) {
	p := c.P
	c.Clause("every ResponseWriter wrapper forwards Hijack to the embedded writer and returns the connection unwrapped, so an Upgrade survives any plugin stack")
	c.Clause("pool state is touched only under its locks; lock order WebSocketPool.mu → connPool.mu is acyclic")
	c.Clause("Get removes the connection from idle before returning it, in the same critical section (exclusive hand-out)")
	c.Clause("Get returns only connections with since(lastUsed) ≤ idleTimeout; stale ones are closed, not returned")
	c.Clause("Put appends only while len(idle) < maxIdle; a rejected connection is closed")
	c.Clause("Close closes the connection it is given on every path")
	c.Clause("the reverse proxy receives the client's own request (its context), so nothing but the peers ends an upgraded connection; no middleware hands the request on with a context Helios can end itself (WithTimeout / WithDeadline / WithCancel)")
	c.Clause("Shutdown closes every idle connection of every pool under both locks and replaces the pool map")
	c.Clause("staleness is judged against a clock read taken with the pool lock held (time spent waiting for the lock counts)")
	c.Clause("the pool Helios builds from its configuration gets each limit from the configuration field of the same meaning (max_idle is not fed from max_active)")
	c.NotDecided("byte-exact relaying (inside net/http/httputil); pool histories against a reference model")

	ws := c.wrappers()
	c.Floor("wrapper-forwards-hijack", len(ws), 4, "ResponseWriter wrappers")
	c.rwForwarding(ws, true, false, nil)
	// the upgraded connection lives as long as the request context handed to the reverse proxy: it must
	// be the client's own request (httputil closes the backend side as soon as that context is done)
	serve := p.Fn("internal/loadbalancer", "LoadBalancer", "ServeHTTP")
	c.traceRule("tunnel-keeps-client-context", "loadbalancer.(*LoadBalancer).ServeHTTP", serve, c.transparencySpec(),
		"the reverse proxy is given the client's request object: no derived context (deadline, cancellation) can end a tunnel neither peer closed",
		func(t *Trace) string {
			for _, it := range t.Items {
				if !strings.HasPrefix(it.Label, "proxy(") {
					continue
				}
				args := strings.SplitN(strings.TrimSuffix(strings.TrimPrefix(it.Label, "proxy("), ")"), "|", 2)
				if len(args) == 2 && args[1] != "param:r" {
					return "the request handed to the reverse proxy is not the client's own (" + firstN(args[1], 160) + "): a context with a deadline or an earlier cancellation makes httputil tear down an upgraded connection although neither side closed it"
				}
			}
			return ""
		})
	c.requestContextIsClients()
	c.noBufferingHandler()
	c.constructorArgsFromConfig("NewWebSocketPool")
	lockDiscipline(c, func(k string) bool {
		return strings.HasPrefix(k, poolT) || strings.HasPrefix(k, "loadbalancer.WebSocketPool.")
	})
	lockOrder(c, "WebSocketPool.mu", "connPool.mu")

	get := p.Fn("internal/loadbalancer", "WebSocketPool", "Get")
	c.traceRule("pool-exclusive-and-fresh", "loadbalancer.(*WebSocketPool).Get", get, c.poolSpec(),
		"a returned connection was popped from idle under connPool.mu and passed since(lastUsed) ≤ idleTimeout; stale connections are closed and skipped",
		func(t *Trace) string {
			if len(t.Ret) != 1 {
				return "undecided: arity"
			}
			r, isRet := t.RetInstr.(*ssa.Return)
			if !isRet {
				return ""
			}
			d := p.Desc(r.Results[0], nil)
			if t.Ret[0].K == ANil || d == "k:nil" || strings.HasPrefix(d, "var:") && t.Ret[0].K == ANil {
				return ""
			}
			// the last pop before the return
			pop := -1
			for i, it := range t.Items {
				if strings.HasPrefix(it.Label, "store idle := ") && strings.Contains(it.Label, "[:]") {
					pop = i
				}
			}
			if pop < 0 {
				return "connection returned without being removed from the idle list (two holders can receive the same connection)"
			}
			if prevLabel(t, pop, "lock:pool:", "unlock:pool:") != "lock:pool:W" {
				return "idle list modified outside connPool.mu"
			}
			for _, it := range t.Items[pop:] {
				if strings.HasPrefix(it.Label, "unlock:pool:") && !strings.HasPrefix(it.Label, "unlock:pool:W") {
					return "undecided: unexpected unlock"
				}
			}
			fr, fi, ok := c.findRel(t, "since(", poolT+"idleTimeout", pop, -1)
			if !ok {
				// the same test written as now.Sub(lastUsed) > timeout
				fr, fi, ok = c.findRel(t, "sub(now,", poolT+"idleTimeout", pop, -1)
			}
			if !ok {
				return "connection returned without checking its idle time"
			}
			if live, why := c.clockReadUnder(t.Items[fi], poolT+"mu"); !live {
				return why
			}
			if !(fr.Lo == negInf && fr.Hi == 0) {
				if fr.Lo == 1 && fr.Hi == posInf {
					return "a connection idle longer than idleTimeout is returned"
				}
				return "freshness test is not since(lastUsed) > idleTimeout: " + fr.String()
			}
			if !strings.Contains(fr.X, "pooledConn.lastUsed") && !strings.Contains(fr.X, ".lastUsed") {
				return "freshness test does not use the connection's lastUsed: " + fr.X
			}
			// stale ones seen on the way were closed
			for i, it := range t.Items[:pop] {
				if _, isIf := it.Instr.(*ssa.If); isIf {
					o, ok := c.condRel(it).Orient("since(", poolT+"idleTimeout")
					if !ok {
						o, ok = c.condRel(it).Orient("sub(now,", poolT+"idleTimeout")
					}
					if ok && o.Lo == 1 {
						closed := false
						for _, jt := range t.Items[i:] {
							if strings.HasPrefix(jt.Label, "close(") {
								closed = true
							}
						}
						if !closed {
							return "stale connection dropped without being closed"
						}
					}
				}
			}
			return ""
		})
	cl := p.Fn("internal/loadbalancer", "WebSocketPool", "Close")
	c.traceRule("close-always-closes", "loadbalancer.(*WebSocketPool).Close", cl, c.poolSpec(),
		"a non-nil connection handed to Close is closed on every path, whether or not its backend has a pool entry; the active count never goes below zero",
		func(t *Trace) string {
			if t.Exit != ExitNormal {
				return ""
			}
			if r, _, ok := c.findRel(t, "param:conn", "", 0, -1); ok && !r.Neq && r.Lo == 0 && r.Hi == 0 && r.Pred == "" {
				return "" // nil connection: nothing to close
			}
			if !t.Has("close(param:conn)") {
				return "a path through Close returns without closing the connection it was given (leaked socket: never closed by Shutdown either, since it is not in the pool)"
			}
			for i, it := range t.Items {
				if strings.HasPrefix(it.Label, "store active := ") {
					if r, _, ok := c.findRel(t, "fld:"+poolT+"active", "", 0, i); !ok || !(r.Lo >= 1) {
						return "active is decremented without having been found positive"
					}
				}
			}
			return ""
		})
	put := p.Fn("internal/loadbalancer", "WebSocketPool", "Put")
	c.traceRule("pool-bound", "loadbalancer.(*WebSocketPool).Put", put, c.poolSpec(),
		"append to idle only on len(idle) − maxIdle ≤ −1 under connPool.mu; otherwise the connection is closed and false returned",
		func(t *Trace) string {
			ap := -1
			for i, it := range t.Items {
				if strings.HasPrefix(it.Label, "append(") && strings.Contains(it.Label, poolT+"idle") {
					ap = i
				}
			}
			r, ri, ok := c.findRel(t, "len(fld:"+poolT+"idle)", "WebSocketPool.maxIdle", 0, -1)
			if ap >= 0 {
				if !ok || ri > ap {
					return "connection pooled without comparing len(idle) with maxIdle"
				}
				if !(r.Lo == negInf && r.Hi == -1) {
					return "connection pooled on an edge that does not imply len(idle) < maxIdle: " + r.String()
				}
				if prevLabel(t, ap, "lock:pool:", "unlock:pool:") != "lock:pool:W" {
					return "idle list appended outside connPool.mu"
				}
				if len(t.Ret) == 1 && t.Ret[0].K != ATrue {
					return "pooled connection reported as not pooled"
				}
				return ""
			}
			if ok && r.Lo == 0 && r.Hi == posInf {
				closed := false
				for _, it := range t.Items[ri:] {
					if it.Label == "close(param:conn)" {
						closed = true
					}
				}
				if !closed {
					return "connection rejected at the idle limit is not closed (leaked)"
				}
				if len(t.Ret) == 1 && t.Ret[0].K != AFalse {
					return "rejected connection reported as pooled"
				}
			} else if ok && !(r.Lo == negInf && r.Hi == -1) {
				return "idle bound test is not len(idle) ≥ maxIdle: " + r.String()
			}
			return ""
		})
	c.poolShutdown()
}

// poolShutdown: C20 clause 6 / C19 clause 5.
func (c *Ctx) poolShutdown() {
	p := c.P
	fn := p.Fn("internal/loadbalancer", "WebSocketPool", "Shutdown")
	construct := "loadbalancer.(*WebSocketPool).Shutdown"
	if fn == nil {
		c.Missing("shutdown-closes-all", construct)
		return
	}
	li := p.Locks()
	fl := li.Fns[fn]
	var closeAt *ssa.Call
	var rangePools, rangeIdle *ssa.Range
	instrsOf(fn, func(in ssa.Instruction) {
		switch x := in.(type) {
		case *ssa.Range:
			d := p.Desc(x.X, nil)
			if strings.Contains(d, "WebSocketPool.pools") {
				rangePools = x
			}
		case *ssa.Call:
			if CalleeName(x) == "(net.Conn).Close" && strings.Contains(p.DescQ(x.Call.Value, nil), poolT+"idle") {
				closeAt = x
			}
		}
	})
	_ = rangeIdle
	var bad []string
	if rangePools == nil {
		bad = append(bad, "Shutdown does not iterate over all pools")
	}
	if closeAt == nil {
		bad = append(bad, "Shutdown never closes the idle connections")
	} else {
		ls := fl.Must[closeAt]
		if ls.HoldsClass("loadbalancer.WebSocketPool.mu") != 'W' || ls.HoldsClass(poolT+"mu") != 'W' {
			bad = append(bad, "idle connections are closed without holding both WebSocketPool.mu and connPool.mu in write mode: "+ls.String())
		}
		// no early exit from the loops over pools and idle connections: they end only at their headers
		loops := enclosingLoops(closeAt.Block())
		if len(loops) < 2 {
			bad = append(bad, "the close is not nested in a loop over the pools and a loop over each pool's idle connections")
		}
		for _, h := range loops {
			for _, e := range loopEarlyExits(h) {
				bad = append(bad, p.InstrPos(e.Instrs[len(e.Instrs)-1])+": the closing loop can be left before every pool and idle connection was visited")
			}
		}
	}
	replaced := false
	instrsOf(fn, func(in ssa.Instruction) {
		if k, st := storeKey(in); k == "loadbalancer.WebSocketPool.pools" {
			if _, ok := st.Val.(*ssa.MakeMap); ok {
				replaced = true
			}
		}
	})
	if !replaced {
		bad = append(bad, "pool map is not replaced after closing (closed connections could be handed out again)")
	}
	if len(bad) == 0 {
		c.Pass("shutdown-closes-all", construct, p.Pos(fn.Pos()), "all pools × all idle connections closed under both locks, map replaced")
	} else {
		c.Fail("shutdown-closes-all", construct, p.Pos(fn.Pos()), bad[0], bad...)
	}
}

// ---- C19 ------------------------------------------------------------------------------------------

func checkC19(c *Ctx) {
	p := c.P
	c.Clause("the locks Stop takes (pool registry, per-backend pools) are acquired in one consistent order everywhere and never re-acquired while held")
	c.Clause("Stop: cancel() precedes healthCheckWg.Wait() precedes wsPool.Shutdown(); shutdownGracefully: server.Shutdown(ctx with timeout) precedes lb.Stop(), the error edge falls back to server.Close()")
	c.Clause("probes carry the balancer context (NewRequestWithContext(lb.ctx)), test ctx.Done() first and use a client with a non-zero timeout")
	c.Clause("every healthCheckWg.Add runs in a goroutine that Stop joins through the same WaitGroup (or before any goroutine exists)")
	c.Clause("Stop performs only idempotent operations and holds no lock across Wait")
	c.Clause("pool shutdown closes every idle connection it holds")
	c.Clause("the shutdown deadline derives from a live context (not the cancelled signal context); signal handling stays installed until the drain is over (a second signal does not kill the process mid-drain); no lock that probes or Stop need is held across a write to a client")
	c.NotDecided("that shutdown finishes within the configured time; completion of in-flight requests (net/http); signal delivery")

	stop := p.Fn("internal/loadbalancer", "LoadBalancer", "Stop")
	sp := &Spec{
		Event: func(in ssa.Instruction, fr *Frame) string {
			ci, ok := in.(ssa.CallInstruction)
			if !ok {
				return ""
			}
			n := CalleeName(ci)
			switch {
			case strings.HasPrefix(n, "dyn:func()") && strings.Contains(p.Desc(ci.Common().Value, fr), "LoadBalancer.cancel"):
				return "cancel"
			case n == "(*sync.WaitGroup).Wait" && strings.Contains(p.Desc(ci.Common().Args[0], fr), "LoadBalancer.healthCheckWg"):
				return "wait"
			case strings.HasSuffix(n, "WebSocketPool).Shutdown"):
				return "pool-shutdown"
			case n == "(*net/http.Server).Shutdown":
				return "server-shutdown(" + p.Desc(ci.Common().Args[1], fr) + ")"
			case n == "(*net/http.Server).Close":
				return "server-close"
			case strings.HasSuffix(n, "LoadBalancer).Stop"):
				return "lb-stop"
			}
			if _, isLock := asLockOp(ci); isLock {
				return "lockop:" + n
			}
			return ""
		},
		Cond: p.condMentions("LoadBalancer.wsPool", "Server).Shutdown"),
		Expand: func(callee *ssa.Function, site ssa.CallInstruction) bool {
			// unexported helpers of the balancer / the command that a shutdown step was extracted into
			pk := fnPkg(callee)
			if pk == nil || callee.Object() == nil || callee.Object().Exported() {
				return false
			}
			return strings.HasSuffix(pk.Pkg.Path(), "/internal/loadbalancer") || strings.HasSuffix(pk.Pkg.Path(), "/cmd/helios")
		},
	}
	c.traceRule("stop-order", "loadbalancer.(*LoadBalancer).Stop", stop, sp,
		"cancel < Wait < pool shutdown on every path; no lock operations",
		func(t *Trace) string {
			ci, wi := t.Index("cancel", 0), t.Index("wait", 0)
			if ci < 0 {
				return "Stop does not cancel the balancer context (probes keep running)"
			}
			if wi < 0 {
				return "Stop does not wait for probe goroutines"
			}
			if wi < ci {
				return "Stop waits for probes before cancelling them"
			}
			if r, _, ok := c.findRel(t, "LoadBalancer.wsPool", "", 0, -1); ok && (r.Neq || r.Lo != 0) {
				pi := t.Index("pool-shutdown", 0)
				if pi < 0 {
					return "configured WebSocket pool is not shut down"
				}
				if pi < wi {
					return "pool shut down before probes were joined"
				}
			}
			for _, it := range t.Items {
				if strings.HasPrefix(it.Label, "lockop:") {
					return "Stop takes a lock (a second Stop or a blocked holder can dead-lock shutdown)"
				}
			}
			return ""
		})
	// the graceful-shutdown sequence: shutdownGracefully, or whichever function of the command calls
	// (*http.Server).Shutdown on the main server
	sg := p.Fn("cmd/helios", "", "shutdownGracefully")
	if sg == nil {
		for _, fn := range p.Funcs {
			if pk := fnPkg(fn); pk == nil || !strings.HasSuffix(pk.Pkg.Path(), "/cmd/helios") {
				continue
			}
			callsStop := false
			callsShutdown := false
			for _, ci := range callsIn(fn) {
				if CalleeName(ci) == "(*net/http.Server).Shutdown" {
					callsShutdown = true
				}
				if strings.HasSuffix(CalleeName(ci), "LoadBalancer).Stop") {
					callsStop = true
				}
			}
			if callsShutdown && callsStop {
				sg = fn
			}
		}
	}
	sp2 := *sp
	sp2.memo, sp2.frames, sp2.active = nil, nil, nil
	c.traceRule("stop-order", "cmd/helios.shutdownGracefully", sg, &sp2,
		"server.Shutdown(timeout ctx) < lb.Stop; error edge closes the server",
		func(t *Trace) string {
			if !t.Has("lb-stop") {
				seen := false
				for _, it := range t.Items {
					if strings.HasPrefix(it.Label, "server-shutdown(") {
						seen = true
					}
				}
				if !seen {
					return "" // a path of the enclosing function that is not a shutdown (start-up failure, …)
				}
			}
			si, li := -1, t.Index("lb-stop", 0)
			for i, it := range t.Items {
				if strings.HasPrefix(it.Label, "server-shutdown(") {
					si = i
					if !strings.Contains(it.Label, "context.WithTimeout(") {
						return "server.Shutdown is not bounded by a context with the shutdown timeout"
					}
					if ci, ok := it.Instr.(ssa.CallInstruction); ok {
						if why := c.shutdownParentLive(ci.Common().Args[1], 0); why != "" {
							return "the shutdown deadline is derived from " + why + ": by the time shutdown starts that context is already cancelled, server.Shutdown returns at once and the fallback closes the connections of requests still in flight"
						}
					}
				}
			}
			if si < 0 || li < 0 || li < si {
				return "the balancer is not stopped after the HTTP server has shut down"
			}
			if r, _, ok := c.findRel(t, "Server).Shutdown", "", si, -1); ok && (r.Neq || r.Lo != 0) && !t.Has("server-close") {
				return "a failed graceful shutdown does not fall back to server.Close()"
			}
			return ""
		})
	c.signalsStayHandled(sg)
	c.probeContext()
	c.waitGroupJoinable()
	c.poolShutdown()
	// Stop takes the pool locks: they must be ordered consistently everywhere, or Stop can deadlock
	// against a cleanup tick
	// … and the metrics lock: a probe goroutine Stop joins has to publish its result under it
	lockOrder(c, "WebSocketPool.mu", "connPool.mu", "LoadBalancer.mutex", "metrics.Metrics.mutex")
	lockDiscipline(c, func(k string) bool {
		return k == "loadbalancer.LoadBalancer.ctx" || k == "loadbalancer.LoadBalancer.cancel"
	})
	c.stopIdempotent()
}

func (c *Ctx) probeContext() {
	p := c.P
	// the function that sends the probe: whichever function reachable from checkBackendHealth (itself
	// included) calls (*http.Client).Do
	var ph *ssa.Function
	if root := c.probeRoot(); root != nil {
		seenF := map[*ssa.Function]bool{}
		var find func(f *ssa.Function, d int)
		find = func(f *ssa.Function, d int) {
			if f == nil || seenF[f] || d > 4 || !p.IsHelios(f) || ph != nil {
				return
			}
			seenF[f] = true
			for _, ci := range callsIn(f) {
				if CalleeName(ci) == "(*net/http.Client).Do" || CalleeName(ci) == "(*net/http.Client).Get" || CalleeName(ci) == "net/http.Get" {
					ph = f
					return
				}
			}
			for _, ci := range callsIn(f) {
				find(StaticFn(ci), d+1)
			}
		}
		find(root, 0)
	}
	construct := "loadbalancer.(*LoadBalancer)/probe-sender"
	if ph == nil {
		c.Missing("probe-carries-context", construct)
		return
	}
	var bad []string
	ctxOK, doOK, timeoutOK := false, false, false
	instrsOf(ph, func(in ssa.Instruction) {
		if ci, ok := in.(ssa.CallInstruction); ok {
			switch CalleeName(ci) {
			case "net/http.NewRequestWithContext":
				if p.Desc(ci.Common().Args[0], nil) == "fld:loadbalancer.LoadBalancer.ctx" {
					ctxOK = true
				}
			case "net/http.NewRequest":
				bad = append(bad, p.InstrPos(ci)+": probe request built without a context")
			case "(*net/http.Client).Do":
				if strings.Contains(p.Desc(ci.Common().Args[1], nil), "NewRequestWithContext") {
					doOK = true
				}
			case "(*net/http.Client).Get", "net/http.Get":
				bad = append(bad, p.InstrPos(ci)+": probe sent without the balancer context")
			}
		}
		if k, st := storeKey(in); k == "http.Client.Timeout" {
			d := p.Desc(st.Val, nil)
			if d == "fld:loadbalancer.healthChecker.activeTimeout" || strings.HasPrefix(d, "k:") && d != "k:0" {
				timeoutOK = true
			}
		}
	})
	if !ctxOK {
		bad = append(bad, "probe request is not built with NewRequestWithContext(lb.ctx, …)")
	}
	if !doOK {
		bad = append(bad, "the request sent is not the context-carrying one")
	}
	if !timeoutOK {
		bad = append(bad, "probe client has no timeout")
	}
	if len(bad) == 0 {
		c.Pass("probe-carries-context", construct, p.Pos(ph.Pos()), "NewRequestWithContext(lb.ctx) → client{Timeout: activeTimeout}.Do")
	} else {
		c.Fail("probe-carries-context", construct, p.Pos(ph.Pos()), bad[0], bad...)
	}
	// ctx.Done() tested before probing
	cb := c.probeRoot()
	construct = "loadbalancer.(*LoadBalancer).checkBackendHealth"
	if cb == nil {
		c.Missing("probe-carries-context", construct)
		return
	}
	var probe ssa.Instruction
	instrsOf(cb, func(in ssa.Instruction) {
		if ci, ok := in.(ssa.CallInstruction); ok {
			if f := StaticFn(ci); f != nil && f == ph && ph != cb {
				probe = in
			}
			if ph == cb && (CalleeName(ci) == "(*net/http.Client).Do" || CalleeName(ci) == "net/http.NewRequestWithContext") && probe == nil {
				probe = in
			}
		}
	})
	ok := false
	if probe != nil {
		instrsOf(cb, func(in ssa.Instruction) {
			ifi, isIf := in.(*ssa.If)
			if !isIf {
				return
			}
			doneWhenTrue, isTest := c.ctxDoneCond(ifi.Cond, 0)
			if !isTest {
				return
			}
			notDone := ifi.Block().Succs[1]
			if !doneWhenTrue {
				notDone = ifi.Block().Succs[0]
			}
			if len(notDone.Preds) == 1 && notDone.Dominates(probe.Block()) {
				ok = true
			}
		})
	}
	c.Check(ok, "probe-carries-context", construct, p.Pos(cb.Pos()),
		"the probe is sent only on the not-cancelled edge of a test of lb.ctx (non-blocking select on Done(), Err(), or a helper wrapping one)", "the probe is not preceded by a test of lb.ctx.Done(): probes queued before Stop are still sent after it")
}

// ctxDoneCond recognises a branch condition that tests whether the balancer context is cancelled:
// a non-blocking select on lb.ctx.Done(), lb.ctx.Err() != nil, or a bool helper wrapping either.
// It returns whether "true" means cancelled.
func (c *Ctx) ctxDoneCond(cond ssa.Value, depth int) (doneWhenTrue bool, ok bool) {
	p := c.P
	if depth > 3 {
		return false, false
	}
	isCtx := func(v ssa.Value) bool {
		return strings.Contains(p.Desc(v, nil), "LoadBalancer.ctx")
	}
	switch x := cond.(type) {
	case *ssa.UnOp:
		if x.Op == token.NOT {
			d, ok := c.ctxDoneCond(x.X, depth)
			return !d, ok
		}
	case *ssa.BinOp:
		if x.Op != token.EQL && x.Op != token.NEQ {
			return false, false
		}
		for _, pair := range [][2]ssa.Value{{x.X, x.Y}, {x.Y, x.X}} {
			// select index compared with the Done() case
			if ex, isEx := pair[0].(*ssa.Extract); isEx && ex.Index == 0 {
				if sel, isSel := ex.Tuple.(*ssa.Select); isSel && !sel.Blocking {
					if k, isK := constInt(pair[1]); isK && int(k) < len(sel.States) && k >= 0 {
						st := sel.States[k]
						if strings.Contains(p.Desc(st.Chan, nil), "Context).Done(") && isCtx(st.Chan) {
							return x.Op == token.EQL, true
						}
					}
				}
			}
			// ctx.Err() compared with nil
			if call, isCall := pair[0].(*ssa.Call); isCall && CalleeName(call) == "(context.Context).Err" && isCtx(call.Call.Value) && isConstNil(pair[1]) {
				return x.Op == token.NEQ, true
			}
			// helper() == true/false
			if bv, isB := constBool(pair[1]); isB {
				if d, ok := c.ctxDoneCond(pair[0], depth); ok {
					return d == (bv == (x.Op == token.EQL)), true
				}
			}
		}
	case *ssa.Call:
		h := StaticFn(x)
		if h == nil || !p.IsHelios(h) || h.Blocks == nil || h.Signature.Results().Len() != 1 {
			return false, false
		}
		// every `return true` lies on the cancelled edge of a context test inside h, every `return false` off it
		var doneBlocks, liveBlocks []*ssa.BasicBlock
		instrsOf(h, func(in ssa.Instruction) {
			ifi, isIf := in.(*ssa.If)
			if !isIf {
				return
			}
			if d, ok := c.ctxDoneCond(ifi.Cond, depth+1); ok {
				dn, lv := ifi.Block().Succs[0], ifi.Block().Succs[1]
				if !d {
					dn, lv = lv, dn
				}
				doneBlocks = append(doneBlocks, dn)
				liveBlocks = append(liveBlocks, lv)
			}
		})
		if len(doneBlocks) == 0 {
			return false, false
		}
		within := func(bs []*ssa.BasicBlock, b *ssa.BasicBlock) bool {
			for _, x := range bs {
				if len(x.Preds) == 1 && x.Dominates(b) {
					return true
				}
			}
			return false
		}
		trueOnDone, falseOnLive, n := true, true, 0
		instrsOf(h, func(in ssa.Instruction) {
			r, isRet := in.(*ssa.Return)
			if !isRet || len(r.Results) != 1 {
				return
			}
			n++
			bv, isB := constBool(r.Results[0])
			switch {
			case !isB:
				trueOnDone, falseOnLive = false, false
			case bv && !within(doneBlocks, r.Block()):
				trueOnDone = false
			case !bv && !within(liveBlocks, r.Block()):
				falseOnLive = false
			}
		})
		if n > 0 && trueOnDone && falseOnLive {
			return true, true
		}
		// the mirrored helper (`stillRunning()`): true on the live edge
		trueOnLive, falseOnDone := true, true
		instrsOf(h, func(in ssa.Instruction) {
			r, isRet := in.(*ssa.Return)
			if !isRet || len(r.Results) != 1 {
				return
			}
			bv, isB := constBool(r.Results[0])
			switch {
			case !isB:
				trueOnLive, falseOnDone = false, false
			case bv && !within(liveBlocks, r.Block()):
				trueOnLive = false
			case !bv && !within(doneBlocks, r.Block()):
				falseOnDone = false
			}
		})
		if n > 0 && trueOnLive && falseOnDone {
			return false, true
		}
	}
	return false, false
}

// waitGroupJoinable: C19 clause 3 (also part of C12).
func (c *Ctx) waitGroupJoinable() {
	p := c.P
	const wgField = "loadbalancer.LoadBalancer.healthCheckWg"
	isWG := func(ci ssa.CallInstruction, method string) bool {
		if CalleeName(ci) != "(*sync.WaitGroup)."+method {
			return false
		}
		return strings.Contains(p.Desc(ci.Common().Args[0], nil), wgField)
	}
	type site struct {
		fn *ssa.Function
		ci ssa.CallInstruction
	}
	var adds []site
	for _, fn := range p.Funcs {
		if !p.InScope(fn) {
			continue
		}
		for _, ci := range callsIn(fn) {
			if isWG(ci, "Add") {
				adds = append(adds, site{fn, ci})
			}
		}
	}
	c.Floor("waitgroup-joinable", len(adds), 1, "healthCheckWg.Add call sites")
	// every Add(1) is immediately followed by the `go` it accounts for, whose function defers Done:
	// the count can never exceed the number of goroutines that will call Done
	for _, a := range adds {
		key := p.FuncKey(a.fn) + "/add-go-pair"
		k, isK := constInt(a.ci.Common().Args[1])
		if !isK || k != 1 {
			c.Fail("waitgroup-balanced", key, p.InstrPos(a.ci), "WaitGroup.Add is called with a count other than the constant 1 ("+p.Desc(a.ci.Common().Args[1], nil)+"): if fewer goroutines are started than were added (early exit from the spawn loop) Wait never returns and shutdown hangs")
			continue
		}
		blk := a.ci.Block()
		paired := false
		after := false
		for _, in := range blk.Instrs {
			if in == ssa.Instruction(a.ci.(*ssa.Call)) {
				after = true
				continue
			}
			if !after {
				continue
			}
			if g, ok := in.(*ssa.Go); ok {
				paired = true
				for _, cal := range p.Callees(g) {
					done := false
					for _, ci := range callsIn(cal) {
						if d, ok := ci.(*ssa.Defer); ok && isWG(d, "Done") {
							done = true
						}
					}
					if !done {
						paired = false
					}
				}
				break
			}
			if _, isCall := in.(*ssa.Call); isCall {
				break // something else runs between Add and go
			}
		}
		c.Check(paired, "waitgroup-balanced", key, p.InstrPos(a.ci), "Add(1) is directly followed by the goroutine that defers Done()",
			"Add(1) is not directly followed by a `go` whose function defers Done(): a path that skips the spawn leaves the counter raised and Stop blocks for ever")
	}
	// tracked goroutine: `wg.Add(1); go f()` with f deferring wg.Done()
	tracked := func(g *ssa.Go) bool {
		spawner := g.Parent()
		addBefore := false
		for _, ci := range callsIn(spawner) {
			if isWG(ci, "Add") {
				if call, ok := ci.(*ssa.Call); ok && (call.Block().Dominates(g.Block()) && (call.Block() != g.Block() || valueIndex(call) < valueIndex(g))) {
					addBefore = true
				}
			}
		}
		if !addBefore {
			return false
		}
		for _, cal := range p.Callees(g) {
			done := false
			for _, ci := range callsIn(cal) {
				if d, ok := ci.(*ssa.Defer); ok && isWG(d, "Done") && d.Block() == cal.Blocks[0] {
					done = true
				}
			}
			if !done {
				return false
			}
		}
		return true
	}
	for _, a := range adds {
		// walk callers synchronously; collect the go statements (or entry points) the Add can run under
		var problems []string
		seen := map[*ssa.Function]bool{}
		var up func(fn *ssa.Function, chain []string)
		up = func(fn *ssa.Function, chain []string) {
			if seen[fn] {
				return
			}
			seen[fn] = true
			n := p.CG.Nodes[fn]
			if n == nil {
				return
			}
			if fn.Name() == "NewLoadBalancer" {
				return // constructor: nothing is running yet
			}
			callers := 0
			for _, e := range n.In {
				if !p.IsHelios(e.Caller.Func) {
					continue
				}
				callers++
				switch s := e.Site.(type) {
				case *ssa.Go:
					if !tracked(s) {
						problems = append(problems, fmt.Sprintf("%s: goroutine started at %s is not registered in the WaitGroup before it starts (Add before `go`, deferred Done inside) — chain %s", p.InstrPos(s), p.FuncKey(s.Parent()), strings.Join(append(chain, p.FuncKey(fn)), " ← ")))
					}
				default:
					up(e.Caller.Func, append(chain, p.FuncKey(fn)))
				}
			}
			if callers == 0 && fn.Object() != nil && fn.Object().Exported() {
				problems = append(problems, "Add is reachable synchronously from the exported entry point "+p.FuncKey(fn)+" (can run concurrently with Stop's Wait)")
			}
		}
		// the Add that registers a tracked goroutine itself is executed by its spawner
		up(a.fn, nil)
		key := p.FuncKey(a.fn)
		if len(problems) == 0 {
			c.Pass("waitgroup-joinable", key, p.InstrPos(a.ci), "this Add only runs before any goroutine exists or inside goroutines Stop joins through the same WaitGroup")
		} else {
			c.Fail("waitgroup-joinable", key, p.InstrPos(a.ci), "WaitGroup.Add can run concurrently with Stop's Wait at counter zero: "+problems[0], problems...)
		}
	}
}

// ---- C03 -----------------------------------------------------------------------------------------

func checkC03(c *Ctx) {
	p := c.P
	c.Clause("no lock is re-acquired through a callback and no lock-order cycle exists (callbacks resolved by VTA)")
	c.Clause("every lock is released on every exit; no may-panic call (ReverseProxy.ServeHTTP, handlers, callbacks) runs between a non-deferred Lock and its Unlock")
	c.Clause("the in-flight gauge taken in proxyRequest is released on panic exits too")
	c.Clause("every http.Server / http.Transport / net.Dialer / http.Client literal sets its timeouts to a non-zero value, with a zero-default guard where configuration may be 0")
	c.Clause("every option of server.timeouts flows into a timeout that is set on a server, transport, dialer, handler or context (an option that is only validated bounds nothing)")
	c.Clause("a failed exchange counts towards passive ejection only when its client had not gone away (test of the served request's context): hang-ups do not eject a healthy backend")
	c.Clause("a wrapper whose Flush can deliver a recorded status checks the status range in WriteHeader: an invalid backend status fails on the handler's goroutine (recovered by the server), not on the reverse proxy's flush-timer goroutine (which kills the process)")
	c.Clause("panics from forwarding are counted and re-raised by CircuitBreaker.Execute, not swallowed")
	c.Clause("the response-writer wrappers a request is served through are created (or fully re-initialised) per request and their buffers start empty, so a response aborted mid-body cannot leak into a later one")
	c.NotDecided("latency bounds; goroutine counts; that the request after a fault succeeds; behaviour of net/http under malformed input")

	lockOrder(c)
	lockPairing(c, nil)
	proxy := c.proxyFn()
	c.traceRuleSplit("gauge-paired", "loadbalancer.(*LoadBalancer).proxyRequest", proxy, c.lbSpec(),
		"IncrementConnections is matched by DecrementConnections on this exit",
		func(t *Trace) (string, string) {
			if !t.Has("proxy") && !t.Has("panic-in:(*net/http/httputil.ReverseProxy).ServeHTTP") && t.Count("inc") == 0 && t.Count("dec") == 0 {
				return "not-proxied", ""
			}
			cx := "normal-exit"
			if t.Exit == ExitPanic {
				cx = "panic-exit"
			}
			if t.Count("inc") != t.Count("dec") {
				return cx, fmt.Sprintf("gauge incremented %d times, decremented %d times: a fault leaves a permanent mark on the backend", t.Count("inc"), t.Count("dec"))
			}
			return cx, ""
		})
	exec := p.Fn("internal/circuitbreaker", "CircuitBreaker", "Execute")
	c.traceRule("panic-reraised", "circuitbreaker.(*CircuitBreaker).Execute", exec, c.cbSpec(true),
		"a panic in fn is recorded as a failure and leaves Execute as a panic; every admitted request reports its outcome exactly once (a spent half-open trial is always accounted for)",
		func(t *Trace) string {
			if t.Has("call-fn") {
				n := 0
				for _, it := range t.Items {
					if strings.HasPrefix(it.Label, "afterRequest(") {
						n++
					}
				}
				if n != 1 {
					return fmt.Sprintf("an admitted request reports its outcome %d times: a half-open trial that is never reported leaves the breaker half-open with its budget spent, rejecting all traffic for ever", n)
				}
			}
			if !t.Has("panic-in:dyn:func() error") {
				return ""
			}
			if t.Exit != ExitPanic {
				return "panic from the proxied call is swallowed: net/http's per-connection recovery no longer aborts the response"
			}
			if !t.Has("afterRequest(k:false)") {
				return "panicking request is not recorded as a failure"
			}
			return ""
		})
	c.abortPropagates()
	c.goroutinesCannotCrash()
	c.timeoutsConfigured()
	c.timeoutOptionsApplied()
	c.passiveThreshold()
	c.requestContextIsClients()
	c.deferredStatusValidated()
	ws := c.wrappers()
	c.Floor("wrapper-fresh-per-request", len(ws), 4, "ResponseWriter wrappers")
	for _, w := range ws {
		c.rwFreshPerRequest(w)
		c.bufferStartsEmpty(w)
	}
}

// timeoutsConfigured: C03 clause 4.
func (c *Ctx) timeoutsConfigured() {
	p := c.P
	want := map[string][]string{
		"http.Server":    {"ReadTimeout", "WriteTimeout", "IdleTimeout"},
		"http.Transport": {"ResponseHeaderTimeout", "TLSHandshakeTimeout", "IdleConnTimeout"},
		"net.Dialer":     {"Timeout"},
		"http.Client":    {"Timeout"},
	}
	n := 0
	for _, fn := range p.Funcs {
		if !p.InScope(fn) {
			continue
		}
		instrsOf(fn, func(in ssa.Instruction) {
			a, ok := in.(*ssa.Alloc)
			if !ok {
				return
			}
			pt, isPtr := a.Type().(*types.Pointer)
			if !isPtr {
				return
			}
			nt, isNamed := pt.Elem().(*types.Named)
			if !isNamed {
				return // e.g. the cell of a captured *http.Server variable
			}
			fields, isT := want[QualType(nt)]
			if !isT {
				return
			}
			n++
			set := map[string]ssa.Value{}
			if refs := a.Referrers(); refs != nil {
				for _, r := range *refs {
					if fa, ok := r.(*ssa.FieldAddr); ok {
						if fr, ok := fieldRefOf(fa); ok && fa.Referrers() != nil {
							for _, u := range *fa.Referrers() {
								if st, ok := u.(*ssa.Store); ok && st.Addr == fa {
									set[fr.Name] = st.Val
								}
							}
						}
					}
				}
			}
			construct := p.FuncKey(fn) + "/" + QualType(nt)
			var bad []string
			for _, f := range fields {
				v, ok := set[f]
				if !ok {
					bad = append(bad, f+" is not set (no timeout: a stalled peer holds the goroutine and its connection for ever)")
					continue
				}
				if why := c.nonZeroDuration(fn, v); why != "" {
					bad = append(bad, f+": "+why)
				}
			}
			if len(bad) == 0 {
				c.Pass("timeouts-configured", construct, p.InstrPos(a), fmt.Sprintf("%v set to non-zero values", fields))
			} else {
				c.Fail("timeouts-configured", construct, p.InstrPos(a), bad[0], bad...)
			}
		})
	}
	c.Floor("timeouts-configured", n, 5, "server/transport/dialer/client literals")
}

// timeoutOptionsApplied: "every affected request ends within the configured backend/server
// timeouts" presupposes that a configured timeout bounds something.  For every field of
// config.TimeoutConfig some read of it must flow — through conversions and arithmetic only, not
// through a comparison (validation) or an interface (logging, error text) — into a stored field, a
// call argument or a result.  A field whose every read ends in comparisons and messages is an
// option that is connected to nothing.
func (c *Ctx) timeoutOptionsApplied() {
	p := c.P
	tc := p.Named("internal/config", "TimeoutConfig")
	if tc == nil {
		c.Missing("timeout-option-applied", "config.TimeoutConfig")
		return
	}
	st, _ := tc.Underlying().(*types.Struct)
	if st == nil {
		c.Missing("timeout-option-applied", "config.TimeoutConfig")
		return
	}
	type use struct {
		applied bool
		where   string
		reads   int
	}
	uses := map[string]*use{}
	var flows func(v ssa.Value, seen map[ssa.Value]bool, depth int) bool
	flows = func(v ssa.Value, seen map[ssa.Value]bool, depth int) bool {
		if seen[v] || depth > 12 || v.Referrers() == nil {
			return false
		}
		seen[v] = true
		for _, r := range *v.Referrers() {
			switch x := r.(type) {
			case *ssa.Convert:
				if flows(x, seen, depth+1) {
					return true
				}
			case *ssa.ChangeType:
				if flows(x, seen, depth+1) {
					return true
				}
			case *ssa.Phi:
				if flows(x, seen, depth+1) {
					return true
				}
			case *ssa.BinOp:
				switch x.Op {
				case token.MUL, token.ADD, token.SUB, token.QUO:
					if flows(x, seen, depth+1) {
						return true
					}
				}
			case *ssa.Store:
				if x.Val == v {
					if _, toField := x.Addr.(*ssa.FieldAddr); toField {
						return true
					}
					// a local cell: follow its loads
					if a, isAlloc := x.Addr.(*ssa.Alloc); isAlloc && a.Referrers() != nil {
						for _, u := range *a.Referrers() {
							if l, isLoad := u.(*ssa.UnOp); isLoad && l.Op == token.MUL && flows(l, seen, depth+1) {
								return true
							}
						}
					}
				}
			case *ssa.Return:
				return true
			case ssa.CallInstruction:
				for _, a := range x.Common().Args {
					if a == v {
						return true
					}
				}
			}
		}
		return false
	}
	for _, fn := range p.Funcs {
		if !p.InScope(fn) {
			continue
		}
		instrsOf(fn, func(in ssa.Instruction) {
			v, isVal := in.(ssa.Value)
			if !isVal {
				return
			}
			fr, ok := fieldRefOf(v)
			if !ok || fr.Struct == nil || !types.Identical(fr.Struct, tc) {
				return
			}
			u := uses[fr.Name]
			if u == nil {
				u = &use{}
				uses[fr.Name] = u
			}
			u.reads++
			var val ssa.Value = v
			if fa, isFA := in.(*ssa.FieldAddr); isFA {
				val = nil
				if fa.Referrers() != nil {
					for _, r := range *fa.Referrers() {
						if l, isLoad := r.(*ssa.UnOp); isLoad && l.Op == token.MUL {
							if flows(l, map[ssa.Value]bool{}, 0) && !u.applied {
								u.applied, u.where = true, p.FuncKey(fn)
							}
						}
					}
				}
			}
			if val != nil && flows(val, map[ssa.Value]bool{}, 0) && !u.applied {
				u.applied, u.where = true, p.FuncKey(fn)
			}
		})
	}
	n := 0
	for i := 0; i < st.NumFields(); i++ {
		name := canonFieldName(tc, st.Field(i).Name())
		construct := "config.TimeoutConfig." + name
		n++
		u := uses[name]
		switch {
		case u != nil && u.applied:
			c.Pass("timeout-option-applied", construct, p.Pos(st.Field(i).Pos()), "flows into a timeout that is set or passed on in "+u.where)
		case u == nil:
			c.Fail("timeout-option-applied", construct, p.Pos(st.Field(i).Pos()), "the option is never read: whatever is configured bounds nothing")
		default:
			c.Fail("timeout-option-applied", construct, p.Pos(st.Field(i).Pos()),
				fmt.Sprintf("the option is read %d time(s) but only compared or printed (validation): it is applied to no server, transport, dialer, handler or context, so nothing ends when it expires", u.reads))
		}
	}
	c.Floor("timeout-option-applied", n, 8, "timeout options")
}

// nzBind binds the parameters of a helper to the arguments of the call site it is analysed for.
type nzBind struct {
	callee *ssa.Function
	args   []ssa.Value
	caller *ssa.Function
	outer  *nzBind
}

// nonZeroDuration explains why v may be zero ("" when it provably is not, under validated config).
func (c *Ctx) nonZeroDuration(fn *ssa.Function, v ssa.Value) string {
	return c.nonZeroIn(fn, v, nil, 0)
}

func (c *Ctx) nonZeroIn(fn *ssa.Function, v ssa.Value, bind *nzBind, depth int) string {
	p := c.P
	v = stripConv(v)
	if depth > 8 {
		return "undecided: helper nesting too deep"
	}
	if k, ok := constInt(v); ok {
		if k > 0 {
			return ""
		}
		return "constant zero"
	}
	if prm, ok := v.(*ssa.Parameter); ok {
		for b := bind; b != nil; b = b.outer {
			if b.callee != prm.Parent() {
				continue
			}
			for i, q := range b.callee.Params {
				if q == prm && i < len(b.args) {
					return c.nonZeroIn(b.caller, b.args[i], b.outer, depth+1)
				}
			}
		}
		return "undecided: cannot show that parameter " + prm.Name() + " is non-zero"
	}
	// a zero guard in fn on the value itself: `if x == 0 { … default … }`
	guarded := func(x ssa.Value) bool {
		xd := p.Desc(x, nil)
		found := false
		instrsOf(fn, func(in ssa.Instruction) {
			if ifi, ok := in.(*ssa.If); ok {
				r := p.RelOf(ifi.Cond, true, nil)
				if r.X == xd && r.Y == "" && r.Pred == "" && !r.Neq && (r.Lo == 0 && r.Hi == 0 || r.Lo == negInf && r.Hi == 0) {
					found = true
				}
			}
		})
		return found
	}
	helperResult := func(call *ssa.Call, idx int) (string, bool) {
		h := StaticFn(call)
		if h == nil || !p.IsHelios(h) || h.Blocks == nil || idx >= h.Signature.Results().Len() {
			return "", false
		}
		nb := &nzBind{callee: h, args: call.Call.Args, caller: fn, outer: bind}
		why := ""
		instrsOf(h, func(in ssa.Instruction) {
			r, ok := in.(*ssa.Return)
			if !ok || idx >= len(r.Results) || why != "" {
				return
			}
			res := stripConv(r.Results[idx])
			// `if d == 0 { return def }; return d`: this return is only reached with d ≠ 0
			nonZeroHere := false
			rd := p.Desc(res, nil)
			instrsOf(h, func(gi ssa.Instruction) {
				ifi, ok := gi.(*ssa.If)
				if !ok {
					return
				}
				rel := p.RelOf(ifi.Cond, true, nil)
				if rel.X != rd || rel.Y != "" || rel.Pred != "" {
					return
				}
				var nz *ssa.BasicBlock
				switch {
				case !rel.Neq && rel.Lo == 0 && rel.Hi == 0: // x == 0
					nz = ifi.Block().Succs[1]
				case rel.Neq && rel.Lo == 0 && rel.Hi == 0: // x != 0
					nz = ifi.Block().Succs[0]
				}
				if nz != nil && len(nz.Preds) == 1 && nz.Dominates(r.Block()) {
					nonZeroHere = true
				}
			})
			if nonZeroHere {
				return
			}
			why = c.nonZeroIn(h, res, nb, depth+1)
		})
		return why, true
	}
	if ex, ok := v.(*ssa.Extract); ok {
		if call, ok := ex.Tuple.(*ssa.Call); ok {
			if why, handled := helperResult(call, ex.Index); handled {
				return why
			}
		}
	}
	if call, ok := v.(*ssa.Call); ok {
		if h := StaticFn(call); h != nil && h.Signature.Results().Len() == 1 {
			if why, handled := helperResult(call, 0); handled {
				return why
			}
		}
	}
	// a field of a small struct that a helper assembled (`t := serverTimeouts(cfg); … t.read`)
	{
		var base ssa.Value
		fieldIdx := -1
		switch x := v.(type) {
		case *ssa.Field:
			base, fieldIdx = x.X, x.Field
		case *ssa.UnOp:
			if fa, ok := x.X.(*ssa.FieldAddr); ok && x.Op == token.MUL {
				base, fieldIdx = fa.X, fa.Field
			}
		}
		if base != nil {
			b := singleStore(base)
			if ld, ok := b.(*ssa.UnOp); ok && ld.Op == token.MUL {
				b = singleStore(ld.X)
			}
			if cell, ok := b.(*ssa.Alloc); ok && cell.Referrers() != nil {
				// a local struct variable assigned once from the helper's result
				var stored ssa.Value
				ns := 0
				for _, r := range *cell.Referrers() {
					if st, isSt := r.(*ssa.Store); isSt && st.Addr == ssa.Value(cell) {
						stored = st.Val
						ns++
					}
				}
				if ns == 1 {
					b = stripConv(stored)
				}
			}
			if call, ok := b.(*ssa.Call); ok {
				if h := StaticFn(call); h != nil && p.IsHelios(h) && h.Blocks != nil {
					nb := &nzBind{callee: h, args: call.Call.Args, caller: fn, outer: bind}
					why, n := "", 0
					instrsOf(h, func(in ssa.Instruction) {
						st, ok := in.(*ssa.Store)
						if !ok || why != "" {
							return
						}
						fa, ok := st.Addr.(*ssa.FieldAddr)
						if !ok || fa.Field != fieldIdx {
							return
						}
						if !types.Identical(namedOrSelf(fa.X.Type()), namedOrSelf(base.Type())) {
							return
						}
						n++
						why = c.nonZeroIn(h, st.Val, nb, depth+1)
					})
					if n > 0 {
						return why
					}
				}
			}
		}
	}
	d := p.Desc(v, nil)
	if d == "fld:loadbalancer.healthChecker.activeTimeout" {
		return "" // validated > 0 when active checks are enabled (C18 constraint table)
	}
	if phi, ok := v.(*ssa.Phi); ok {
		// zero-default idiom: every edge is a positive default, or the value the guard `x == 0` replaced
		hasDefault := false
		var others []ssa.Value
		for _, e := range phi.Edges {
			if c.nonZeroIn(fn, e, bind, depth+1) == "" {
				hasDefault = true
			} else {
				others = append(others, e)
			}
		}
		if hasDefault {
			for _, o := range others {
				if !guarded(o) {
					return "derived from configuration (" + p.Desc(o, nil) + ") that may be 0 without a zero-default guard"
				}
			}
			return ""
		}
	}
	if strings.Contains(d, "config.TimeoutConfig") || strings.Contains(d, "fld:config.") {
		return "derived from configuration (" + d + ") that validation allows to be 0, with no default applied"
	}
	return "undecided: cannot show that " + d + " is non-zero"
}

// stopIdempotent: C19 "repeated shutdown calls are harmless".  Stop (with the pool shutdown inlined)
// is walked twice in a row, the second time starting from the field facts the first run left
// behind (one goroutine, nothing else running): the second run must not reach an operation that
// cannot be repeated — closing a channel a second time panics.
func (c *Ctx) stopIdempotent() {
	p := c.P
	stop := p.Fn("internal/loadbalancer", "LoadBalancer", "Stop")
	construct := "loadbalancer.(*LoadBalancer).Stop/twice"
	if stop == nil {
		c.Missing("stop-idempotent", construct)
		return
	}
	sp := &Spec{P: p, SeqFacts: true,
		Event: func(in ssa.Instruction, fr *Frame) string {
			if ci, ok := in.(ssa.CallInstruction); ok && CalleeName(ci) == "builtin:close" {
				return "close(" + p.DescQ(ci.Common().Args[0], fr) + ")"
			}
			return ""
		},
		Cond: func(*ssa.If, *Frame) string { return "" },
		Expand: func(callee *ssa.Function, site ssa.CallInstruction) bool {
			pk := fnPkg(callee)
			return pk != nil && strings.HasSuffix(pk.Pkg.Path(), "/internal/loadbalancer")
		},
	}
	first := sp.Walk(stop)
	var bad []string
	nSecond := 0
	for _, t1 := range first {
		if t1.Exit != ExitNormal {
			continue
		}
		closed := map[string]bool{}
		for _, it := range t1.Items {
			if strings.HasPrefix(it.Label, "close(") {
				closed[it.Label] = true
			}
		}
		for _, t2 := range sp.walkFn(&Frame{Fn: stop}, nil, false, t1.facts) {
			nSecond++
			for _, it := range t2.Items {
				if closed[it.Label] {
					bad = append(bad, p.InstrPos(it.Instr)+": a second Stop can execute "+it.Label+" again (closing a closed channel panics): the guard in front of it does not stay false after the first call")
				}
			}
		}
	}
	c.Count("paths_enumerated", len(first)+nSecond)
	bad = uniqueStrings(bad)
	if len(bad) == 0 {
		c.Pass("stop-idempotent", construct, p.Pos(stop.Pos()), fmt.Sprintf("%d first-run × second-run path pairs: no unrepeatable operation is reached twice", nSecond))
	} else {
		c.Fail("stop-idempotent", construct, p.Pos(stop.Pos()), bad[0], bad...)
	}
}

// namedOrSelf strips pointers so that *T and T compare equal.
func namedOrSelf(t types.Type) types.Type {
	for {
		p, ok := t.Underlying().(*types.Pointer)
		if !ok {
			return t
		}
		t = p.Elem()
	}
}

// shutdownParentLive: the context handed to server.Shutdown must not descend from a context that is
// cancelled when shutdown begins (the signal context, the balancer's context).  It reports the
// offending ancestor, "" when every ancestor chain ends in context.Background/TODO/WithoutCancel.
func (c *Ctx) shutdownParentLive(v ssa.Value, depth int) string {
	p := c.P
	if depth > 8 {
		return ""
	}
	switch x := v.(type) {
	case *ssa.Extract:
		return c.shutdownParentLive(x.Tuple, depth+1)
	case *ssa.ChangeInterface:
		return c.shutdownParentLive(x.X, depth+1)
	case *ssa.MakeInterface:
		return c.shutdownParentLive(x.X, depth+1)
	case *ssa.Phi:
		for _, e := range x.Edges {
			if w := c.shutdownParentLive(e, depth+1); w != "" {
				return w
			}
		}
		return ""
	case *ssa.Call:
		switch n := CalleeName(x); n {
		case "context.Background", "context.TODO", "context.WithoutCancel":
			return ""
		case "context.WithTimeout", "context.WithDeadline", "context.WithCancel", "context.WithValue", "context.WithTimeoutCause", "context.WithDeadlineCause", "context.WithCancelCause":
			return c.shutdownParentLive(x.Call.Args[0], depth+1)
		case "os/signal.NotifyContext":
			return "the signal context (signal.NotifyContext)"
		default:
			return "a context obtained from " + n
		}
	case *ssa.Parameter:
		fn := x.Parent()
		idx := -1
		for i, pm := range fn.Params {
			if pm == x {
				idx = i
			}
		}
		for _, caller := range p.Funcs {
			for _, ci := range callsIn(caller) {
				if StaticFn(ci) == fn && idx >= 0 && idx < len(ci.Common().Args) {
					if w := c.shutdownParentLive(ci.Common().Args[idx], depth+1); w != "" {
						return w
					}
				}
			}
		}
		return ""
	case *ssa.UnOp:
		if fa, ok := x.X.(*ssa.FieldAddr); ok {
			if fr, ok := fieldRefOf(fa); ok {
				return "the context stored in " + fr.Key()
			}
		}
	}
	return "a context that is not context.Background() (" + p.Desc(v, nil) + ")"
}

// signalsStayHandled: "repeated shutdown calls are harmless" at process level means a second
// SIGTERM/SIGINT during the drain is still absorbed.  signal.Stop / signal.Reset give the signal its
// default disposition back (the process dies, in-flight responses are cut off), so on no path of main
// may they run before the shutdown sequence has been entered and left.
func (c *Ctx) signalsStayHandled(sg *ssa.Function) {
	p := c.P
	rule, construct := "signals-stay-handled", "cmd/helios.main"
	mainFn := p.Fn("cmd/helios", "", "main")
	if mainFn == nil {
		c.Missing(rule, construct)
		return
	}
	sp := &Spec{
		Event: func(in ssa.Instruction, fr *Frame) string {
			ci, ok := in.(ssa.CallInstruction)
			if !ok {
				return ""
			}
			switch n := CalleeName(ci); n {
			case "os/signal.Stop", "os/signal.Reset", "os/signal.Ignore":
				if _, isDefer := in.(*ssa.Defer); isDefer {
					return "" // reported when it runs ("run:…")
				}
				return "unsubscribe:" + strings.TrimPrefix(n, "os/signal.")
			case "(*net/http.Server).Shutdown":
				return "drain"
			}
			if f := StaticFn(ci); f != nil && f == sg {
				return "drain"
			}
			return ""
		},
		Expand: func(callee *ssa.Function, site ssa.CallInstruction) bool {
			pk := fnPkg(callee)
			return pk != nil && strings.HasSuffix(pk.Pkg.Path(), "/cmd/helios") && callee != sg
		},
	}
	c.traceRule(rule, construct, mainFn, sp,
		"no path of main gives SIGINT/SIGTERM their default disposition back before the drain has finished",
		func(t *Trace) string {
			for i, it := range t.Items {
				l := strings.TrimPrefix(it.Label, "run:")
				if !strings.HasPrefix(l, "unsubscribe:") {
					continue
				}
				for _, later := range t.Items[i+1:] {
					if later.Label == "drain" {
						return "signal." + strings.TrimPrefix(l, "unsubscribe:") + " runs before the graceful shutdown: a second SIGTERM/SIGINT during the drain kills the process, cutting off the requests still in flight and skipping the balancer's Stop"
					}
				}
			}
			return ""
		})
}

// goroutinesCannotCrash: a panic in a request handler is recovered by net/http, a panic in a goroutine
// Helios starts itself (probe loop, probes, sweeps, listeners) ends the process.  On no path of such a
// goroutine — helpers inlined — is a pointer dereferenced that the path has established to be nil; in
// particular the pointer result of a library call is nil on the path on which its error was found
// non-nil (`resp, err := client.Do(req); if err != nil { … resp.StatusCode … }`).
func (c *Ctx) goroutinesCannotCrash() {
	p := c.P
	rule := "goroutine-cannot-crash"
	n := 0
	seen := map[*ssa.Function]bool{}
	for _, fn := range p.Funcs {
		if !p.InScope(fn) {
			continue
		}
		for _, ci := range callsIn(fn) {
			g, ok := ci.(*ssa.Go)
			if !ok {
				continue
			}
			var target *ssa.Function
			switch v := g.Call.Value.(type) {
			case *ssa.MakeClosure:
				target, _ = v.Fn.(*ssa.Function)
			case *ssa.Function:
				target = v
			}
			if target == nil {
				target = StaticFn(g)
			}
			if target == nil || target.Blocks == nil || !p.IsHelios(target) || seen[target] {
				continue
			}
			seen[target] = true
			n++
			sp := &Spec{
				Expand: expandAllHelios("/internal/metrics.", "/internal/logging."),
			}
			sp.P = p
			sp.MaxTraces = 20000
			ts := sp.Walk(target)
			construct := p.FuncKey(target)
			if sp.Overflow() {
				c.Undecided(rule, construct, p.InstrPos(g), "path enumeration exceeded its bound")
				continue
			}
			bad := ""
			for _, t := range ts {
				for _, it := range t.Items {
					if strings.HasPrefix(it.Label, "nil-deref:") {
						bad = p.InstrPos(it.Instr) + ": a " + strings.TrimPrefix(it.Label, "nil-deref:") + " that is nil on this path is dereferenced (the pointer result of a call whose error was just found non-nil): the goroutine started at " + p.InstrPos(g) + " is not covered by net/http's per-connection recovery, so the fault that makes the call fail — a refused connection, a timeout — ends the whole process"
					}
				}
			}
			c.Check(bad == "", rule, construct, p.InstrPos(g), fmt.Sprintf("no nil dereference on any of %d paths", len(ts)), bad)
		}
	}
	c.Floor(rule, n, 3, "goroutines started by Helios")
}

// requestContextIsClients: several clauses read the request's context as "the client": it ends an
// upgraded connection only when a peer goes (C20), and a cancelled context excuses a failed exchange
// from passive ejection because the *client* hung up (C04, C03).  Both hold only while nothing in
// Helios gives the request a context that Helios itself can end: every (*http.Request).WithContext in
// the serving path hands on a context derived from the request's own through WithValue only — never
// through WithTimeout, WithDeadline or WithCancel.  (A deadline that ends a hung backend's exchange
// looks like a client that went away and is then never counted against the backend.)
func (c *Ctx) requestContextIsClients() {
	p := c.P
	rule := "request-context-is-clients"
	n := 0
	for _, fn := range p.Funcs {
		if !p.InScope(fn) {
			continue
		}
		for _, ci := range callsIn(fn) {
			if CalleeName(ci) != "(*net/http.Request).WithContext" {
				continue
			}
			n++
			construct := p.FuncKey(fn) + "/Request.WithContext"
			args := ci.Common().Args
			bad := ""
			seen := map[ssa.Value]bool{}
			var walk func(v ssa.Value, d int)
			walk = func(v ssa.Value, d int) {
				if v == nil || seen[v] || d > 12 || bad != "" {
					return
				}
				seen[v] = true
				switch x := v.(type) {
				case *ssa.Call:
					switch n := CalleeName(x); n {
					case "context.WithTimeout", "context.WithDeadline", "context.WithCancel", "context.WithCancelCause", "context.WithTimeoutCause", "context.WithDeadlineCause":
						bad = p.InstrPos(x) + ": " + n
						return
					case "context.Background", "context.TODO":
						bad = p.InstrPos(x) + ": " + n + " (the client's cancellation is cut off)"
						return
					}
					for _, a := range x.Call.Args {
						walk(a, d+1)
					}
					if x.Call.IsInvoke() {
						walk(x.Call.Value, d+1)
					}
				case *ssa.Extract:
					walk(x.Tuple, d+1)
				case *ssa.Phi:
					for _, e := range x.Edges {
						walk(e, d+1)
					}
				case *ssa.MakeInterface:
					walk(x.X, d+1)
				case *ssa.ChangeInterface:
					walk(x.X, d+1)
				case *ssa.UnOp:
					if a, ok := x.X.(*ssa.Alloc); ok && a.Referrers() != nil {
						for _, r := range *a.Referrers() {
							if st, ok := r.(*ssa.Store); ok && st.Addr == ssa.Value(a) {
								walk(st.Val, d+1)
							}
						}
					}
				}
			}
			if len(args) >= 2 {
				walk(args[1], 0)
			}
			if bad != "" {
				c.Fail(rule, construct, p.InstrPos(ci), "the request handed on carries a context Helios can end itself ("+bad+"): a cancelled request context no longer means that the client went away — a hung backend cut off by that deadline is excused from passive ejection like a client hang-up, and an upgraded connection ends when it fires")
			} else {
				c.Pass(rule, construct, p.InstrPos(ci), "the context handed on derives from the request's own through WithValue only")
			}
		}
	}
	c.Floor(rule, n, 1, "Request.WithContext call sites")
}
