package main

import (
	"go/token"
	"go/types"
	"strings"

	"golang.org/x/tools/go/ssa"
)

// Access is one use of a struct field (or of the contents of a container stored in it).
type Access struct {
	Fn    *ssa.Function
	Instr ssa.Instruction
	Field FieldRef
	Key   string // "loadbalancer.Backend.IsHealthy"
	// Kind: read | write | atomic | method:<callee> | escape | elem-read | elem-write
	Kind string
	FA   *ssa.FieldAddr
}

func (a Access) IsWrite() bool { return a.Kind == "write" || a.Kind == "elem-write" }

// Accesses enumerates every field access in fn (not in its closures).
func Accesses(fn *ssa.Function) []Access {
	var out []Access
	instrsOf(fn, func(in ssa.Instruction) {
		fa, ok := in.(*ssa.FieldAddr)
		if !ok {
			return
		}
		fr, ok := fieldRefOf(fa)
		if !ok {
			return
		}
		add := func(at ssa.Instruction, kind string) {
			out = append(out, Access{Fn: fn, Instr: at, Field: fr, Key: fr.Key(), Kind: kind, FA: fa})
		}
		refs := fa.Referrers()
		if refs == nil {
			return
		}
		for _, r := range *refs {
			switch x := r.(type) {
			case *ssa.UnOp:
				if x.Op == token.MUL {
					add(x, "read")
					elemAccesses(x, func(at ssa.Instruction, kind string) { add(at, kind) }, 0)
				}
			case *ssa.Store:
				if x.Addr == fa {
					add(x, "write")
				} else {
					add(x, "escape")
				}
			case ssa.CallInstruction:
				name := CalleeName(x)
				if strings.HasPrefix(name, "sync/atomic.") || strings.HasPrefix(name, "(*sync/atomic.") {
					add(x, "atomic")
				} else if rc := Receiver(x); rc == fa {
					add(x, "method:"+name)
				} else {
					add(x, "escape")
				}
			case *ssa.FieldAddr, *ssa.IndexAddr:
				// nested aggregate: the inner FieldAddr is enumerated on its own
			case *ssa.DebugRef:
			case *ssa.Phi:
				// `p := &x.a; if c { p = &x.b }; atomic.AddUint64(p, 1)`: the address is only chosen here;
				// what matters is what the merged pointer is used for
				onlyAtomic, n := true, 0
				if pr := x.Referrers(); pr != nil {
					for _, u := range *pr {
						if _, dbg := u.(*ssa.DebugRef); dbg {
							continue
						}
						n++
						ci, isCall := u.(ssa.CallInstruction)
						if !isCall {
							onlyAtomic = false
							continue
						}
						name := CalleeName(ci)
						if !(strings.HasPrefix(name, "sync/atomic.") || strings.HasPrefix(name, "(*sync/atomic.")) {
							onlyAtomic = false
						}
					}
				}
				if onlyAtomic && n > 0 {
					for _, u := range *x.Referrers() {
						if ci, isCall := u.(ssa.CallInstruction); isCall {
							add(ci, "atomic")
						}
					}
				} else {
					add(r, "escape")
				}
			default:
				add(r, "escape")
			}
		}
	})
	return out
}

// elemAccesses reports accesses to the contents of a map/slice value v loaded from a field.
func elemAccesses(v ssa.Value, add func(ssa.Instruction, string), depth int) {
	if depth > 3 {
		return
	}
	switch v.Type().Underlying().(type) {
	case *types.Map, *types.Slice:
	default:
		return
	}
	refs := v.Referrers()
	if refs == nil {
		return
	}
	for _, r := range *refs {
		switch x := r.(type) {
		case *ssa.MapUpdate:
			if x.Map == v {
				add(x, "elem-write")
			}
		case *ssa.Lookup:
			if x.X == v {
				add(x, "elem-read")
			}
		case *ssa.Range:
			add(x, "elem-read")
		case *ssa.IndexAddr:
			if x.X != v {
				continue
			}
			if rr := x.Referrers(); rr != nil {
				for _, u := range *rr {
					switch y := u.(type) {
					case *ssa.Store:
						if y.Addr == x {
							add(y, "elem-write")
						}
					case *ssa.UnOp:
						add(y, "elem-read")
					}
				}
			}
		case *ssa.Phi:
			if depth > 0 { // an alias of the guarded container carried around a loop
				elemAccesses(x, add, depth+1)
			}
		case *ssa.Slice:
			add(x, "elem-read")
			if x.X == v && x.Max == nil {
				// s[i:j] shares the backing array (and its spare capacity) with s
				elemAccesses(x, add, depth+1)
			}
		case *ssa.Call:
			switch CalleeName(x) {
			case "builtin:len", "builtin:cap":
			case "builtin:append":
				if len(x.Call.Args) > 0 && x.Call.Args[0] == v {
					// append(s, …) writes into s's backing array whenever capacity allows
					add(x, "elem-write")
				} else {
					add(x, "elem-read")
				}
			case "builtin:delete":
				add(x, "elem-write")
			case "builtin:copy":
				if len(x.Call.Args) == 2 && x.Call.Args[0] == v {
					add(x, "elem-write")
				} else {
					add(x, "elem-read")
				}
			default:
				// handed to a helper of this repository: what the helper does with that parameter
				// (append into it, store through it) happens to the guarded backing array
				if callee := StaticFn(x); callee != nil && callee.Blocks != nil && callee.Pkg != nil && strings.HasPrefix(callee.Pkg.Pkg.Path(), modPath) {
					for j, a := range x.Call.Args {
						if a != v || j >= len(callee.Params) {
							continue
						}
						writes := false
						elemAccesses(callee.Params[j], func(_ ssa.Instruction, kind string) {
							if kind == "elem-write" {
								writes = true
							}
						}, depth+1)
						if writes {
							add(x, "elem-write")
						} else {
							add(x, "elem-read")
						}
					}
				}
			}
		}
	}
}

// ---- freshness (thread-local roots) -------------------------------------------------------

type Fresh struct {
	P           *Program
	retFresh    map[*ssa.Function]int // 0 unknown, 1 fresh, 2 not
	freshParams map[*ssa.Function]map[int]bool
	cf          map[ssa.Value]int
	df          map[*ssa.Function]int
}

func (p *Program) Freshness() *Fresh {
	if p.fresh != nil {
		return p.fresh
	}
	f := p.newFreshness()
	p.fresh = f
	return f
}

func (p *Program) newFreshness() *Fresh {
	f := &Fresh{P: p, retFresh: map[*ssa.Function]int{}, freshParams: map[*ssa.Function]map[int]bool{}}
	// fresh parameters: fixpoint over the call graph, optimistic start for non-exported helpers
	for _, fn := range p.Funcs {
		m := map[int]bool{}
		if fn.Parent() == nil && !(fn.Object() != nil && fn.Object().Exported() && recvExported(fn)) {
			for i := range fn.Params {
				if _, ok := fn.Params[i].Type().Underlying().(*types.Pointer); ok {
					m[i] = true
				}
			}
		}
		f.freshParams[fn] = m
	}
	for iter := 0; iter < 6; iter++ {
		changed := false
		for _, fn := range p.Funcs {
			m := f.freshParams[fn]
			if len(m) == 0 {
				continue
			}
			n := p.CG.Nodes[fn]
			if n == nil || len(n.In) == 0 {
				for i := range m {
					delete(m, i)
					changed = true
				}
				continue
			}
			for _, e := range n.In {
				args := e.Site.Common().Args
				if e.Site.Common().IsInvoke() {
					for i := range m {
						delete(m, i)
						changed = true
					}
					continue
				}
				_, isCall := e.Site.(*ssa.Call)
				for i := range m {
					if i >= len(args) || !isCall || !f.IsFresh(args[i], 0) {
						delete(m, i)
						changed = true
					}
				}
			}
		}
		if !changed {
			break
		}
	}
	return f
}

// ReturnsFresh: every returned pointer result of fn is a fresh (thread-local) object.
func (f *Fresh) ReturnsFresh(fn *ssa.Function) bool {
	if fn == nil || fn.Blocks == nil {
		return false
	}
	switch f.retFresh[fn] {
	case 1:
		return true
	case 2:
		return false
	}
	f.retFresh[fn] = 2 // recursion guard
	ok := true
	found := false
	instrsOf(fn, func(in ssa.Instruction) {
		r, isRet := in.(*ssa.Return)
		if !isRet {
			return
		}
		for _, v := range r.Results {
			if _, isPtr := v.Type().Underlying().(*types.Pointer); !isPtr {
				continue
			}
			if isConstNil(v) {
				continue
			}
			found = true
			if !f.IsFresh(v, 0) {
				ok = false
			}
		}
	})
	if ok && found {
		f.retFresh[fn] = 1
		return true
	}
	return false
}

// IsFresh: v denotes (an address inside / a value loaded from) an object allocated by the
// current goroutine and not yet shared: composite literal / new / make in this function,
// sync.Pool.Get results, results of fresh-returning functions, fresh parameters of
// constructor-phase helpers.  Crossing a pointer edge inside such an object (an element of a fresh
// slice/map, a pointer field) stays thread-local only if every pointer stored into the object by
// its allocating function was itself thread-local ("content-fresh").
func (f *Fresh) IsFresh(v ssa.Value, d int) bool { return f.fresh(v, false, d) }

func pointerish(t types.Type) bool {
	switch t.Underlying().(type) {
	case *types.Pointer, *types.Map, *types.Slice, *types.Interface, *types.Chan, *types.Signature:
		return true
	}
	return false
}

func (f *Fresh) fresh(v ssa.Value, deep bool, d int) bool {
	if d > 16 {
		return false
	}
	switch x := v.(type) {
	case *ssa.Alloc, *ssa.MakeMap, *ssa.MakeSlice:
		if deep {
			return f.contentFresh(v, d)
		}
		return true
	case *ssa.MakeChan:
		return !deep
	case *ssa.Parameter:
		fn := x.Parent()
		for i, p := range fn.Params {
			if p == x {
				return f.freshParams[fn][i] && !deep
			}
		}
		return false
	case *ssa.Call:
		name := CalleeName(x)
		if name == "(*sync.Pool).Get" {
			if deep {
				return f.contentFresh(v, d)
			}
			return true
		}
		if sf := StaticFn(x); sf != nil && f.P.IsHelios(sf) {
			// a helper that hands back one of its own arguments (`pool.Get().(*T).emptied()`): as fresh
			// as that argument, provided the helper puts nothing shared into it
			if i := passthroughParam(sf); i >= 0 && i < len(x.Call.Args) && f.storesOnlyFreshInto(sf, i) {
				return f.fresh(x.Call.Args[i], deep, d+1)
			}
			if !f.ReturnsFresh(sf) {
				return false
			}
			if deep {
				return f.deepFresh(sf)
			}
			return true
		}
		return false
	case *ssa.TypeAssert:
		return f.fresh(x.X, deep, d+1)
	case *ssa.Extract:
		return f.fresh(x.Tuple, deep, d+1)
	case *ssa.UnOp:
		if x.Op == token.MUL {
			if cell, ok := x.X.(*ssa.Alloc); ok && pointerish(x.Type()) {
				// a local variable holding a pointer: as fresh as everything assigned to it
				n := 0
				if refs := cell.Referrers(); refs != nil {
					for _, r := range *refs {
						if st, ok := r.(*ssa.Store); ok && st.Addr == cell {
							n++
							if !f.fresh(st.Val, deep, d+1) {
								return false
							}
						}
					}
				}
				return n > 0
			}
			// loading a pointer-ish value out of an object crosses a pointer edge
			return f.fresh(x.X, deep || pointerish(x.Type()), d+1)
		}
		return false
	case *ssa.FieldAddr:
		return f.fresh(x.X, deep, d+1)
	case *ssa.Field:
		return f.fresh(x.X, deep, d+1)
	case *ssa.IndexAddr:
		return f.fresh(x.X, deep, d+1)
	case *ssa.Index:
		return f.fresh(x.X, deep || pointerish(x.Type()), d+1)
	case *ssa.Lookup:
		return f.fresh(x.X, deep || pointerish(x.Type()), d+1)
	case *ssa.Next:
		return f.fresh(x.Iter, true, d+1)
	case *ssa.Range:
		return f.fresh(x.X, deep, d+1)
	case *ssa.Phi:
		for _, e := range x.Edges {
			if e == x {
				continue
			}
			if !f.fresh(e, deep, d+1) {
				return false
			}
		}
		return len(x.Edges) > 0
	case *ssa.Convert:
		return f.fresh(x.X, deep, d+1)
	case *ssa.ChangeType:
		return f.fresh(x.X, deep, d+1)
	case *ssa.MakeInterface:
		return f.fresh(x.X, deep, d+1)
	case *ssa.Slice:
		return f.fresh(x.X, deep, d+1)
	}
	return false
}

// rootOf follows address/element/load chains back to the object a location belongs to.
func rootOf(v ssa.Value) ssa.Value {
	for i := 0; i < 32; i++ {
		switch x := v.(type) {
		case *ssa.FieldAddr:
			v = x.X
		case *ssa.IndexAddr:
			v = x.X
		case *ssa.Field:
			v = x.X
		case *ssa.Index:
			v = x.X
		case *ssa.Lookup:
			v = x.X
		case *ssa.UnOp:
			if x.Op != token.MUL {
				return v
			}
			v = x.X
		case *ssa.TypeAssert:
			v = x.X
		case *ssa.Extract:
			v = x.Tuple
		case *ssa.Slice:
			v = x.X
		case *ssa.ChangeType:
			v = x.X
		case *ssa.Convert:
			v = x.X
		default:
			return v
		}
	}
	return v
}

// contentFresh: every pointer-ish value stored (by the allocating function) into the object rooted
// at root is itself thread-local.
func (f *Fresh) contentFresh(root ssa.Value, d int) bool {
	in, ok := root.(ssa.Instruction)
	if !ok || in.Parent() == nil {
		return false
	}
	if f.cf == nil {
		f.cf = map[ssa.Value]int{}
	}
	switch f.cf[root] {
	case 1:
		return true
	case 2:
		return false
	case 3:
		return true // cycle: optimistic on the back edge
	}
	f.cf[root] = 3
	ok = true
	instrsOf(in.Parent(), func(i ssa.Instruction) {
		var dst, val ssa.Value
		switch x := i.(type) {
		case *ssa.Store:
			dst, val = x.Addr, x.Val
		case *ssa.MapUpdate:
			dst, val = x.Map, x.Value
		default:
			return
		}
		if rootOf(dst) != root || !pointerish(val.Type()) || isConstNil(val) {
			return
		}
		if _, isFn := val.(*ssa.Function); isFn {
			return
		}
		if _, isMC := val.(*ssa.MakeClosure); isMC {
			return
		}
		if !f.fresh(val, true, d+1) {
			ok = false
		}
	})
	// append(root-slice, elems...) also stores
	if ok {
		f.cf[root] = 1
	} else {
		f.cf[root] = 2
	}
	return ok
}

// deepFresh: fn returns a fresh object whose contents are thread-local too.
func (f *Fresh) deepFresh(fn *ssa.Function) bool {
	if f.df == nil {
		f.df = map[*ssa.Function]int{}
	}
	switch f.df[fn] {
	case 1:
		return true
	case 2:
		return false
	}
	f.df[fn] = 2
	ok := true
	instrsOf(fn, func(in ssa.Instruction) {
		r, isRet := in.(*ssa.Return)
		if !isRet {
			return
		}
		for _, v := range r.Results {
			if !pointerish(v.Type()) || isConstNil(v) {
				continue
			}
			if !f.fresh(v, true, 0) {
				ok = false
			}
		}
	})
	if ok {
		f.df[fn] = 1
	}
	return ok
}

// snapshotNoEscape: a function that returns a fresh snapshot object (GetMetrics) must not store
// pointers to shared objects into it — the callers read the snapshot without any lock.
func (c *Ctx) snapshotNoEscape() {
	p := c.P
	fr := p.Freshness()
	n := 0
	for _, fn := range p.Funcs {
		if !p.InScope(fn) || !fr.ReturnsFresh(fn) {
			continue
		}
		// only snapshot-style functions: they read lock-guarded fields
		guardedRead := false
		for _, a := range Accesses(fn) {
			if _, ok := tLock[a.Key]; ok && !fr.IsFresh(a.FA.X, 0) {
				guardedRead = true
			}
		}
		if !guardedRead {
			continue
		}
		n++
		var bad []string
		instrsOf(fn, func(in ssa.Instruction) {
			var dst, val ssa.Value
			switch x := in.(type) {
			case *ssa.MapUpdate:
				dst, val = x.Map, x.Value
			case *ssa.Store:
				dst, val = x.Addr, x.Val
			default:
				return
			}
			if !fr.fresh(rootOf(dst), false, 0) {
				return
			}
			if _, isPtr := val.Type().Underlying().(*types.Pointer); !isPtr {
				if _, isMap := val.Type().Underlying().(*types.Map); !isMap {
					if _, isSl := val.Type().Underlying().(*types.Slice); !isSl {
						return
					}
				}
			}
			if isConstNil(val) || fr.IsFresh(val, 0) {
				return
			}
			// only objects protected by somebody else's lock (e.g. *BackendMetrics under Metrics.mutex);
			// objects that carry their own lock (e.g. *Backend) may be shared
			external := false
			if nt := namedOf(val.Type()); nt != nil {
				prefix := QualType(nt) + "."
				for k, class := range tLock {
					if strings.HasPrefix(k, prefix) && lockStructOf(class) != QualType(nt) {
						external = true
					}
				}
			}
			if !external {
				return
			}
			bad = append(bad, p.InstrPos(in)+": a pointer to shared state ("+p.Desc(val, nil)+") is stored into the returned snapshot; its readers hold no lock")
		})
		if len(bad) == 0 {
			c.Pass("snapshot-no-escape", p.FuncKey(fn), p.Pos(fn.Pos()), "the returned copy contains no pointer to lock-guarded shared objects")
		} else {
			c.Fail("snapshot-no-escape", p.FuncKey(fn), p.Pos(fn.Pos()), bad[0], bad...)
		}
	}
	c.Floor("snapshot-no-escape", n, 1, "snapshot-returning functions")
}

// passthroughParam: the index of the parameter that fn returns on every return (its single result),
// or -1.
func passthroughParam(fn *ssa.Function) int {
	if fn.Blocks == nil || fn.Signature.Results().Len() != 1 {
		return -1
	}
	idx, n := -1, 0
	ok := true
	instrsOf(fn, func(in ssa.Instruction) {
		r, isRet := in.(*ssa.Return)
		if !isRet || len(r.Results) != 1 {
			return
		}
		n++
		v := singleStore(r.Results[0])
		found := -1
		for i, p := range fn.Params {
			if ssa.Value(p) == v {
				found = i
			}
		}
		if found < 0 || (idx >= 0 && found != idx) {
			ok = false
		}
		idx = found
	})
	if !ok || n == 0 {
		return -1
	}
	return idx
}

// storesOnlyFreshInto: every pointer-ish value fn stores into the object its parameter i points to
// (fields, map entries) is itself freshly created there.
func (f *Fresh) storesOnlyFreshInto(fn *ssa.Function, i int) bool {
	prm := ssa.Value(fn.Params[i])
	ok := true
	instrsOf(fn, func(in ssa.Instruction) {
		switch x := in.(type) {
		case *ssa.Store:
			if rootOf(x.Addr) == prm && pointerish(x.Val.Type()) {
				if _, isConst := x.Val.(*ssa.Const); !isConst && !f.fresh(x.Val, false, 1) {
					ok = false
				}
			}
		case *ssa.MapUpdate:
			if rootOf(x.Map) == prm && pointerish(x.Value.Type()) {
				if _, isConst := x.Value.(*ssa.Const); !isConst && !f.fresh(x.Value, false, 1) {
					ok = false
				}
			}
		}
	})
	return ok
}
