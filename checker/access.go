package main

import (
	"go/token"
	"go/types"
	"strings"

	"golang.org/x/tools/go/ssa"
)

// Access is one use of a struct field (or of the contents of a container stored in it).
type Access struct {
	Fn    *ssa.Function
	Instr ssa.Instruction
	Field FieldRef
	Key   string // "loadbalancer.Backend.IsHealthy"
	// Kind: read | write | atomic | method:<callee> | escape | elem-read | elem-write
	Kind string
	FA   *ssa.FieldAddr
}

func (a Access) IsWrite() bool { return a.Kind == "write" || a.Kind == "elem-write" }

// Accesses enumerates every field access in fn (not in its closures).
func Accesses(fn *ssa.Function) []Access {
	var out []Access
	instrsOf(fn, func(in ssa.Instruction) {
		fa, ok := in.(*ssa.FieldAddr)
		if !ok {
			return
		}
		fr, ok := fieldRefOf(fa)
		if !ok {
			return
		}
		add := func(at ssa.Instruction, kind string) {
			out = append(out, Access{Fn: fn, Instr: at, Field: fr, Key: fr.Key(), Kind: kind, FA: fa})
		}
		refs := fa.Referrers()
		if refs == nil {
			return
		}
		for _, r := range *refs {
			switch x := r.(type) {
			case *ssa.UnOp:
				if x.Op == token.MUL {
					add(x, "read")
					elemAccesses(x, func(at ssa.Instruction, kind string) { add(at, kind) }, 0)
				}
			case *ssa.Store:
				if x.Addr == fa {
					add(x, "write")
				} else {
					add(x, "escape")
				}
			case ssa.CallInstruction:
				name := CalleeName(x)
				if strings.HasPrefix(name, "sync/atomic.") || strings.HasPrefix(name, "(*sync/atomic.") {
					add(x, "atomic")
				} else if rc := Receiver(x); rc == fa {
					add(x, "method:"+name)
				} else {
					add(x, "escape")
				}
			case *ssa.FieldAddr, *ssa.IndexAddr:
				// nested aggregate: the inner FieldAddr is enumerated on its own
			case *ssa.DebugRef:
			default:
				add(r, "escape")
			}
		}
	})
	return out
}

// elemAccesses reports accesses to the contents of a map/slice value v loaded from a field.
func elemAccesses(v ssa.Value, add func(ssa.Instruction, string), depth int) {
	if depth > 3 {
		return
	}
	switch v.Type().Underlying().(type) {
	case *types.Map, *types.Slice:
	default:
		return
	}
	refs := v.Referrers()
	if refs == nil {
		return
	}
	for _, r := range *refs {
		switch x := r.(type) {
		case *ssa.MapUpdate:
			if x.Map == v {
				add(x, "elem-write")
			}
		case *ssa.Lookup:
			if x.X == v {
				add(x, "elem-read")
			}
		case *ssa.Range:
			add(x, "elem-read")
		case *ssa.IndexAddr:
			if x.X != v {
				continue
			}
			if rr := x.Referrers(); rr != nil {
				for _, u := range *rr {
					switch y := u.(type) {
					case *ssa.Store:
						if y.Addr == x {
							add(y, "elem-write")
						}
					case *ssa.UnOp:
						add(y, "elem-read")
					}
				}
			}
		case *ssa.Slice:
			add(x, "elem-read")
		case *ssa.Call:
			switch CalleeName(x) {
			case "builtin:len", "builtin:cap":
			case "builtin:append":
				add(x, "elem-read")
			case "builtin:delete":
				add(x, "elem-write")
			case "builtin:copy":
				if len(x.Call.Args) == 2 && x.Call.Args[0] == v {
					add(x, "elem-write")
				} else {
					add(x, "elem-read")
				}
			}
		}
	}
}

// ---- freshness (thread-local roots) -------------------------------------------------------

type Fresh struct {
	P           *Program
	retFresh    map[*ssa.Function]int // 0 unknown, 1 fresh, 2 not
	freshParams map[*ssa.Function]map[int]bool
}

func (p *Program) Freshness() *Fresh {
	f := &Fresh{P: p, retFresh: map[*ssa.Function]int{}, freshParams: map[*ssa.Function]map[int]bool{}}
	// fresh parameters: fixpoint over the call graph, optimistic start for non-exported helpers
	for _, fn := range p.Funcs {
		m := map[int]bool{}
		if fn.Parent() == nil && !(fn.Object() != nil && fn.Object().Exported() && recvExported(fn)) {
			for i := range fn.Params {
				if _, ok := fn.Params[i].Type().Underlying().(*types.Pointer); ok {
					m[i] = true
				}
			}
		}
		f.freshParams[fn] = m
	}
	for iter := 0; iter < 6; iter++ {
		changed := false
		for _, fn := range p.Funcs {
			m := f.freshParams[fn]
			if len(m) == 0 {
				continue
			}
			n := p.CG.Nodes[fn]
			if n == nil || len(n.In) == 0 {
				for i := range m {
					delete(m, i)
					changed = true
				}
				continue
			}
			for _, e := range n.In {
				args := e.Site.Common().Args
				if e.Site.Common().IsInvoke() {
					for i := range m {
						delete(m, i)
						changed = true
					}
					continue
				}
				_, isCall := e.Site.(*ssa.Call)
				for i := range m {
					if i >= len(args) || !isCall || !f.IsFresh(args[i], 0) {
						delete(m, i)
						changed = true
					}
				}
			}
		}
		if !changed {
			break
		}
	}
	return f
}

// ReturnsFresh: every returned pointer result of fn is a fresh (thread-local) object.
func (f *Fresh) ReturnsFresh(fn *ssa.Function) bool {
	if fn == nil || fn.Blocks == nil {
		return false
	}
	switch f.retFresh[fn] {
	case 1:
		return true
	case 2:
		return false
	}
	f.retFresh[fn] = 2 // recursion guard
	ok := true
	found := false
	instrsOf(fn, func(in ssa.Instruction) {
		r, isRet := in.(*ssa.Return)
		if !isRet {
			return
		}
		for _, v := range r.Results {
			if _, isPtr := v.Type().Underlying().(*types.Pointer); !isPtr {
				continue
			}
			if isConstNil(v) {
				continue
			}
			found = true
			if !f.IsFresh(v, 0) {
				ok = false
			}
		}
	})
	if ok && found {
		f.retFresh[fn] = 1
		return true
	}
	return false
}

// IsFresh: v denotes (an address inside / a value loaded from) an object allocated by the
// current goroutine and not yet shared: composite literal / new / make in this function,
// sync.Pool.Get results, results of fresh-returning functions, fresh parameters of
// constructor-phase helpers, and anything reached from such a root.
func (f *Fresh) IsFresh(v ssa.Value, d int) bool {
	if d > 16 {
		return false
	}
	switch x := v.(type) {
	case *ssa.Alloc:
		return true
	case *ssa.MakeMap, *ssa.MakeSlice, *ssa.MakeChan:
		return true
	case *ssa.Parameter:
		fn := x.Parent()
		for i, p := range fn.Params {
			if p == x {
				return f.freshParams[fn][i]
			}
		}
		return false
	case *ssa.Call:
		name := CalleeName(x)
		if name == "(*sync.Pool).Get" {
			return true
		}
		if sf := StaticFn(x); sf != nil && f.P.IsHelios(sf) {
			return f.ReturnsFresh(sf)
		}
		return false
	case *ssa.TypeAssert:
		return f.IsFresh(x.X, d+1)
	case *ssa.Extract:
		return f.IsFresh(x.Tuple, d+1)
	case *ssa.UnOp:
		if x.Op == token.MUL {
			return f.IsFresh(x.X, d+1)
		}
		return false
	case *ssa.FieldAddr:
		return f.IsFresh(x.X, d+1)
	case *ssa.Field:
		return f.IsFresh(x.X, d+1)
	case *ssa.IndexAddr:
		return f.IsFresh(x.X, d+1)
	case *ssa.Index:
		return f.IsFresh(x.X, d+1)
	case *ssa.Lookup:
		return f.IsFresh(x.X, d+1)
	case *ssa.Next:
		return f.IsFresh(x.Iter, d+1)
	case *ssa.Range:
		return f.IsFresh(x.X, d+1)
	case *ssa.Phi:
		for _, e := range x.Edges {
			if e == x {
				continue
			}
			if !f.IsFresh(e, d+1) {
				return false
			}
		}
		return len(x.Edges) > 0
	case *ssa.Convert:
		return f.IsFresh(x.X, d+1)
	case *ssa.ChangeType:
		return f.IsFresh(x.X, d+1)
	case *ssa.MakeInterface:
		return f.IsFresh(x.X, d+1)
	case *ssa.Slice:
		return f.IsFresh(x.X, d+1)
	}
	return false
}
