package main

import (
	"fmt"
	"go/token"
	"go/types"
	"os"
	"sort"
	"strings"

	"golang.org/x/tools/go/callgraph"
	"golang.org/x/tools/go/callgraph/cha"
	"golang.org/x/tools/go/callgraph/vta"
	"golang.org/x/tools/go/packages"
	"golang.org/x/tools/go/ssa"
	"golang.org/x/tools/go/ssa/ssautil"
)

const modPath = "github.com/0xReLogic/Helios"

// Program is the loaded, type-checked, SSA-built view of /repo's current working tree.
type Program struct {
	RepoDir string
	Fset    *token.FileSet
	Pkgs    []*packages.Package          // Helios packages (non-test)
	ByPath  map[string]*packages.Package // import path -> package (Helios only)
	SSA     *ssa.Program
	SSAPkg  map[string]*ssa.Package // import path -> ssa package (Helios only)
	CG      *callgraph.Graph
	Funcs   []*ssa.Function // every Helios source function incl. closures, sorted
	inScope map[string]bool // import closure of cmd/helios
	qual    bool            // Desc qualification toggle (see DescQ)
	inline  bool            // Desc sees through single-return helper functions (used by C16)
	locks   *LockInfo
	fresh   *Fresh
}

// LoadProgram loads ./... under dir.  overlay (may be nil) replaces file contents in memory
// (used by the seeded-breakage self test; the files on disk are never touched).
func LoadProgram(dir string, overlay map[string][]byte, env []string, tags string) (*Program, error) {
	cfg := &packages.Config{
		Mode:    packages.LoadAllSyntax,
		Dir:     dir,
		Tests:   false,
		Overlay: overlay,
		Env:     append(cleanEnv(), env...),
	}
	if tags != "" {
		cfg.BuildFlags = []string{"-tags=" + tags}
	}
	pkgs, err := packages.Load(cfg, "./...")
	if err != nil {
		return nil, fmt.Errorf("packages.Load: %w", err)
	}
	p := &Program{RepoDir: dir, ByPath: map[string]*packages.Package{}, SSAPkg: map[string]*ssa.Package{}, inScope: map[string]bool{}}
	var errs []string
	packages.Visit(pkgs, nil, func(pk *packages.Package) {
		for _, e := range pk.Errors {
			errs = append(errs, e.Error())
		}
	})
	if len(errs) > 0 {
		sort.Strings(errs)
		if len(errs) > 8 {
			errs = errs[:8]
		}
		return nil, fmt.Errorf("type-check/load errors: %s", strings.Join(errs, "; "))
	}
	for _, pk := range pkgs {
		if strings.HasPrefix(pk.PkgPath, modPath) {
			p.Pkgs = append(p.Pkgs, pk)
			p.ByPath[pk.PkgPath] = pk
		}
	}
	if len(p.Pkgs) < 10 {
		return nil, fmt.Errorf("only %d Helios packages loaded from %s (expected >= 10)", len(p.Pkgs), dir)
	}
	sort.Slice(p.Pkgs, func(i, j int) bool { return p.Pkgs[i].PkgPath < p.Pkgs[j].PkgPath })
	p.Fset = pkgs[0].Fset
	prog, _ := ssautil.AllPackages(pkgs, ssa.InstantiateGenerics)
	prog.Build()
	p.SSA = prog
	for _, pk := range p.Pkgs {
		sp := prog.Package(pk.Types)
		if sp == nil {
			return nil, fmt.Errorf("no SSA package for %s", pk.PkgPath)
		}
		p.SSAPkg[pk.PkgPath] = sp
	}
	all := ssautil.AllFunctions(prog)
	p.CG = vta.CallGraph(all, cha.CallGraph(prog))
	for fn := range all {
		if fn.Pkg == nil || fn.Synthetic != "" && fn.Syntax() == nil {
			// keep synthetic wrappers out; closures have Pkg set through parent
		}
		if p.IsHelios(fn) && fn.Blocks != nil && (fn.Synthetic == "" || fn.Name() == "init") {
			p.Funcs = append(p.Funcs, fn)
		}
	}
	sort.Slice(p.Funcs, func(i, j int) bool { return p.FuncKey(p.Funcs[i]) < p.FuncKey(p.Funcs[j]) })
	// scope = import closure of cmd/helios
	if root, ok := p.ByPath[modPath+"/cmd/helios"]; ok {
		var visit func(pk *packages.Package)
		visit = func(pk *packages.Package) {
			if p.inScope[pk.PkgPath] || !strings.HasPrefix(pk.PkgPath, modPath) {
				return
			}
			p.inScope[pk.PkgPath] = true
			for _, im := range pk.Imports {
				visit(im)
			}
		}
		visit(root)
	} else {
		return nil, fmt.Errorf("package cmd/helios not found")
	}
	p.resolveRenames()
	return p, nil
}

// typeAlias maps an actual "pkgname.TypeName" to the canonical one; typeActual is the inverse, keyed
// by "pkgpath-suffix.TypeName".
var typeAlias = map[string]string{}
var typeActual = map[string]string{}

func cleanEnv() []string {
	var out []string
	for _, kv := range os.Environ() {
		if strings.HasPrefix(kv, "GOWORK=") || strings.HasPrefix(kv, "GOFLAGS=") {
			continue
		}
		out = append(out, kv)
	}
	return append(out, "GOFLAGS=-mod=mod", "GOPROXY=off", "GOSUMDB=off", "GOTOOLCHAIN=local", "GOWORK=off")
}

// fnPkg returns the package a function (or closure) belongs to.
func fnPkg(fn *ssa.Function) *ssa.Package {
	for f := fn; f != nil; f = f.Parent() {
		if f.Pkg != nil {
			return f.Pkg
		}
	}
	if fn.Origin() != nil {
		return fnPkg(fn.Origin())
	}
	return nil
}

func (p *Program) IsHelios(fn *ssa.Function) bool {
	pk := fnPkg(fn)
	return pk != nil && pk.Pkg != nil && strings.HasPrefix(pk.Pkg.Path(), modPath)
}

// InScope reports whether fn is in the import closure of cmd/helios.
func (p *Program) InScope(fn *ssa.Function) bool {
	pk := fnPkg(fn)
	return pk != nil && p.inScope[pk.Pkg.Path()]
}

// FuncKey is the stable construct name of a function: shortpkg.(Recv).Name or parent$N.
func (p *Program) FuncKey(fn *ssa.Function) string {
	if fn == nil {
		return "<nil>"
	}
	if fn.Parent() != nil {
		// closure: parent key + $index as named by go/ssa (stable under line moves)
		name := fn.Name() // e.g. NewMux$1
		if i := strings.Index(name, "$"); i >= 0 {
			return p.FuncKey(outermost(fn)) + name[i:]
		}
		return p.FuncKey(fn.Parent()) + "$" + name
	}
	pk := fnPkg(fn)
	short := "?"
	if pk != nil {
		short = strings.TrimPrefix(pk.Pkg.Path(), modPath+"/")
		short = strings.TrimPrefix(short, "internal/")
	}
	if recv := fn.Signature.Recv(); recv != nil {
		t := recv.Type()
		ptr := ""
		if pt, ok := t.(*types.Pointer); ok {
			t = pt.Elem()
			ptr = "*"
		}
		if n, ok := t.(*types.Named); ok {
			return fmt.Sprintf("%s.(%s%s).%s", short, ptr, n.Obj().Name(), fn.Name())
		}
	}
	return short + "." + fn.Name()
}

func outermost(fn *ssa.Function) *ssa.Function {
	for fn.Parent() != nil {
		fn = fn.Parent()
	}
	return fn
}

// Fn finds a top-level function or method.  pkg is the path below the module ("internal/plugins");
// recv is "" for plain functions.
func (p *Program) Fn(pkg, recv, name string) *ssa.Function {
	sp := p.SSAPkg[modPath+"/"+pkg]
	if sp == nil {
		return nil
	}
	if recv == "" {
		return sp.Func(name)
	}
	t := sp.Type(recv)
	if t == nil {
		if actual, ok := typeActual[pkg+"."+recv]; ok {
			t = sp.Type(actual)
		}
	}
	if t == nil {
		return nil
	}
	for _, typ := range []types.Type{types.NewPointer(t.Type()), t.Type()} {
		ms := p.SSA.MethodSets.MethodSet(typ)
		for i := 0; i < ms.Len(); i++ {
			if ms.At(i).Obj().Name() == name {
				fn := p.SSA.MethodValue(ms.At(i))
				if fn != nil && fn.Synthetic == "" {
					return fn
				}
			}
		}
	}
	return nil
}

// Named returns the named type pkg.name.
func (p *Program) Named(pkg, name string) *types.Named {
	sp := p.SSAPkg[modPath+"/"+pkg]
	if sp == nil {
		return nil
	}
	t := sp.Type(name)
	if t == nil {
		if actual, ok := typeActual[pkg+"."+name]; ok {
			t = sp.Type(actual)
		}
	}
	if t == nil {
		return nil
	}
	n, _ := t.Type().(*types.Named)
	return n
}

// Pos renders a position relative to the repo root.
func (p *Program) Pos(pos token.Pos) string {
	if !pos.IsValid() {
		return "-"
	}
	ps := p.Fset.Position(pos)
	f := strings.TrimPrefix(ps.Filename, p.RepoDir+"/")
	return fmt.Sprintf("%s:%d", f, ps.Line)
}

// InstrPos gives the best position for an instruction (falls back to neighbours / function).
func (p *Program) InstrPos(in ssa.Instruction) string {
	if in == nil {
		return "-"
	}
	if in.Pos().IsValid() {
		return p.Pos(in.Pos())
	}
	if v, ok := in.(ssa.Value); ok {
		_ = v
	}
	b := in.Block()
	if b != nil {
		idx := -1
		for i, x := range b.Instrs {
			if x == in {
				idx = i
			}
		}
		for i := idx; i >= 0; i-- {
			if b.Instrs[i].Pos().IsValid() {
				return p.Pos(b.Instrs[i].Pos())
			}
		}
		for i := idx + 1; i >= 0 && i < len(b.Instrs); i++ {
			if b.Instrs[i].Pos().IsValid() {
				return p.Pos(b.Instrs[i].Pos())
			}
		}
	}
	if in.Parent() != nil {
		return p.Pos(in.Parent().Pos())
	}
	return "-"
}

// Closures returns the anonymous functions of fn, recursively, in go/ssa order.
func Closures(fn *ssa.Function) []*ssa.Function {
	var out []*ssa.Function
	for _, a := range fn.AnonFuncs {
		out = append(out, a)
		out = append(out, Closures(a)...)
	}
	return out
}
