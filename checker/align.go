package main

import (
	"fmt"
	"go/types"
	"sort"
	"strings"

	"golang.org/x/tools/go/ssa"
)

// atomic64Aligned: sync/atomic's 64-bit functions panic ("unaligned 64-bit atomic operation") on
// 386, arm and 32-bit mips when their operand is not 8-byte aligned, and the compiler aligns uint64
// fields to 4 bytes only on those platforms.  Only the first word of an allocated struct, array or
// variable is guaranteed to be 64-bit aligned (sync/atomic, "Bugs").  For every 64-bit atomic
// operation on a struct field the offset of the field from the start of its allocation, computed
// with the gc/386 layout, must be a multiple of 8.  The amd64 test suite cannot see this.
func atomic64Aligned(c *Ctx, sel func(key string) bool) int {
	p := c.P
	sizes := types.SizesFor("gc", "386")
	type agg struct {
		pos  string
		n    int
		bad  []string
		offs string
	}
	per := map[string]*agg{}
	for _, fn := range p.Funcs {
		if !p.InScope(fn) {
			continue
		}
		instrsOf(fn, func(in ssa.Instruction) {
			ci, ok := in.(ssa.CallInstruction)
			if !ok {
				return
			}
			n := CalleeName(ci)
			if !strings.HasPrefix(n, "sync/atomic.") || !(strings.HasSuffix(n, "Uint64") || strings.HasSuffix(n, "Int64")) {
				return
			}
			args := ci.Common().Args
			if len(args) == 0 {
				return
			}
			fa, ok := args[0].(*ssa.FieldAddr)
			if !ok {
				return // a variable or a lone allocation: its first word is aligned
			}
			fr, ok := fieldRefOf(fa)
			if !ok {
				return
			}
			key := fr.Key()
			if sel != nil && !sel(key) {
				return
			}
			g := per[key]
			if g == nil {
				g = &agg{pos: p.InstrPos(in)}
				per[key] = g
			}
			g.n++
			// offset from the start of the allocation: through by-value nesting
			var off int64
			var chain []string
			cur := fa
			undecided := ""
			for {
				st := structOf(cur.X.Type())
				if st == nil {
					undecided = "cannot see the struct of " + cur.X.String()
					break
				}
				var fields []*types.Var
				for i := 0; i < st.NumFields(); i++ {
					fields = append(fields, st.Field(i))
				}
				offs := sizes.Offsetsof(fields)
				off += offs[cur.Field]
				chain = append([]string{fmt.Sprintf("%s@%d", st.Field(cur.Field).Name(), offs[cur.Field])}, chain...)
				switch b := cur.X.(type) {
				case *ssa.FieldAddr:
					cur = b
					continue
				case *ssa.IndexAddr:
					// an element of a slice or array of structs: aligned like the first one only when
					// the element size keeps the alignment
					if es := sizes.Sizeof(deref(b.Type())); es%8 != 0 {
						undecided = fmt.Sprintf("element of an array whose element size %d is not a multiple of 8", es)
					}
				}
				break
			}
			g.offs = strings.Join(chain, " + ")
			if undecided != "" {
				g.bad = append(g.bad, fmt.Sprintf("%s: undecided: %s", p.InstrPos(in), undecided))
				return
			}
			if off%8 != 0 {
				g.bad = append(g.bad, fmt.Sprintf("%s: %s on a field at offset %d (%s) of its allocation under the 386/arm layout: not 8-byte aligned, the call panics with \"unaligned 64-bit atomic operation\" on 32-bit platforms", p.InstrPos(in), strings.TrimPrefix(n, "sync/atomic."), off, g.offs))
			}
		})
	}
	var keys []string
	for k := range per {
		keys = append(keys, k)
	}
	sort.Strings(keys)
	for _, k := range keys {
		g := per[k]
		if len(g.bad) == 0 {
			c.Pass("atomic64-aligned", k, g.pos, fmt.Sprintf("%d 64-bit atomic operations; the field is 8-byte aligned under the 386/arm layout (%s)", g.n, g.offs))
		} else if strings.Contains(g.bad[0], "undecided:") {
			c.Undecided("atomic64-aligned", k, g.pos, g.bad[0])
		} else {
			c.Fail("atomic64-aligned", k, g.pos, g.bad[0], g.bad...)
		}
	}
	return len(keys)
}

func deref(t types.Type) types.Type {
	if pt, ok := t.Underlying().(*types.Pointer); ok {
		return pt.Elem()
	}
	return t
}
