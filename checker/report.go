package main

import (
	"bufio"
	"encoding/json"
	"fmt"
	"golang.org/x/tools/go/ssa"
	"os"
	"path/filepath"
	"sort"
	"strings"
)

type Status int

const (
	OK Status = iota
	Violated
	Undecided // fails closed: reported like a violation with an "undecided:" detail
)

func (s Status) String() string { return [...]string{"ok", "violated", "undecided"}[s] }

// Obligation is one rule instance evaluated on one construct of /repo.
type Obligation struct {
	Rule      string   `json:"rule"`
	Construct string   `json:"construct"`
	Pos       string   `json:"pos"`
	Status    string   `json:"status"`
	Detail    string   `json:"detail"`
	Witness   []string `json:"witness,omitempty"`
	Known     bool     `json:"known_finding,omitempty"`
	st        Status
}

func (o *Obligation) Key() string { return o.Rule + " " + o.Construct }

// Ctx carries the program and collects obligations for one property run.
type Ctx struct {
	sender     *ssa.Function
	senderDone bool
	P          *Program
	Prop       string
	Obs        []*Obligation
	Stats      map[string]int // measured counters (functions analysed, call sites, …)
	Clauses    []string       // decided clauses (for the explanation)
	NotDec     []string       // clauses not decided
	Trusted    []string
	seenKeys   map[string]int
}

func NewCtx(p *Program, prop string) *Ctx {
	return &Ctx{P: p, Prop: prop, Stats: map[string]int{}, seenKeys: map[string]int{}}
}

func (c *Ctx) add(rule, construct, pos string, st Status, detail string, witness ...string) *Obligation {
	o := &Obligation{Rule: rule, Construct: construct, Pos: pos, st: st, Status: st.String(), Detail: detail, Witness: witness}
	k := o.Key()
	c.seenKeys[k]++
	if n := c.seenKeys[k]; n > 1 {
		o.Construct = fmt.Sprintf("%s#%d", construct, n)
	}
	c.Obs = append(c.Obs, o)
	return o
}

func (c *Ctx) Pass(rule, construct, pos, detail string, witness ...string) {
	c.add(rule, construct, pos, OK, detail, witness...)
}
func (c *Ctx) Fail(rule, construct, pos, detail string, witness ...string) {
	c.add(rule, construct, pos, Violated, detail, witness...)
}
func (c *Ctx) Undecided(rule, construct, pos, detail string, witness ...string) {
	c.add(rule, construct, pos, Undecided, "undecided: "+detail, witness...)
}
func (c *Ctx) Missing(rule, construct string) {
	c.add(rule, construct, "-", Undecided, "anchor-missing: construct not found in /repo (renamed or removed); the rule cannot be evaluated")
}

// Check records pass/fail from a condition.
func (c *Ctx) Check(ok bool, rule, construct, pos, okDetail, failDetail string, witness ...string) bool {
	if ok {
		c.Pass(rule, construct, pos, okDetail, witness...)
	} else {
		c.Fail(rule, construct, pos, failDetail, witness...)
	}
	return ok
}

// Floor asserts that a rule matched at least n instances (guards against vacuous passes).
func (c *Ctx) Floor(rule string, got, want int, what string) {
	construct := "floor:" + what
	if got >= want {
		c.Pass(rule, construct, "-", fmt.Sprintf("%d instances of %s analysed (floor %d)", got, what, want))
	} else {
		c.add(rule, construct, "-", Undecided, fmt.Sprintf("vacuous: only %d instances of %s found, hand-confirmed floor is %d", got, what, want))
	}
}

func (c *Ctx) Clause(s string)       { c.Clauses = append(c.Clauses, s) }
func (c *Ctx) NotDecided(s string)   { c.NotDec = append(c.NotDec, s) }
func (c *Ctx) Count(k string, n int) { c.Stats[k] += n }

// ---- known findings ------------------------------------------------------------------------

type KnownFinding struct {
	Prop, Rule, Construct, Text string
}

func ReadKnown(path string) ([]KnownFinding, []string, error) {
	f, err := os.Open(path)
	if err != nil {
		if os.IsNotExist(err) {
			return nil, nil, nil
		}
		return nil, nil, err
	}
	defer f.Close()
	var out []KnownFinding
	var fixed []string
	sc := bufio.NewScanner(f)
	sc.Buffer(make([]byte, 1<<20), 1<<20)
	for sc.Scan() {
		line := strings.TrimSpace(sc.Text())
		if line == "" || strings.HasPrefix(line, "#") {
			continue
		}
		if strings.HasPrefix(line, "fixed:") {
			fixed = append(fixed, line)
			continue
		}
		if !strings.HasPrefix(line, "known:") {
			return nil, nil, fmt.Errorf("known-findings: unrecognised line %q", line)
		}
		rest := strings.TrimSpace(strings.TrimPrefix(line, "known:"))
		kf := KnownFinding{}
		for _, key := range []string{"property=", "rule=", "construct="} {
			if !strings.HasPrefix(rest, key) {
				return nil, nil, fmt.Errorf("known-findings: expected %s in %q", key, line)
			}
			rest = strings.TrimPrefix(rest, key)
			i := strings.IndexByte(rest, ' ')
			val := rest
			if i >= 0 {
				val, rest = rest[:i], strings.TrimSpace(rest[i+1:])
			} else {
				rest = ""
			}
			switch key {
			case "property=":
				kf.Prop = val
			case "rule=":
				kf.Rule = val
			case "construct=":
				kf.Construct = val
			}
		}
		kf.Text = rest
		out = append(out, kf)
	}
	return out, fixed, sc.Err()
}

// ---- evidence --------------------------------------------------------------------------------

type Evidence struct {
	PropertyID  string                 `json:"property_id"`
	Tier        string                 `json:"tier"`
	Seed        int64                  `json:"seed"`
	Level       string                 `json:"level"`
	Coverage    map[string]interface{} `json:"coverage"`
	Assumptions []string               `json:"assumptions"`
	WallS       float64                `json:"wall_s"`
	Violations  int                    `json:"violations"`
}

// Finish applies known findings, prints the verdict lines, writes evidence + replay files and
// returns the process exit code.
func (c *Ctx) Finish(verifDir, tier string, seed int64, wall float64, extra map[string]interface{}) int {
	known, fixed, err := ReadKnown(filepath.Join(verifDir, "known-findings.txt"))
	if err != nil {
		fmt.Println("BROKEN-CHECK:", err)
		return 2
	}
	sort.SliceStable(c.Obs, func(i, j int) bool {
		if c.Obs[i].Rule != c.Obs[j].Rule {
			return c.Obs[i].Rule < c.Obs[j].Rule
		}
		return c.Obs[i].Construct < c.Obs[j].Construct
	})
	replayDir := filepath.Join(verifDir, "evidence", "replay")
	_ = os.MkdirAll(replayDir, 0o755)
	old, _ := filepath.Glob(filepath.Join(replayDir, c.Prop+"-*.json"))
	for _, f := range old {
		_ = os.Remove(f)
	}
	nViol, nKnown, nOK := 0, 0, 0
	distinct := map[string]bool{}
	var samples []interface{}
	ruleCounts := map[string]int{}
	var knownLines []string
	usedKnown := map[int]bool{}
	for _, o := range c.Obs {
		ruleCounts[o.Rule]++
		if len(o.Witness) > 0 || o.Pos != "-" {
			distinct[o.Key()] = true
		}
		if o.st == OK {
			nOK++
			continue
		}
		matched := false
		for i, k := range known {
			if k.Prop == c.Prop && k.Rule == o.Rule && k.Construct == o.Construct && o.st == Violated {
				matched = true
				usedKnown[i] = true
				o.Known = true
				line := fmt.Sprintf("KNOWN-FINDING: property=%s rule=%s construct=%s %s [%s] %s", c.Prop, o.Rule, o.Construct, o.Pos, o.Detail, k.Text)
				knownLines = append(knownLines, line)
				fmt.Println(line)
				break
			}
		}
		if matched {
			nKnown++
			continue
		}
		nViol++
		rp := filepath.Join(replayDir, fmt.Sprintf("%s-%d.json", c.Prop, nViol))
		b, _ := json.MarshalIndent(map[string]interface{}{
			"property": c.Prop, "rule": o.Rule, "construct": o.Construct, "pos": o.Pos,
			"status": o.Status, "detail": o.Detail, "witness": o.Witness,
			"replay_cmd": fmt.Sprintf("bin/helioscheck -prop %s -replay %s", c.Prop, rp),
		}, "", " ")
		_ = os.WriteFile(rp, b, 0o644)
		fmt.Printf("  %s %s @ %s: %s\n", o.Rule, o.Construct, o.Pos, o.Detail)
		for _, w := range o.Witness {
			fmt.Printf("      %s\n", w)
		}
		fmt.Printf("VIOLATION property=%s replay=%s\n", c.Prop, rp)
	}
	// samples: a spread of actual obligations (first of each rule, then all non-ok)
	seenRule := map[string]int{}
	for _, o := range c.Obs {
		if seenRule[o.Rule] < 2 || o.st != OK {
			seenRule[o.Rule]++
			samples = append(samples, o)
		}
	}
	for i, k := range known {
		if k.Prop == c.Prop && !usedKnown[i] {
			fmt.Printf("NOTE: listed finding no longer reported (repaired?): rule=%s construct=%s\n", k.Rule, k.Construct)
		}
	}
	expl := fmt.Sprintf("Static analysis of /repo's type-checked SSA (go/packages+go/ssa+VTA call graph); nothing is executed. "+
		"Decided clauses (each a structural necessary condition of %s): %s. NOT decided (left to dynamic techniques): %s.",
		c.Prop, strings.Join(c.Clauses, " | "), strings.Join(c.NotDec, " | "))
	cov := map[string]interface{}{
		"explanation":         expl,
		"obligations":         len(c.Obs),
		"discharged":          nOK,
		"known_findings":      nKnown,
		"evaluations":         len(c.Obs),
		"distinct_nontrivial": len(distinct),
		"rule":                "one obligation per (rule, construct) instance found in the current sources; non-trivial = anchored at a source position or carrying a witness path; distinct by rule+construct key",
		"samples":             samples,
		"rule_instances":      ruleCounts,
		"stats":               c.Stats,
		"packages":            len(c.P.Pkgs),
		"functions_loaded":    len(c.P.Funcs),
		"trusted_base":        append([]string{"go/types, go/ssa, x/tools VTA call graph (v0.29.0)", "net/http, net/http/httputil, sync, sync/atomic, compress/gzip behave as documented"}, c.Trusted...),
		"checker_cmd":         fmt.Sprintf("bin/helioscheck -prop %s -tier %s", c.Prop, tier),
		"known_finding_lines": knownLines,
		"fixed_entries":       fixed,
		"exhaustive":          false,
	}
	for k, v := range extra {
		cov[k] = v
	}
	ev := Evidence{PropertyID: c.Prop, Tier: tier, Seed: seed, Level: "other", Coverage: cov,
		Assumptions: []string{
			"only the clauses listed in coverage.explanation are decided; the behavioural property as a whole is not proven",
			"standard library and third-party packages are trusted as specified",
			"lock identity is by class (type.field) refined by access path where comparable",
		}, WallS: wall, Violations: nViol}
	b, _ := json.MarshalIndent(ev, "", " ")
	_ = os.MkdirAll(filepath.Join(verifDir, "evidence"), 0o755)
	if err := os.WriteFile(filepath.Join(verifDir, "evidence", c.Prop+".json"), b, 0o644); err != nil {
		fmt.Println("BROKEN-CHECK: cannot write evidence:", err)
		return 2
	}
	fmt.Printf("%s: %d obligations, %d discharged, %d known findings, %d violations (%.1fs, tier %s)\n", c.Prop, len(c.Obs), nOK, nKnown, nViol, wall, tier)
	if nViol > 0 {
		return 1
	}
	return 0
}
