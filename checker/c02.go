package main

import (
	"fmt"
	"go/token"
	"go/types"
	"sort"
	"strings"

	"golang.org/x/tools/go/ssa"
)

func init() {
	registry["C02"] = checkC02
	registry["C04"] = checkC04
}

const beT = "loadbalancer.Backend."

// strategyImpls discovers the concrete types implementing loadbalancer.Strategy.
func (c *Ctx) strategyImpls() []*types.Named {
	p := c.P
	sp := p.SSAPkg[modPath+"/internal/loadbalancer"]
	if sp == nil {
		return nil
	}
	st := sp.Type("Strategy")
	if st == nil {
		return nil
	}
	iface, ok := st.Type().Underlying().(*types.Interface)
	if !ok {
		return nil
	}
	var out []*types.Named
	for _, m := range sp.Members {
		t, ok := m.(*ssa.Type)
		if !ok {
			continue
		}
		n, ok := t.Type().(*types.Named)
		if !ok || types.IsInterface(n) {
			continue
		}
		if types.Implements(types.NewPointer(n), iface) {
			out = append(out, n)
		}
	}
	sort.Slice(out, func(i, j int) bool { return out[i].Obj().Name() < out[j].Obj().Name() })
	return out
}

// healthTrue reports whether cond, on the edge with polarity pol, establishes that a backend's raw
// health flag (or a predicate over it) is true; it returns the backend value tested.
func (c *Ctx) healthTrue(cond ssa.Value, pol bool) (ssa.Value, bool) {
	for {
		u, ok := cond.(*ssa.UnOp)
		if !ok || u.Op.String() != "!" {
			break
		}
		pol = !pol
		cond = u.X
	}
	if !pol {
		return nil, false
	}
	// direct flag read
	if fr, ok := LoadedField(cond); ok && fr.Key() == beT+"IsHealthy" {
		return fr.Base, true
	}
	// predicate call: (*Backend).healthy-like accessor or LoadBalancer.IsBackendHealthy
	if call, ok := cond.(*ssa.Call); ok {
		if fn := StaticFn(call); fn != nil && c.P.IsHelios(fn) {
			if fn.Name() == "IsBackendHealthy" && len(call.Call.Args) == 2 {
				return call.Call.Args[1], true
			}
			if c.isHealthAccessor(fn) && len(call.Call.Args) >= 1 {
				return call.Call.Args[0], true
			}
		}
	}
	return nil, false
}

// isHealthAccessor: a method on *Backend whose every return value is the IsHealthy flag read under
// the backend's lock.
func (c *Ctx) isHealthAccessor(fn *ssa.Function) bool {
	if fn.Signature.Recv() == nil || QualType(namedOf(fn.Signature.Recv().Type())) != "loadbalancer.Backend" {
		return false
	}
	if fn.Signature.Results().Len() != 1 {
		return false
	}
	ok := true
	found := false
	li := c.P.Locks()
	instrsOf(fn, func(in ssa.Instruction) {
		if r, isRet := in.(*ssa.Return); isRet {
			found = true
			v := r.Results[0]
			if u, isLoad := v.(*ssa.UnOp); isLoad {
				if a, isAlloc := u.X.(*ssa.Alloc); isAlloc { // spilled result
					if refs := a.Referrers(); refs != nil {
						for _, rr := range *refs {
							if st, isSt := rr.(*ssa.Store); isSt && st.Addr == a {
								v = st.Val
							}
						}
					}
				}
			}
			fr, isF := LoadedField(v)
			if !isF || fr.Key() != beT+"IsHealthy" {
				ok = false
				return
			}
			if ld, isIn := v.(ssa.Instruction); isIn {
				if li.Fns[fn] == nil || li.Fns[fn].Must[ld].HoldsClass(beT+"Mutex") == 0 {
					ok = false
				}
			}
		}
	})
	return ok && found
}

// healthyRegions returns, for fn, the blocks dominated by an edge on which some backend value was
// found healthy, mapped to that value.
func (c *Ctx) healthyRegions(fn *ssa.Function) map[*ssa.BasicBlock][]ssa.Value {
	out := map[*ssa.BasicBlock][]ssa.Value{}
	for _, b := range fn.Blocks {
		if len(b.Instrs) == 0 {
			continue
		}
		ifi, ok := b.Instrs[len(b.Instrs)-1].(*ssa.If)
		if !ok {
			continue
		}
		for si, pol := range []bool{true, false} {
			v, ok := c.healthTrue(ifi.Cond, pol)
			if !ok {
				continue
			}
			succ := b.Succs[si]
			if len(succ.Preds) != 1 {
				continue
			}
			for _, d := range fn.Blocks {
				if succ.Dominates(d) {
					out[d] = append(out[d], v)
				}
			}
		}
	}
	return out
}

// guardedBackend: v (a *Backend, or a carrier of one) is selected only from health-guarded
// candidates.
func (c *Ctx) guardedBackend(v ssa.Value, regions map[*ssa.BasicBlock][]ssa.Value, seen map[ssa.Value]bool, why *[]string) bool {
	if seen[v] {
		return true
	}
	seen[v] = true
	switch x := v.(type) {
	case *ssa.Const:
		return x.Value == nil
	case *ssa.Phi:
		for i, e := range x.Edges {
			if e == x {
				continue
			}
			if isConstNil(e) {
				continue
			}
			pred := x.Block().Preds[i]
			if len(regions[pred]) > 0 {
				continue // assigned under a health guard
			}
			if !c.guardedBackend(e, regions, seen, why) {
				return false
			}
		}
		return true
	case *ssa.UnOp:
		switch a := x.X.(type) {
		case *ssa.FieldAddr: // carrier.field (weightedBackend.backend)
			return c.guardedBackend(a.X, regions, seen, why)
		case *ssa.IndexAddr: // slice[i]
			return c.guardedSlice(a.X, regions, map[ssa.Value]bool{}, why)
		case *ssa.Alloc: // local cell
			ok := true
			if refs := a.Referrers(); refs != nil {
				for _, r := range *refs {
					if st, isSt := r.(*ssa.Store); isSt && st.Addr == a && !isConstNil(st.Val) {
						if len(regions[st.Block()]) > 0 {
							continue
						}
						if !c.guardedBackend(st.Val, regions, seen, why) {
							ok = false
						}
					}
				}
			}
			return ok
		}
	case *ssa.Extract, *ssa.Next:
	}
	*why = append(*why, fmt.Sprintf("value %s (%T) is not selected under a health test", c.P.Desc(v, nil), v))
	return false
}

// guardedSlice: every element appended to the slice was appended under a health guard.
func (c *Ctx) guardedSlice(s ssa.Value, regions map[*ssa.BasicBlock][]ssa.Value, seen map[ssa.Value]bool, why *[]string) bool {
	if seen[s] {
		return true
	}
	seen[s] = true
	switch x := s.(type) {
	case *ssa.MakeSlice, *ssa.Alloc:
		return true // a fresh, empty candidate list
	case *ssa.Slice:
		return c.guardedSlice(x.X, regions, seen, why)
	case *ssa.Phi:
		for _, e := range x.Edges {
			if !c.guardedSlice(e, regions, seen, why) {
				return false
			}
		}
		return true
	case *ssa.Call:
		if CalleeName(x) == "builtin:append" {
			if len(regions[x.Block()]) == 0 {
				*why = append(*why, c.P.InstrPos(x)+": candidate appended without a health test")
				return false
			}
			return c.guardedSlice(x.Call.Args[0], regions, seen, why)
		}
		// a shared helper that returns the health-filtered copy of a pool
		if h := StaticFn(x); h != nil && c.P.IsHelios(h) && h.Blocks != nil && h.Signature.Results().Len() == 1 {
			hr := c.healthyRegions(h)
			ok, n := true, 0
			instrsOf(h, func(in ssa.Instruction) {
				if r, isRet := in.(*ssa.Return); isRet && len(r.Results) == 1 {
					n++
					if isConstNil(r.Results[0]) {
						return
					}
					if !c.guardedSlice(r.Results[0], hr, map[ssa.Value]bool{}, why) {
						ok = false
					}
				}
			})
			if n > 0 && ok {
				return true
			}
		}
	}
	*why = append(*why, fmt.Sprintf("candidate slice %s is not built from health-tested backends", c.P.Desc(s, nil)))
	return false
}

// strategyHealthGuard: C02 clause 3 (sibling agreement over the Strategy implementations).
func (c *Ctx) strategyHealthGuard(only ...string) {
	p := c.P
	impls := c.strategyImpls()
	c.Floor("strategy-health-guard", len(impls), 5, "Strategy implementations")
	// alternative: exhaustive fallback in findHealthyBackend
	fallback := false
	if fh := p.Fn("internal/loadbalancer", "LoadBalancer", "findHealthyBackend"); fh != nil {
		for _, ci := range callsIn(fh) {
			if strings.HasSuffix(CalleeName(ci), "Strategy).GetBackends") {
				fallback = true
			}
		}
	}
	for _, n := range impls {
		if len(only) > 0 && !contains(only, n.Obj().Name()) {
			continue
		}
		fn := p.Fn("internal/loadbalancer", n.Obj().Name(), "NextBackend")
		construct := "loadbalancer.(*" + n.Obj().Name() + ").NextBackend"
		if fn == nil {
			c.Missing("strategy-health-guard", construct)
			continue
		}
		regions := c.healthyRegions(fn)
		var why []string
		ok := true
		nRet := 0
		instrsOf(fn, func(in ssa.Instruction) {
			r, isRet := in.(*ssa.Return)
			if !isRet || len(r.Results) != 1 {
				return
			}
			nRet++
			if !c.guardedBackend(r.Results[0], regions, map[ssa.Value]bool{}, &why) {
				ok = false
			}
		})
		if ok || fallback {
			d := fmt.Sprintf("every non-nil result of %d return sites is chosen among health-tested candidates", nRet)
			if !ok {
				d = "findHealthyBackend scans all backends after the strategy picks"
			}
			c.Pass("strategy-health-guard", construct, p.Pos(fn.Pos()), d)
		} else {
			c.Fail("strategy-health-guard", construct, p.Pos(fn.Pos()),
				"strategy can propose an ejected backend and findHealthyBackend has no exhaustive fallback: after three such picks the client gets 503 although another backend is healthy", why...)
		}
	}
}

// selectionComplete: a strategy that saw a candidate pass the health test does not answer nil.
func (c *Ctx) selectionComplete(only ...string) {
	p := c.P
	for _, n := range c.strategyImpls() {
		if len(only) > 0 && !contains(only, n.Obj().Name()) {
			continue
		}
		fn := p.Fn("internal/loadbalancer", n.Obj().Name(), "NextBackend")
		construct := "loadbalancer.(*" + n.Obj().Name() + ").NextBackend"
		sp := &Spec{Cond: p.anyCondLabel(), Expand: func(*ssa.Function, ssa.CallInstruction) bool { return false }}
		c.traceRule("selection-complete", construct, fn, sp,
			"on no path does the strategy return nil after a candidate passed the health test",
			func(t *Trace) string {
				if len(t.Ret) != 1 || t.Ret[0].K != ANil {
					return ""
				}
				for _, it := range t.Items {
					if ifi, ok := it.Instr.(*ssa.If); ok {
						if _, healthy := c.healthTrue(ifi.Cond, it.Pol); healthy {
							return "the strategy answers 'no backend' although a candidate passed the health test on this path: the client gets 503 while a backend is healthy"
						}
					}
				}
				return ""
			})
	}
}

// probeIndexCoversPool: a strategy that walks the pool from a client's slot ((h+i) mod n for
// i = 0..n-1) visits every slot only if h+i does not wrap: computed at the width of a full-range hash
// the sum overflows for clients whose hash lies in the top n-1 values, and for pool sizes that do not
// divide 2^32 the walk then skips slots — such a client is answered "no backend" while an unvisited
// backend is healthy.  Every modulo whose dividend is a sum must not add to an unreduced hash value.
func (c *Ctx) probeIndexCoversPool() {
	p := c.P
	isHash := func(v ssa.Value) bool {
		for i := 0; i < 6; i++ {
			switch x := v.(type) {
			case *ssa.Convert:
				v = x.X
				continue
			case *ssa.ChangeType:
				v = x.X
				continue
			case *ssa.Call:
				n := CalleeName(x)
				return strings.HasSuffix(n, ".Sum32") || strings.HasSuffix(n, ".Sum64") || strings.HasSuffix(n, "ChecksumIEEE")
			}
			break
		}
		return false
	}
	n := 0
	for _, nt := range c.strategyImpls() {
		fn := p.Fn("internal/loadbalancer", nt.Obj().Name(), "NextBackend")
		if fn == nil {
			continue
		}
		construct := "loadbalancer.(*" + nt.Obj().Name() + ").NextBackend"
		n++
		var bad []string
		fns := append([]*ssa.Function{fn}, fn.AnonFuncs...)
		for _, f := range fns {
			instrsOf(f, func(in ssa.Instruction) {
				rem, ok := in.(*ssa.BinOp)
				if !ok || rem.Op != token.REM {
					return
				}
				sum, ok := rem.X.(*ssa.BinOp)
				if !ok || sum.Op != token.ADD {
					return
				}
				b, isBasic := sum.Type().Underlying().(*types.Basic)
				if !isBasic || b.Info()&types.IsUnsigned == 0 {
					return
				}
				if isHash(sum.X) || isHash(sum.Y) {
					bad = append(bad, fmt.Sprintf("%s: (hash + offset) %% n is computed at the hash's own width: for hash values within n-1 of the maximum the sum wraps before the modulo, the walk over the pool then skips slots when n does not divide 2^%d, and the client is answered 'no backend' although an unvisited backend is healthy (reduce the hash first: (hash %% n + offset) %% n)", p.InstrPos(rem), 8*int(types.SizesFor("gc", "amd64").Sizeof(b))))
				}
			})
		}
		// a walk over the pool whose successive indices each come from a fresh read-modify-write of a
		// shared cursor is a lap only for one goroutine at a time: with overlapping picks the other
		// requests' increments fall between this request's probes, the walk can land on ejected backends
		// only, and the client is answered 'no backend' although an unvisited backend is healthy
		for _, f := range fns {
			instrsOf(f, func(in ssa.Instruction) {
				var idx ssa.Value
				switch x := in.(type) {
				case *ssa.IndexAddr:
					idx = x.Index
				case *ssa.Index:
					idx = x.Index
				default:
					return
				}
				loops := enclosingLoops(in.Block())
				if len(loops) == 0 {
					return
				}
				var rmw *ssa.Call
				var walk func(v ssa.Value, depth int)
				seen := map[ssa.Value]bool{}
				walk = func(v ssa.Value, depth int) {
					if v == nil || depth > 8 || seen[v] || rmw != nil {
						return
					}
					seen[v] = true
					switch x := v.(type) {
					case *ssa.Convert:
						walk(x.X, depth+1)
					case *ssa.ChangeType:
						walk(x.X, depth+1)
					case *ssa.BinOp:
						walk(x.X, depth+1)
						walk(x.Y, depth+1)
					case *ssa.Phi:
						for _, e := range x.Edges {
							walk(e, depth+1)
						}
					case *ssa.Call:
						n := CalleeName(x)
						if strings.HasPrefix(n, "sync/atomic.Add") || (strings.HasPrefix(n, "(*sync/atomic.") && strings.HasSuffix(n, ").Add")) {
							rmw = x
						}
					}
				}
				walk(idx, 0)
				if rmw == nil {
					return
				}
				for _, h := range enclosingLoops(rmw.Block()) {
					for _, h2 := range loops {
						if h == h2 {
							bad = append(bad, fmt.Sprintf("%s: inside the loop that walks the pool, each index is taken from a fresh atomic increment of a shared cursor (%s): the increments of overlapping picks fall between this request's probes, so its 'lap' need not visit every slot and it can answer 'no backend' although an unvisited backend is healthy (take the cursor once, before the loop, and add the loop's own counter)", p.InstrPos(in), p.InstrPos(rmw)))
							return
						}
					}
				}
			})
		}
		if len(bad) == 0 {
			c.Pass("selection-complete", construct+"/index-arithmetic", p.Pos(fn.Pos()), "no pool index is computed as (unreduced hash + offset) mod n, and no walk over the pool draws each index from a shared cursor inside the loop")
		} else {
			c.Fail("selection-complete", construct+"/index-arithmetic", p.Pos(fn.Pos()), bad[0], bad...)
		}
	}
	c.Floor("selection-complete", n, 5, "strategy selections examined for index arithmetic")
}

func checkC02(c *Ctx) {
	p := c.P
	c.Clause("the backend handed to proxyRequest is the result of findHealthyBackend, and every non-nil result of findHealthyBackend passed IsBackendHealthy(thatBackend)")
	c.Clause("IsBackendHealthy returns true only when the flag was read true or the unhealthy window was found expired (now > UnhealthyUntil) under the write lock")
	c.Clause("every Strategy implementation proposes only health-tested backends (or findHealthyBackend falls back to an exhaustive scan)")
	c.Clause("handleRequest answers 503 only on the no-backend edge and that edge never reaches the proxy")
	c.Clause("every pick is preceded, unconditionally, by the re-examination of expired unhealthy windows (no throttle or debounce between an expiry and the next pick)")
	c.Clause("the health flag is set to true only where the unhealthy window was found expired under the backend's write lock (a probe's 200 or a helper without that test never re-admits); every ejection stores a new window")
	c.Clause("each strategy's selection returns a backend whenever one candidate passed the health test (no early nil, no index past the end)")
	c.Clause("a backend the strategy proposed and IsBackendHealthy accepted is the one the request goes to: nothing but the health test makes findHealthyBackend ask again or give up")
	c.NotDecided("that the specific pick is right for a given history/rotation; races between the check and the dispatch (the property's own 'moment of dispatch')")

	c.dispatchGuard()
	c.eligibilityPredicate()
	c.ejectorTotal()
	c.strategyHealthGuard()
	c.selectionComplete()
	c.probeIndexCoversPool()
	c.healthyPickIsTaken()
	// "503 only when none is healthy" includes backends whose window has just expired: the strategies
	// filter on the raw flag, so every pick is preceded by the expiry re-examination (shared with C04)
	c.recoveryIndependent()
	c.readmissionOnlyByExpiry()

	// the function in which the proxied backend is chosen: the forwarding function itself, or — when
	// the backend is handed to it as a parameter — its caller
	sp := c.lbSpec()
	var handle *ssa.Function
	var proxied ssa.Value
	if pf := c.proxyFn(); pf != nil {
		handle = pf
		instrsOf(pf, func(in ssa.Instruction) {
			ci, ok := in.(ssa.CallInstruction)
			if !ok || CalleeName(ci) != "(*net/http/httputil.ReverseProxy).ServeHTTP" {
				return
			}
			if ld, ok := stripConv(ci.Common().Args[0]).(*ssa.UnOp); ok {
				if fa, ok := ld.X.(*ssa.FieldAddr); ok {
					proxied = stripConv(fa.X)
				}
			}
		})
		for hops := 0; hops < 3; hops++ {
			proxied = singleStore(proxied)
			prm, isParam := proxied.(*ssa.Parameter)
			if !isParam {
				break
			}
			idx := -1
			for i, q := range handle.Params {
				if q == prm {
					idx = i
				}
			}
			var caller *ssa.Function
			var arg ssa.Value
			for _, f := range p.Funcs {
				if !p.InScope(f) {
					continue
				}
				for _, ci := range callsIn(f) {
					if StaticFn(ci) == handle && idx >= 0 && idx < len(ci.Common().Args) {
						caller, arg = f, stripConv(ci.Common().Args[idx])
					}
				}
			}
			if caller == nil {
				break
			}
			handle, proxied = caller, arg
		}
	}
	isNilTest := func(cond ssa.Value) bool {
		b, ok := cond.(*ssa.BinOp)
		if !ok || (b.Op != token.EQL && b.Op != token.NEQ) || proxied == nil {
			return false
		}
		return (singleStore(b.X) == proxied && isConstNil(b.Y)) || (singleStore(b.Y) == proxied && isConstNil(b.X))
	}
	sp.Cond = func(in *ssa.If, fr *Frame) string {
		if fr != nil && fr.Fn == handle && isNilTest(in.Cond) {
			return "backend-nil-test"
		}
		return ""
	}
	c.traceRule("unavailable-only-without-backend", "loadbalancer.(*LoadBalancer).handleRequest", handle, sp,
		"503 is written exactly on the backend==nil edge, which never reaches the proxy; the non-nil edge proxies and writes no error itself",
		func(t *Trace) string {
			var r Rel
			ok := false
			for _, it := range t.Items {
				if it.Label == "backend-nil-test" {
					r, ok = c.condRel(it), true
				}
			}
			if !ok {
				return "undecided: the backend that is proxied is not tested against nil on this path"
			}
			isNil := !r.Neq && r.Lo == 0 && r.Hi == 0
			if isNil {
				if !t.Has("status:503") {
					return "no healthy backend but no 503 written"
				}
				if t.Has("proxy") {
					return "proxying with a nil backend"
				}
			} else {
				if !t.Has("proxy") {
					return "a healthy backend was found but the request is not proxied"
				}
				for _, it := range t.Items {
					if strings.HasPrefix(it.Label, "status:") && it.Frame != nil && it.Frame.Fn.Name() == "handleRequest" {
						return "error response written although a healthy backend was found"
					}
				}
			}
			return ""
		})
}

// dispatchGuard: C02 clause 1.
func (c *Ctx) dispatchGuard() {
	p := c.P
	// Every backend handed to proxyRequest passed IsBackendHealthy(that very value) on the way: the
	// value is followed back through φs, local cells and helper returns (findHealthyBackend or whatever
	// the selection loop is called, or inlined) until a site dominated by the true edge of the test.
	regionsOf := map[*ssa.Function]map[*ssa.BasicBlock][]ssa.Value{}
	regions := func(fn *ssa.Function) map[*ssa.BasicBlock][]ssa.Value {
		if r, ok := regionsOf[fn]; ok {
			return r
		}
		r := c.healthyRegions(fn)
		regionsOf[fn] = r
		return r
	}
	tested := func(fn *ssa.Function, v ssa.Value, at *ssa.BasicBlock) bool {
		for _, hv := range regions(fn)[at] {
			if hv == v {
				return true
			}
		}
		return false
	}
	var guarded func(fn *ssa.Function, v ssa.Value, at *ssa.BasicBlock, depth int, seen map[ssa.Value]bool, why *[]string) bool
	guarded = func(fn *ssa.Function, v ssa.Value, at *ssa.BasicBlock, depth int, seen map[ssa.Value]bool, why *[]string) bool {
		v = stripConv(v)
		if isConstNil(v) || tested(fn, v, at) {
			return true
		}
		if seen[v] || depth > 6 {
			return seen[v]
		}
		seen[v] = true
		switch x := v.(type) {
		case *ssa.Parameter:
			// handed in by the callers: every call site must deliver a guarded value
			idx := -1
			for i, q := range fn.Params {
				if q == x {
					idx = i
				}
			}
			n := 0
			okAll := true
			for _, caller := range p.Funcs {
				if !p.InScope(caller) {
					continue
				}
				for _, ci := range callsIn(caller) {
					if StaticFn(ci) != fn || idx < 0 {
						continue
					}
					args := ci.Common().Args
					if idx >= len(args) {
						continue
					}
					n++
					if !guarded(caller, args[idx], ci.Block(), depth+1, map[ssa.Value]bool{}, why) {
						okAll = false
					}
				}
			}
			return n > 0 && okAll
		case *ssa.FreeVar:
			// captured by a closure (deferred accounting, …): resolve to the binding in the parent
			if par := fn.Parent(); par != nil {
				for i, fv := range fn.FreeVars {
					if fv != x {
						continue
					}
					okAll, n := true, 0
					instrsOf(par, func(in ssa.Instruction) {
						if mc, isMC := in.(*ssa.MakeClosure); isMC && mc.Fn == ssa.Value(fn) && i < len(mc.Bindings) {
							n++
							if !guarded(par, mc.Bindings[i], mc.Block(), depth+1, map[ssa.Value]bool{}, why) {
								okAll = false
							}
						}
					})
					return n > 0 && okAll
				}
			}
		case *ssa.Phi:
			for i, e := range x.Edges {
				if e == ssa.Value(x) {
					continue
				}
				if !guarded(fn, e, x.Block().Preds[i], depth+1, seen, why) {
					return false
				}
			}
			return true
		case *ssa.UnOp:
			if cell, ok := x.X.(*ssa.Alloc); ok && cell.Referrers() != nil {
				n := 0
				for _, r := range *cell.Referrers() {
					if st, isSt := r.(*ssa.Store); isSt && st.Addr == ssa.Value(cell) {
						n++
						if !guarded(fn, st.Val, st.Block(), depth+1, seen, why) {
							return false
						}
					}
				}
				return n > 0
			}
		case *ssa.Call:
			h := StaticFn(x)
			if h != nil && p.IsHelios(h) && h.Blocks != nil && h.Signature.Results().Len() == 1 && h.Name() != "NextBackend" {
				ok, n := true, 0
				instrsOf(h, func(in ssa.Instruction) {
					if r, isRet := in.(*ssa.Return); isRet && len(r.Results) == 1 {
						n++
						if !guarded(h, r.Results[0], r.Block(), depth+1, map[ssa.Value]bool{}, why) {
							ok = false
						}
					}
				})
				return ok && n > 0
			}
		}
		*why = append(*why, p.Desc(v, nil)+" reaches the proxy without IsBackendHealthy(that backend) having been true on the path")
		return false
	}
	nSites := 0
	for _, fn := range p.Funcs {
		if !p.InScope(fn) {
			continue
		}
		for _, ci := range callsIn(fn) {
			if CalleeName(ci) != "(*net/http/httputil.ReverseProxy).ServeHTTP" {
				continue
			}
			// the backend whose proxy is invoked: x in x.ReverseProxy.ServeHTTP(…)
			var be ssa.Value
			if ld, ok := stripConv(ci.Common().Args[0]).(*ssa.UnOp); ok {
				if fa, ok := ld.X.(*ssa.FieldAddr); ok {
					if f, ok := fieldRefOf(fa); ok && f.Key() == "loadbalancer.Backend.ReverseProxy" {
						be = fa.X
					}
				}
			}
			nSites++
			construct := p.FuncKey(outermost(fn)) + "/proxied-backend"
			if be == nil {
				c.Undecided("dispatch-guard", construct, p.InstrPos(ci), "cannot identify the backend whose ReverseProxy is invoked")
				continue
			}
			var why []string
			if guarded(fn, be, ci.Block(), 0, map[ssa.Value]bool{}, &why) {
				c.Pass("dispatch-guard", construct, p.InstrPos(ci), "the proxied backend passed IsBackendHealthy(that backend) on every path that delivers it")
			} else {
				if len(why) == 0 {
					why = []string{"the proxied backend is not shown to have passed the health test"}
				}
				c.Fail("dispatch-guard", construct, p.InstrPos(ci), why[0], why...)
			}
		}
	}
	c.Floor("dispatch-guard", nSites, 1, "ReverseProxy.ServeHTTP call sites")
}

// healthSpec: events on Backend health state.
func (c *Ctx) healthSpec() *Spec {
	p := c.P
	return &Spec{
		Event: func(in ssa.Instruction, fr *Frame) string {
			if k, st := storeKey(in); strings.HasPrefix(k, beT) {
				return "store " + strings.TrimPrefix(k, beT) + " := " + p.Desc(st.Val, fr)
			}
			if mu, ok := in.(*ssa.MapUpdate); ok {
				return "mapupd " + p.Desc(mu.Map, fr) + "[" + p.Desc(mu.Key, fr) + "] := " + p.Desc(mu.Value, fr)
			}
			ci, ok := in.(ssa.CallInstruction)
			if !ok {
				return ""
			}
			n := CalleeName(ci)
			if op, ok := asLockOp(ci); ok && (op.Class == beT+"Mutex" || strings.HasSuffix(op.Class, "unhealthyBackendMu")) {
				cls := "be"
				if op.Class != beT+"Mutex" {
					cls = "cnt"
				}
				if op.Acquire {
					return "lock:" + cls + ":" + string(op.Mode)
				}
				return "unlock:" + cls + ":" + string(op.Mode)
			}
			args := CallArgs(ci)
			switch {
			case strings.HasSuffix(n, "MetricsCollector).UpdateBackendHealth"):
				return "mirror(" + p.Desc(args[0], fr) + "," + p.Desc(args[1], fr) + ")"
			case strings.HasSuffix(n, "LoadBalancer).MarkBackendUnhealthy"):
				return "mark-unhealthy(" + p.Desc(args[1], fr) + ")"
			case c.probeSender() != nil && StaticFn(ci) == c.probeSender() && c.probeSender() != c.probeRoot():
				return "probe"
			case n == "net/http.NewRequestWithContext" && (c.probeSender() == nil || c.probeSender() == c.probeRoot()) && strings.Contains(p.Desc(args[0], fr), "LoadBalancer.ctx"):
				return "probe" // the probe is built and sent inline
			case strings.HasSuffix(n, "LoadBalancer).handlePassiveHealthCheck"):
				return "passive-check"
			}
			return ""
		},
		Cond: func(in *ssa.If, fr *Frame) string {
			d := p.Desc(in.Cond, fr)
			mention := []string{"Backend.IsHealthy", "Backend.UnhealthyUntil", "unhealthyBackends", "passiveThreshold", "passiveEnabled", "StatusCode", "statusCode", "performHealthCheck", "metricsCollector", "NewRequestWithContext(", "http.Client).Do(", "Request).Context("}
			if ps := c.probeSender(); ps != nil {
				mention = append(mention, ps.Name()+"(")
			}
			if r := p.RelOf(in.Cond, true, fr); r.OK && r.Pred == "" && r.Y == "" && ((r.Lo == 500 && r.Hi == posInf) || (r.Lo == negInf && r.Hi == 499)) {
				return "if " + d
			}
			for _, s := range mention {
				if strings.Contains(d, s) {
					return "if " + d
				}
			}
			if derivesFromRequestContext(in.Cond, map[ssa.Value]bool{}, 0) {
				return "if " + d
			}
			return ""
		},
		Expand: func(callee *ssa.Function, site ssa.CallInstruction) bool {
			pk := fnPkg(callee)
			if pk == nil || !strings.HasSuffix(pk.Pkg.Path(), "/internal/loadbalancer") {
				return false
			}
			if callee == c.probeSender() && callee != c.probeRoot() {
				return false
			}
			switch callee.Name() {
			// the operations the rules observe as events stay opaque; every other helper of the
			// package is looked into, so extracting a helper does not hide what it does
			case "MarkBackendUnhealthy", "IsBackendHealthy", "performHealthCheck", "NextBackend", "proxyRequest", "findHealthyBackend",
				"handleRequest", "ServeHTTP", "healthy", "GetActiveConnections", "IncrementConnections", "DecrementConnections", "GetBackends":
				return false
			}
			return true
		},
	}
}

// eligibilityPredicate: C02 clause 2 / C04 expiry.
func (c *Ctx) eligibilityPredicate() {
	p := c.P
	fn := p.Fn("internal/loadbalancer", "LoadBalancer", "IsBackendHealthy")
	c.traceRule("eligibility-predicate", "loadbalancer.(*LoadBalancer).IsBackendHealthy", fn, c.healthSpec(),
		"true is returned only when the flag was read true, or the window was found expired (now − UnhealthyUntil ≥ 1) under the write lock where the flag is set; an unexpired ejected backend yields false",
		func(t *Trace) string {
			if len(t.Ret) != 1 || (t.Ret[0].K != ATrue && t.Ret[0].K != AFalse) {
				return "undecided: result is not determined by the tests on the path"
			}
			ret := t.Ret[0].K == ATrue
			// authoritative knowledge: last test of the flag, last test of the window
			flag, flagAt, nFlag := int64(-1), -1, 0
			var win Rel
			winAt := -1
			for i, it := range t.Items {
				if _, isIf := it.Instr.(*ssa.If); !isIf {
					continue
				}
				r := c.condRel(it)
				if o, ok := r.Orient(beT+"IsHealthy", ""); ok && o.Y == "" && o.Pred == "" && o.Lo == o.Hi {
					flag, flagAt = o.Lo, i
					nFlag++
				}
				if o, ok := r.Orient("now", beT+"UnhealthyUntil"); ok {
					win, winAt = o, i
				}
			}
			_ = flagAt
			if winAt >= 0 && !(win.Lo == 1 && win.Hi == posInf) && !(win.Lo == negInf && win.Hi == 0) {
				return "expiry test is not now > UnhealthyUntil: " + win.String()
			}
			set := t.Index("store IsHealthy := k:true", 0)
			if set >= 0 {
				// re-admission: under the write lock, flag false and window expired, both tested in that section
				lock := -1
				for j := set - 1; j >= 0; j-- {
					if strings.HasPrefix(t.Items[j].Label, "lock:be:") {
						if t.Items[j].Label != "lock:be:W" {
							return "backend re-admitted under a read lock"
						}
						lock = j
						break
					}
					if strings.HasPrefix(t.Items[j].Label, "unlock:be:") {
						break
					}
				}
				if lock < 0 {
					return "backend re-admitted outside the backend's write lock"
				}
				okFlag, okWin := false, false
				for j := lock; j < set; j++ {
					r := c.condRel(t.Items[j])
					if o, ok := r.Orient(beT+"IsHealthy", ""); ok && o.Y == "" && o.Lo == 0 && o.Hi == 0 && !o.Neq {
						if live, why := c.loadedUnder(t.Items[j], beT+"IsHealthy", beT+"Mutex", 'W'); !live {
							return "re-admission re-check uses a stale health flag: " + why
						}
						okFlag = true
					}
					if o, ok := r.Orient("now", beT+"UnhealthyUntil"); ok && o.Lo == 1 && o.Hi == posInf {
						if live, why := c.loadedUnder(t.Items[j], beT+"UnhealthyUntil", beT+"Mutex", 'W'); !live {
							return "re-admission re-check uses a stale window: " + why + " — an expiry check racing a fresh ejection re-admits the freshly ejected backend"
						}
						okWin = true
					}
				}
				if !okFlag || !okWin {
					return "backend re-admitted without re-checking (flag false ∧ now > UnhealthyUntil) under the write lock"
				}
				if !ret {
					return "re-admitted backend reported unhealthy"
				}
				return ""
			}
			for _, it := range t.Items {
				if strings.HasPrefix(it.Label, "store ") {
					return "IsBackendHealthy modifies health state outside re-admission: " + it.Label
				}
			}
			if ret && flag != 1 {
				return "reports healthy although the flag was not read true and no re-admission happened"
			}
			if !ret && flag == 1 && nFlag == 1 {
				return "reports unhealthy although the flag was read true"
			}
			return ""
		})
}

// ---- C04 -------------------------------------------------------------------------------------------

func checkC04(c *Ctx) {
	p := c.P
	c.Clause("health flag written only by MarkBackendUnhealthy (false, with UnhealthyUntil = now+duration), IsBackendHealthy re-admission and the successful-probe path (true), all under Backend.Mutex(W)")
	c.Clause("passive ejection is guarded by count ≥ unhealthy_threshold on the counter just incremented under its lock, entered only for status ≥ 500 with passive checks enabled; the window is healthChecker.passiveTimeout = unhealthy_timeout")
	c.Clause("a probe ejects only on the error edge or the status≠200 edge; the 200 edge never ejects")
	c.Clause("every health flag store is mirrored to metrics with the same value inside the same critical section")
	c.Clause("recovery is strategy-independent: raw-flag filters are backed by an expiry re-examination before the strategy is asked")
	c.Clause("no client traffic while ejected (C02 dispatch guard and eligibility predicate)")
	c.Clause("a failed exchange counts towards passive ejection only when its client had not gone away (test of the served request's context), and that context can be ended by the client only: no middleware hands the request on with a context derived through WithTimeout / WithDeadline / WithCancel")
	c.Clause("RemoveBackend deletes the per-name passive failure record under its lock: a backend registered again under the name starts clean")
	c.Clause("the status the passive check sees is the last one the backend wrote; probe goroutines started in a loop own their loop variable (module Go version < 1.22); the ejection window is the configured unhealthy_timeout on every path")
	c.Clause("a name identifies one backend: AddBackend refuses a name that is already listed before it changes anything, so the state kept per name (metrics health mirror, passive failure count) describes that backend only")
	c.Clause("the in-flight gauge least_connections ranks by changes only by ±1 at request start and end in the forwarding function (a pick rejected by the health re-check leaves no mark): a recovered backend is not starved by a phantom connection")
	c.Clause("a flag claimed by an atomic compare-and-swap (one probe per backend at a time) has its deferred release registered before every return of the releasing function: no early return leaves a backend unprobed for ever")
	c.NotDecided("exact window arithmetic; bounded interleavings of event histories; what the JSON endpoints print")

	lockDiscipline(c, func(k string) bool {
		return k == beT+"IsHealthy" || k == beT+"UnhealthyUntil" || k == "loadbalancer.healthChecker.unhealthyBackends"
	})
	c.healthWriters()
	c.ejectorTotal()
	c.statusCaptured()
	c.passiveThreshold()
	c.requestContextIsClients()
	c.backendNamesUnique()
	// "actually receives traffic again under every strategy": least_connections ranks by the in-flight
	// gauge, so a gauge that a rejected pick or an ejection leaves off by one starves the recovered backend
	c.gaugeWriters()
	c.claimedFlagReleased()
	c.probeEdges()
	c.healthMirror()
	c.recoveryIndependent()
	c.loopClosuresOwnTheirVariable()
	c.readmissionOnlyByExpiry()
	c.removalClearsNameState()
	c.dispatchGuard()
	c.eligibilityPredicate()
	_ = p
	c.mirrorDelivered()
}

// healthWriters: who may write the flag / the window, and with what.
func (c *Ctx) healthWriters() {
	p := c.P
	fr := p.Freshness()
	n := 0
	for _, fn := range p.Funcs {
		if !p.InScope(fn) {
			continue
		}
		var flagStores, winStores []*ssa.Store
		instrsOf(fn, func(in ssa.Instruction) {
			k, st := storeKey(in)
			if st == nil {
				return
			}
			if fa := st.Addr.(*ssa.FieldAddr); fr.IsFresh(fa.X, 0) {
				return // initialisation of a backend that is not published yet
			}
			switch k {
			case beT + "IsHealthy":
				flagStores = append(flagStores, st)
			case beT + "UnhealthyUntil":
				winStores = append(winStores, st)
			}
		})
		if len(flagStores)+len(winStores) == 0 {
			continue
		}
		n++
		key := p.FuncKey(fn)
		var bad []string
		ejects := false
		for _, st := range flagStores {
			b, isConst := constBool(st.Val)
			if !isConst {
				bad = append(bad, p.InstrPos(st)+": health flag set from a non-constant value")
				continue
			}
			if !b {
				ejects = true
			}
		}
		if ejects {
			// an ejection must set the window to now + the duration argument in the same block
			if len(winStores) == 0 {
				bad = append(bad, "ejection does not set UnhealthyUntil")
			}
		}
		for _, st := range winStores {
			d := p.Desc(st.Val, nil)
			if !strings.HasPrefix(d, "add(now,") {
				bad = append(bad, p.InstrPos(st)+": UnhealthyUntil is not now + duration: "+d)
			}
			if !ejects {
				bad = append(bad, p.InstrPos(st)+": UnhealthyUntil changed without ejecting")
			}
			paired := false
			for _, fs := range flagStores {
				if b, ok := constBool(fs.Val); ok && !b && fs.Block() == st.Block() {
					paired = true
				}
			}
			if ejects && !paired {
				bad = append(bad, p.InstrPos(st)+": window and flag are not written together")
			}
		}
		pos := p.Pos(fn.Pos())
		if len(bad) == 0 {
			c.Pass("health-writers", key, pos, fmt.Sprintf("%d flag store(s), %d window store(s) of the expected shape", len(flagStores), len(winStores)))
		} else {
			c.Fail("health-writers", key, pos, bad[0], bad...)
		}
	}
	c.Floor("health-writers", n, 2, "functions writing backend health")
	// MarkBackendUnhealthy is the only ejector and its callers pass the configured window
	nCalls := 0
	for _, fn := range p.Funcs {
		if !p.InScope(fn) {
			continue
		}
		for _, ci := range callsIn(fn) {
			if strings.HasSuffix(CalleeName(ci), "LoadBalancer).MarkBackendUnhealthy") {
				nCalls++
				d := p.Desc(ci.Common().Args[2], nil)
				c.Check(d == "fld:loadbalancer.healthChecker.passiveTimeout", "ejection-window", p.FuncKey(fn), p.InstrPos(ci),
					"ejects for healthChecker.passiveTimeout", "ejection window is not the configured unhealthy_timeout: "+d)
			}
		}
	}
	c.Floor("ejection-window", nCalls, 3, "MarkBackendUnhealthy call sites")
	// where the passive settings are taken from the configuration — createHealthChecker, or whichever
	// function initialises the health checker
	{
		want := map[string]string{
			"loadbalancer.healthChecker.passiveTimeout":   "(fld:config.PassiveHealthCheckConfig.UnhealthyTimeout * k:1000000000)",
			"loadbalancer.healthChecker.passiveThreshold": "fld:config.PassiveHealthCheckConfig.UnhealthyThreshold",
			"loadbalancer.healthChecker.passiveEnabled":   "fld:config.PassiveHealthCheckConfig.Enabled",
		}
		got := map[string][]string{}
		pos := map[string]string{}
		for _, fn := range p.Funcs {
			if !p.InScope(fn) {
				continue
			}
			instrsOf(fn, func(in ssa.Instruction) {
				if k, st := storeKey(in); st != nil && want[k] != "" {
					got[k] = append(got[k], p.Desc(st.Val, nil))
					pos[k] = p.InstrPos(st)
				}
			})
		}
		var ks []string
		for k := range want {
			ks = append(ks, k)
		}
		sort.Strings(ks)
		for _, k := range ks {
			ok := len(got[k]) > 0
			for _, g := range got[k] {
				if g != want[k] {
					ok = false
				}
			}
			c.Check(ok, "ejection-window", "loadbalancer.createHealthChecker/"+strings.TrimPrefix(k, "loadbalancer.healthChecker."), pos[k],
				"derived from the configuration field", fmt.Sprintf("not derived from the documented configuration field: %v (want %s)", got[k], want[k]))
		}
	}
}

// ejectorTotal: every call of MarkBackendUnhealthy ejects — sets the flag, (re)opens the window
// and mirrors it — on every path (C02/C04).
func (c *Ctx) ejectorTotal() {
	p := c.P
	fn := p.Fn("internal/loadbalancer", "LoadBalancer", "MarkBackendUnhealthy")
	c.traceRule("ejector-always-ejects", "loadbalancer.(*LoadBalancer).MarkBackendUnhealthy", fn, c.healthSpec(),
		"every path stores IsHealthy=false and UnhealthyUntil=now+duration under the backend's write lock",
		func(t *Trace) string {
			fi := t.Index("store IsHealthy := k:false", 0)
			wi := -1
			for i, it := range t.Items {
				if strings.HasPrefix(it.Label, "store UnhealthyUntil := add(now,") {
					wi = i
				}
			}
			if fi < 0 {
				return "a path through MarkBackendUnhealthy does not mark the backend unhealthy"
			}
			if wi < 0 {
				return "a path through MarkBackendUnhealthy does not (re)open the unhealthy window: an ejection of an already ejected backend keeps the older deadline and the backend is re-admitted inside its new window"
			}
			for _, at := range []int{fi, wi} {
				if prevLabel(t, at, "lock:be:", "unlock:be:") != "lock:be:W" {
					return "ejection state written outside the backend's write lock"
				}
			}
			return ""
		})
}

// passiveThreshold: C04 clause 2.
func (c *Ctx) passiveThreshold() {
	p := c.P
	// the accounting of a finished exchange: recordRequestMetrics when it is a function of its own,
	// otherwise the function that forwards the request (with its deferred accounting inlined)
	rec := p.Fn("internal/loadbalancer", "LoadBalancer", "recordRequestMetrics")
	if rec == nil {
		rec = c.proxyFn()
	}
	cnt := "fld:loadbalancer.healthChecker.unhealthyBackends[fld:loadbalancer.Backend.Name]"
	c.traceRule("passive-threshold", "loadbalancer.(*LoadBalancer).recordRequestMetrics", rec, c.healthSpec(),
		"passive accounting runs iff status ≥ 500 ∧ passive enabled ∧ the client had not gone away; the per-backend counter is incremented under its lock, compared ≥ threshold, and reset after ejecting",
		func(t *Trace) string {
			// the server-error test: a comparison of the captured status with the 500 boundary
			var st Rel
			okS := false
			for _, it := range t.Items {
				if _, isIf := it.Instr.(*ssa.If); !isIf {
					continue
				}
				r := c.condRel(it)
				if r.OK && r.Pred == "" && r.Y == "" && !r.Neq {
					// a comparison with the server-error boundary, whatever the status variable is called
					boundary := (r.Lo == 500 && r.Hi == posInf) || (r.Lo == negInf && r.Hi == 499)
					named := strings.Contains(r.X, "statusCode") || strings.Contains(r.X, "StatusCode")
					if boundary || (named && !okS) {
						st, okS = r, true
					}
				}
			}
			if !okS {
				if t.Exit != ExitNormal {
					return ""
				}
				return "undecided: status is not tested"
			}
			failed := st.Lo == 500 && st.Hi == posInf
			if !failed && !(st.Lo == negInf && st.Hi == 499) {
				return "failure test is not status ≥ 500: " + st.String()
			}
			en, _, okE := c.findRel(t, "passiveEnabled", "", 0, -1)
			enabled := okE && en.Lo == 1
			inc := -1
			for i, it := range t.Items {
				if strings.HasPrefix(it.Label, "mapupd ") && strings.Contains(it.Label, "unhealthyBackends") && strings.HasSuffix(it.Label, " := ("+cnt+" + k:1)") {
					inc = i
				}
			}
			marked := -1
			for i, it := range t.Items {
				if strings.HasPrefix(it.Label, "mark-unhealthy(") {
					marked = i
				}
			}
			// whether the client was still there when the exchange ended: the test of the served
			// request's context.  A 502 / aborted response that Helios produced because the client
			// hung up is not a failed response of the backend
			// Tests on this path that derive from the served request's context.  Where the form tells
			// which edge means "gone" (Err() ≠ nil, errors.Is(Err(), …) true) the polarity is used;
			// other forms (a flag assembled from several tests, a select on Done()) are accepted on
			// either edge: what is decided is that the strike depends on such a test
			goneKnown, knownGone, notKnownPresent := false, false, false
			for _, it := range t.Items {
				ifi, isIf := it.Instr.(*ssa.If)
				if !isIf {
					continue
				}
				cv := ifi.Cond
				if it.Cond != nil {
					cv = it.Cond
				}
				if !derivesFromRequestContext(cv, map[ssa.Value]bool{}, 0) {
					continue
				}
				goneKnown = true
				r := c.condRel(it)
				switch {
				case r.OK && r.Pred == "" && r.Y == "k:nil" && strings.HasPrefix(r.X, "call:(context.Context).Err(call:(*net/http.Request).Context(param:"):
					if r.Neq {
						knownGone, notKnownPresent = true, true
					} else if !(r.Lo == 0 && r.Hi == 0) {
						notKnownPresent = true
					}
				case r.OK && r.Pred == "" && r.Y == "" && strings.HasPrefix(r.X, "call:errors.Is(call:(context.Context).Err(call:(*net/http.Request).Context(param:"):
					if r.Lo == 1 && r.Hi == 1 {
						knownGone, notKnownPresent = true, true
					} else if !(r.Lo == 0 && r.Hi == 0) {
						notKnownPresent = true
					}
				default:
					notKnownPresent = true
				}
			}
			struck := inc >= 0 || marked >= 0
			if !(failed && enabled) {
				if struck {
					return "passive failure accounting runs for a request that is not (status ≥ 500 ∧ passive enabled)"
				}
				return ""
			}
			if !goneKnown {
				if !struck {
					return "failed response does not increment the backend's failure counter"
				}
				return "a failed exchange counts towards ejection without a test whether its client had gone away (r.Context().Err()): the 502 / aborted response of a download the client hung up on is booked against the backend, unhealthy_threshold hang-ups eject a backend that answered correctly"
			}
			if struck && knownGone {
				return "a request its client abandoned (request context cancelled) counts towards passive ejection"
			}
			if !struck {
				if !notKnownPresent {
					return "failed response does not increment the backend's failure counter although its client was still there"
				}
				return ""
			}
			if inc < 0 {
				return "failed response does not increment the backend's failure counter"
			}
			if lk := prevLabel(t, inc, "lock:cnt:", "unlock:cnt:"); lk != "lock:cnt:W" {
				return "failure counter incremented outside its write lock"
			}
			r, ri, ok := c.findRel(t, cnt, "passiveThreshold", inc, -1)
			if !ok {
				return "failure count is never compared with unhealthy_threshold after the increment"
			}
			reached := r.Lo == 0 && r.Hi == posInf
			if !reached && !(r.Lo == negInf && r.Hi == -1) {
				return "ejection threshold is not count ≥ unhealthy_threshold: " + r.String()
			}
			if reached {
				if marked < ri {
					return "threshold reached but backend not ejected"
				}
				reset := false
				for _, it := range t.Items[marked:] {
					if strings.HasPrefix(it.Label, "mapupd ") && strings.Contains(it.Label, "unhealthyBackends") && strings.HasSuffix(it.Label, " := k:0") {
						reset = true
					}
				}
				if !reset {
					return "failure counter is not reset after ejecting"
				}
			} else if marked >= 0 {
				return "backend ejected below unhealthy_threshold"
			}
			return ""
		})
}

func prevLabel(t *Trace, i int, open, close string) string {
	for j := i - 1; j >= 0; j-- {
		l := t.Items[j].Label
		if strings.HasPrefix(l, close) {
			return ""
		}
		if strings.HasPrefix(l, open) {
			return l
		}
	}
	return ""
}

// probeEdges: C04 clause 3.
func (c *Ctx) probeEdges() {
	fn := c.probeRoot()
	c.traceRule("probe-edges", "loadbalancer.(*LoadBalancer).checkBackendHealth", fn, c.healthSpec(),
		"a probe ejects exactly on the error edge and the status≠200 edge; the 200 edge marks healthy and never ejects",
		func(t *Trace) string {
			pi := t.Index("probe", 0)
			marked := false
			for _, it := range t.Items {
				if strings.HasPrefix(it.Label, "mark-unhealthy(") {
					marked = true
				}
			}
			if pi < 0 {
				if marked {
					return "backend ejected without probing it"
				}
				return ""
			}
			// the probe failed when any of its fallible steps reported an error
			okE, failed := false, false
			for _, it := range t.Items[pi:] {
				if _, isIf := it.Instr.(*ssa.If); !isIf {
					continue
				}
				e := c.condRel(it)
				if !e.OK || e.Y != "" && e.Y != "k:nil" {
					continue
				}
				senderName := "performHealthCheck"
				if ps := c.probeSender(); ps != nil {
					senderName = ps.Name()
				}
				if strings.Contains(e.X, senderName+"(") || strings.Contains(e.X, "NewRequestWithContext(") || strings.Contains(e.X, "http.Client).Do(") {
					if strings.Contains(e.X, "#1") && e.Pred == "" { // the error result, possibly merged by a φ
						okE = true
						if e.Neq || e.Lo != 0 {
							failed = true
						}
					}
				}
			}
			if !okE {
				return "undecided: probe error is not tested"
			}
			if failed {
				if !marked {
					return "failed probe does not eject the backend"
				}
				return ""
			}
			s, _, okS := c.findRel(t, "StatusCode", "", pi, -1)
			if !okS {
				return "undecided: probe status is not tested"
			}
			is200 := !s.Neq && s.Lo == 200 && s.Hi == 200
			isNot200 := s.Neq && s.Lo == 200
			if !is200 && !isNot200 {
				return "probe success test is not status == 200: " + s.String()
			}
			if is200 {
				if marked {
					return "successful probe ejects the backend"
				}
				// (the property asks that a successful probe never ejects; whether it also confirms the
				// flag is the balancer's business — re-admission is by expiry, readmission-only-by-expiry)
			} else if !marked {
				return "non-200 probe does not eject the backend"
			}
			return ""
		})
}

// healthMirror: C04 clause 4.
func (c *Ctx) healthMirror() {
	p := c.P
	// every function that stores the health flag of a published backend (discovered, not listed)
	fresh := p.Freshness()
	var writers []*ssa.Function
	for _, fn := range p.Funcs {
		if !p.InScope(fn) {
			continue
		}
		stores := false
		instrsOf(fn, func(in ssa.Instruction) {
			if k, st := storeKey(in); k == "loadbalancer.Backend.IsHealthy" {
				if !fresh.IsFresh(st.Addr.(*ssa.FieldAddr).X, 0) {
					stores = true
				}
			}
		})
		if stores && fn.Parent() == nil {
			writers = append(writers, fn)
		}
	}
	sort.Slice(writers, func(i, j int) bool { return writers[i].Name() < writers[j].Name() })
	c.Floor("health-mirror-in-critical-section", len(writers), 2, "functions storing the health flag")
	for _, fn := range writers {
		name := fn.Name()
		c.traceRule("health-mirror-in-critical-section", "loadbalancer.(*LoadBalancer)."+name, fn, c.healthSpec(),
			"each flag store is followed by UpdateBackendHealth(name, same value) before the backend lock is released",
			func(t *Trace) string {
				for i, it := range t.Items {
					if !strings.HasPrefix(it.Label, "store IsHealthy := k:") {
						continue
					}
					val := strings.TrimPrefix(it.Label, "store IsHealthy := k:")
					// the collector may be nil in tests: the nil edge needs no mirror
					if r, _, ok := c.findRel(t, "metricsCollector", "", i, -1); ok && !r.Neq && r.Lo == 0 && r.Hi == 0 {
						continue
					}
					ok := false
					for j := i + 1; j < len(t.Items); j++ {
						l := t.Items[j].Label
						if strings.HasPrefix(l, "unlock:be:") || strings.HasPrefix(l, "store IsHealthy") {
							break
						}
						if l == "mirror(fld:loadbalancer.Backend.Name,k:"+val+")" {
							ok = true
							break
						}
						if strings.HasPrefix(l, "mirror(") {
							return "metrics mirror updated with a different backend/value than the flag: " + l
						}
					}
					if !ok {
						return "health flag set to " + val + " but the metrics mirror is not updated with that value before the backend lock is released (an expiry racing an ejection can leave /metrics reporting an ejected backend healthy)"
					}
				}
				return ""
			})
	}
}

// recoveryIndependent: C04 clause 5.
func (c *Ctx) recoveryIndependent() {
	p := c.P
	// does the request path re-examine every backend before asking the strategy?
	prepass := false
	var prepassPos string
	for _, name := range []string{"NextBackend", "findHealthyBackend"} {
		fn := p.Fn("internal/loadbalancer", "LoadBalancer", name)
		if fn == nil {
			continue
		}
		var getB, isH, next ssa.Instruction
		instrsOf(fn, func(in ssa.Instruction) {
			ci, ok := in.(ssa.CallInstruction)
			if !ok {
				return
			}
			n := CalleeName(ci)
			switch {
			case strings.HasSuffix(n, "Strategy).GetBackends"):
				getB = in
			case strings.HasSuffix(n, "LoadBalancer).IsBackendHealthy"):
				if isH == nil {
					// the argument must be a range element of the GetBackends() result
					d := p.Desc(ci.Common().Args[1], nil)
					if strings.Contains(d, "GetBackends") {
						isH = in
					}
				}
			case strings.HasSuffix(n, "Strategy).NextBackend"):
				next = in
			}
		})
		if getB != nil && isH != nil && next != nil {
			// the loop must complete before the pick: the pick's block is not dominated by the loop body
			// and the loop has no exit other than exhaustion
			body := isH.Block()
			exhaustive := true
			for _, b := range fn.Blocks {
				if body.Dominates(b) && b != body {
					continue
				}
			}
			for _, b := range fn.Blocks {
				if !body.Dominates(b) {
					continue
				}
				for _, s := range b.Succs {
					if !body.Dominates(s) && s != loopHeader(body) {
						exhaustive = false
					}
				}
			}
			// … and it is unconditional: every path to the pick runs through the loop (a sweep that is
			// throttled, debounced or skipped on some path leaves expired backends ejected for picks
			// that could have used them)
			hdr := loopHeader(body)
			unconditional := hdr != nil && hdr.Dominates(next.Block())
			if exhaustive && !body.Dominates(next.Block()) && unconditional {
				prepass = true
				prepassPos = p.InstrPos(isH)
			}
		}
	}
	fr := p.Freshness()
	n := 0
	for _, fn := range p.Funcs {
		if !p.InScope(fn) || fn.Pkg == nil && fn.Parent() == nil {
			continue
		}
		name := fn.Name()
		if name == "IsBackendHealthy" || name == "ListBackends" || name == "processHealthCheckResponse" || name == "MarkBackendUnhealthy" || name == "AddBackend" {
			continue // the state machine itself, and read-only reporting
		}
		readsFlag, readsWindow := false, false
		var pos string
		for _, a := range Accesses(fn) {
			if fr.IsFresh(a.FA.X, 0) {
				continue
			}
			if a.Key == beT+"IsHealthy" && a.Kind == "read" {
				// is the read used to decide (branch), directly or through a return value?
				readsFlag = true
				if pos == "" {
					pos = p.InstrPos(a.Instr)
				}
			}
			if a.Key == beT+"UnhealthyUntil" {
				readsWindow = true
			}
		}
		for _, ci := range callsIn(fn) {
			if strings.HasSuffix(CalleeName(ci), "LoadBalancer).IsBackendHealthy") {
				readsWindow = true
			}
		}
		if !readsFlag {
			continue
		}
		n++
		c.Check(readsWindow || prepass, "recovery-strategy-independent", p.FuncKey(fn), pos,
			"raw-flag reader is backed by an expiry re-examination ("+map[bool]string{true: "pre-pass at " + prepassPos, false: "reads the window itself"}[prepass && !readsWindow]+")",
			"backends are filtered on the raw health flag without consulting UnhealthyUntil, and nothing re-examines expired backends before the strategy is asked: with active checks disabled an ejected backend never receives traffic again")
	}
	c.Floor("recovery-strategy-independent", n, 1, "raw health-flag readers")
}

// loopHeader finds the header of the innermost loop containing b (the block that dominates b and
// has a predecessor dominated by b's loop body); nil if none.
func loopHeader(b *ssa.BasicBlock) *ssa.BasicBlock {
	for _, h := range b.Parent().Blocks {
		if !h.Dominates(b) {
			continue
		}
		for _, pr := range h.Preds {
			if h.Dominates(pr) && reaches(b, pr, map[*ssa.BasicBlock]bool{}) {
				// innermost: prefer the closest dominator
				best := h
				for _, h2 := range b.Parent().Blocks {
					if h2 != h && h.Dominates(h2) && h2.Dominates(b) {
						for _, pr2 := range h2.Preds {
							if h2.Dominates(pr2) && reaches(b, pr2, map[*ssa.BasicBlock]bool{}) {
								best = h2
							}
						}
					}
				}
				return best
			}
		}
	}
	return nil
}

// enclosingLoops returns the headers of all natural loops that contain b, outermost first.
func enclosingLoops(b *ssa.BasicBlock) []*ssa.BasicBlock {
	var out []*ssa.BasicBlock
	for _, h := range b.Parent().Blocks {
		if !h.Dominates(b) {
			continue
		}
		for _, pr := range h.Preds {
			if h.Dominates(pr) && reaches(b, pr, map[*ssa.BasicBlock]bool{}) {
				out = append(out, h)
				break
			}
		}
	}
	return out
}

// loopEarlyExits returns the blocks of the natural loop headed by h, other than h itself, that have a
// successor outside the loop (break, return, panic, goto): the loop can end before its header says so.
func loopEarlyExits(h *ssa.BasicBlock) []*ssa.BasicBlock {
	in := map[*ssa.BasicBlock]bool{h: true}
	for _, b := range h.Parent().Blocks {
		if !h.Dominates(b) {
			continue
		}
		for _, pr := range h.Preds {
			if h.Dominates(pr) && reaches(b, pr, map[*ssa.BasicBlock]bool{h: true}) {
				in[b] = true
			}
		}
	}
	var out []*ssa.BasicBlock
	for _, b := range h.Parent().Blocks {
		if !in[b] || b == h {
			continue
		}
		for _, s := range b.Succs {
			if !in[s] {
				out = append(out, b)
				break
			}
		}
	}
	return out
}

func reaches(from, to *ssa.BasicBlock, seen map[*ssa.BasicBlock]bool) bool {
	if from == to {
		return true
	}
	if seen[from] {
		return false
	}
	seen[from] = true
	for _, s := range from.Succs {
		if reaches(s, to, seen) {
			return true
		}
	}
	return false
}

// reachesAvoiding: a path from `from` to `to` exists that does not pass through `avoid`.
func reachesAvoiding(from, to, avoid *ssa.BasicBlock, seen map[*ssa.BasicBlock]bool) bool {
	if from == avoid {
		return false
	}
	if from == to {
		return true
	}
	if seen[from] {
		return false
	}
	seen[from] = true
	for _, s := range from.Succs {
		if reachesAvoiding(s, to, avoid, seen) {
			return true
		}
	}
	return false
}

// mirrorDelivered: the metrics collector applies every health update it is given — on every path the
// entry under the caller's backend name receives the caller's value (no early return that leaves the
// endpoint reporting an ejected backend as healthy).
func (c *Ctx) mirrorDelivered() {
	p := c.P
	fn := p.Fn("internal/metrics", "MetricsCollector", "UpdateBackendHealth")
	const bT = "metrics.BackendMetrics."
	sp := &Spec{
		Event: func(in ssa.Instruction, fr *Frame) string {
			if k, st := storeKey(in); k == bT+"IsHealthy" {
				return "store IsHealthy := " + p.Desc(st.Val, fr)
			}
			if mu, ok := in.(*ssa.MapUpdate); ok {
				return "map[" + p.Desc(mu.Key, fr) + "]"
			}
			if lk, ok := in.(*ssa.Lookup); ok && strings.Contains(p.Desc(lk.X, fr), "BackendMetrics") {
				return "lookup[" + p.Desc(lk.Index, fr) + "]"
			}
			return ""
		},
		Cond: p.anyCondLabel(),
		Expand: func(callee *ssa.Function, site ssa.CallInstruction) bool {
			pk := fnPkg(callee)
			return pk != nil && strings.HasSuffix(pk.Pkg.Path(), "/internal/metrics") && !callee.Object().Exported()
		},
	}
	c.traceRule("health-mirror-delivered", "metrics.(*MetricsCollector).UpdateBackendHealth", fn, sp,
		"every path stores the caller's value into the entry kept under the caller's backend name",
		func(t *Trace) string {
			if t.Exit != ExitNormal {
				return ""
			}
			if !t.Has("store IsHealthy := param:isHealthy") {
				return "a path returns without recording the health value it was given: the metrics and health endpoints keep reporting the previous state (an ejected backend stays 'healthy')"
			}
			for _, it := range t.Items {
				if strings.HasPrefix(it.Label, "lookup[") && it.Label != "lookup[param:backendName]" {
					return "the entry is looked up under something other than the caller's backend name: " + it.Label
				}
				if strings.HasPrefix(it.Label, "map[") && it.Label != "map[param:backendName]" {
					return "the entry is installed under something other than the caller's backend name: " + it.Label
				}
			}
			return ""
		})
}

// singleStore looks through a local variable cell that is assigned exactly once (a parameter or
// local captured by a closure is spilled into such a cell).
func singleStore(v ssa.Value) ssa.Value {
	for i := 0; i < 3; i++ {
		ld, ok := stripConv(v).(*ssa.UnOp)
		if !ok {
			return stripConv(v)
		}
		cell, ok := ld.X.(*ssa.Alloc)
		if !ok || cell.Referrers() == nil {
			return stripConv(v)
		}
		var stored ssa.Value
		n := 0
		for _, r := range *cell.Referrers() {
			if st, isSt := r.(*ssa.Store); isSt && st.Addr == ssa.Value(cell) {
				stored = st.Val
				n++
			}
		}
		if n != 1 {
			return stripConv(v)
		}
		v = stored
	}
	return stripConv(v)
}

// loopClosuresOwnTheirVariable: the module declares a Go version before 1.22, so a `for` variable is
// one variable for all iterations.  A closure made inside the loop that captures it and runs later —
// on a goroutine it is handed to — sees whatever the loop has stored by then: every probe goroutine
// probes the last backend of the pool and the others are never probed (C04), never ejected.  For
// every closure created in a loop, a captured variable that is allocated outside the loop and
// stored inside it must not reach a `go` statement (directly, or through a helper that starts the
// function it is given).
func (c *Ctx) loopClosuresOwnTheirVariable() {
	p := c.P
	rule := "loop-closure-owns-variable"
	// helpers that run a function parameter on a new goroutine: param index set
	asyncParam := map[*ssa.Function]map[int]bool{}
	for _, fn := range p.Funcs {
		if !p.IsHelios(fn) || fn.Parent() != nil {
			continue
		}
		for i, pm := range fn.Params {
			if _, isFn := pm.Type().Underlying().(*types.Signature); !isFn {
				continue
			}
			async := false
			// `go pm()` or a closure started with `go` that calls pm
			for _, g := range append([]*ssa.Function{fn}, Closures(fn)...) {
				for _, ci := range callsIn(g) {
					if goi, ok := ci.(*ssa.Go); ok {
						if goi.Call.Value == ssa.Value(pm) {
							async = true
						}
						if mc, ok := goi.Call.Value.(*ssa.MakeClosure); ok {
							for _, b := range mc.Bindings {
								if b == ssa.Value(pm) {
									async = true
								}
								// the parameter spilled into a cell because the closure captures it
								if a, isAlloc := b.(*ssa.Alloc); isAlloc && a.Referrers() != nil {
									for _, r := range *a.Referrers() {
										if st, ok := r.(*ssa.Store); ok && st.Addr == ssa.Value(a) && st.Val == ssa.Value(pm) {
											async = true
										}
									}
								}
							}
						}
					}
				}
			}
			if async {
				if asyncParam[fn] == nil {
					asyncParam[fn] = map[int]bool{}
				}
				asyncParam[fn][i] = true
			}
		}
	}
	n := 0
	var bad []string
	for _, fn := range p.Funcs {
		if !p.InScope(fn) {
			continue
		}
		instrsOf(fn, func(in ssa.Instruction) {
			mc, ok := in.(*ssa.MakeClosure)
			if !ok {
				return
			}
			hdr := loopHeader(mc.Block())
			if hdr == nil {
				return
			}
			inLoop := func(b *ssa.BasicBlock) bool {
				return hdr.Dominates(b) && reaches(b, hdr, map[*ssa.BasicBlock]bool{})
			}
			for _, b := range mc.Bindings {
				a, isAlloc := b.(*ssa.Alloc)
				if !isAlloc || inLoop(a.Block()) {
					continue // not a variable, or a fresh one per iteration
				}
				storedInLoop := false
				if refs := a.Referrers(); refs != nil {
					for _, r := range *refs {
						if st, ok := r.(*ssa.Store); ok && st.Addr == ssa.Value(a) && inLoop(st.Block()) {
							storedInLoop = true
						}
					}
				}
				if !storedInLoop {
					continue
				}
				n++
				// does the closure run later?
				async := ""
				if refs := mc.Referrers(); refs != nil {
					for _, r := range *refs {
						switch u := r.(type) {
						case *ssa.Go:
							if u.Call.Value == ssa.Value(mc) {
								async = "it is started with `go`"
							}
						case *ssa.Call:
							if callee := StaticFn(u); callee != nil {
								for j, arg := range u.Call.Args {
									if arg == ssa.Value(mc) && asyncParam[callee][j] {
										async = "it is handed to " + callee.Name() + ", which runs it on a new goroutine"
									}
								}
							}
						}
					}
				}
				if async != "" {
					bad = append(bad, p.InstrPos(mc)+": the closure captures the loop variable "+a.Comment+" (one variable for all iterations under this module's Go version) and "+async+": by the time it runs the loop has moved on, so every such goroutine works on the last element — the other backends are never probed")
				}
			}
		})
	}
	if len(bad) == 0 {
		c.Pass(rule, "closures created in loops", "-", fmt.Sprintf("%d loop-variable captures, none deferred to a goroutine", n))
	} else {
		c.Fail(rule, "closures created in loops", "-", bad[0], bad...)
	}
}

// readmissionOnlyByExpiry: "while ejected it receives no client traffic for the configured unhealthy
// window".  Wherever the health flag of a published backend is set to true — the lazy expiry check,
// the handling of a successful probe, any helper — the critical section that sets it has first found
// the window expired (now > UnhealthyUntil), or found the flag true already (the store changes
// nothing).  A probe that was in flight while the backend was ejected must not cut the window short.
func (c *Ctx) readmissionOnlyByExpiry() {
	p := c.P
	rule := "readmission-only-by-expiry"
	fresh := p.Freshness()
	n := 0
	for _, fn := range p.Funcs {
		if !p.InScope(fn) {
			continue
		}
		has := false
		instrsOf(fn, func(in ssa.Instruction) {
			if k, st := storeKey(in); k == beT+"IsHealthy" {
				if b, ok := constBool(st.Val); ok && b && !fresh.IsFresh(st.Addr.(*ssa.FieldAddr).X, 0) {
					has = true
				}
			}
		})
		if !has {
			continue
		}
		n++
		c.traceRule(rule, p.FuncKey(fn), fn, c.healthSpec(),
			"every path that sets the health flag has found, in that write-locked section, the window expired or the flag already true",
			func(t *Trace) string {
				for i, it := range t.Items {
					if it.Label != "store IsHealthy := k:true" {
						continue
					}
					ok := false
					for j := i - 1; j >= 0; j-- {
						l := t.Items[j].Label
						if strings.HasPrefix(l, "lock:be:") || strings.HasPrefix(l, "unlock:be:") {
							break
						}
						r := c.condRel(t.Items[j])
						if o, okO := r.Orient("now", beT+"UnhealthyUntil"); okO && o.Lo == 1 && o.Hi == posInf {
							ok = true
						}
						if o, okO := r.Orient(beT+"IsHealthy", ""); okO && o.Y == "" && o.Pred == "" && !o.Neq && o.Lo == 1 && o.Hi == 1 {
							ok = true
						}
					}
					if !ok {
						return "the health flag is set to true without the window having been found expired in that critical section: a backend ejected while this code was on its way (a probe in flight, a helper called late) is re-admitted inside its unhealthy window and receives client traffic again"
					}
				}
				return ""
			})
	}
	c.Floor(rule, n, 1, "functions that set the health flag to true")
}

// removalClearsNameState: passive strikes are kept per backend *name*.  A name that is removed and
// registered again is a new backend: it must start with a clean record, or the strikes of its
// predecessor eject it before it has produced unhealthy_threshold failures of its own.  Every map of
// the balancer that is updated under a backend's name is therefore also deleted from on the removal
// path (RemoveBackend or what it calls).
func (c *Ctx) removalClearsNameState() {
	p := c.P
	rule := "removal-clears-name-state"
	// maps written under Backend.Name
	type site struct {
		key string
		at  ssa.Instruction
	}
	keyed := map[string]site{}
	for _, fn := range p.Funcs {
		pk := fnPkg(fn)
		if pk == nil || !strings.HasSuffix(pk.Pkg.Path(), "/internal/loadbalancer") {
			continue
		}
		instrsOf(fn, func(in ssa.Instruction) {
			mu, ok := in.(*ssa.MapUpdate)
			if !ok || !strings.Contains(p.Desc(mu.Key, nil), "loadbalancer.Backend.Name") {
				return
			}
			if ld, isLoad := mu.Map.(*ssa.UnOp); isLoad {
				if fa, isFA := ld.X.(*ssa.FieldAddr); isFA {
					if fr, okF := fieldRefOf(fa); okF {
						if _, seen := keyed[fr.Key()]; !seen {
							keyed[fr.Key()] = site{fr.Key(), mu}
						}
					}
				}
			}
		})
	}
	rb := p.Fn("internal/loadbalancer", "LoadBalancer", "RemoveBackend")
	if rb == nil {
		c.Missing(rule, "loadbalancer.(*LoadBalancer).RemoveBackend")
		return
	}
	deleted := map[string]bool{}
	seenF := map[*ssa.Function]bool{}
	var scan func(f *ssa.Function, d int)
	scan = func(f *ssa.Function, d int) {
		if f == nil || seenF[f] || d > 3 || f.Blocks == nil || !p.IsHelios(f) {
			return
		}
		seenF[f] = true
		for _, ci := range callsIn(f) {
			if CalleeName(ci) == "builtin:delete" {
				if ld, isLoad := ci.Common().Args[0].(*ssa.UnOp); isLoad {
					if fa, isFA := ld.X.(*ssa.FieldAddr); isFA {
						if fr, okF := fieldRefOf(fa); okF {
							deleted[fr.Key()] = true
						}
					}
				}
			}
			scan(StaticFn(ci), d+1)
		}
	}
	scan(rb, 0)
	var names []string
	for k := range keyed {
		names = append(names, k)
	}
	sort.Strings(names)
	for _, k := range names {
		c.Check(deleted[k], rule, k, p.InstrPos(keyed[k].at), "entries written under a backend's name are deleted when the name is removed",
			"the map "+k+" is updated under a backend's name but the removal path never deletes from it: a backend removed and registered again under the same name inherits the old entry (passive strikes: it is ejected before unhealthy_threshold failures of its own)")
	}
	if len(names) == 0 {
		c.Pass(rule, "loadbalancer name-keyed maps", "-", "no balancer state is keyed by backend name")
	}
}

// derivesFromRequestContext: v is computed from (*http.Request).Context() — its Err(), its Done()
// channel (also as a select case), errors.Is on either, a flag merged from such tests, or the result
// of a Helios helper that returns one.
func derivesFromRequestContext(v ssa.Value, seen map[ssa.Value]bool, depth int) bool {
	if v == nil || seen[v] || depth > 10 {
		return false
	}
	seen[v] = true
	switch x := v.(type) {
	case *ssa.Call:
		if CalleeName(x) == "(*net/http.Request).Context" {
			return true
		}
		for _, a := range x.Call.Args {
			if derivesFromRequestContext(a, seen, depth+1) {
				return true
			}
		}
		if x.Call.IsInvoke() && derivesFromRequestContext(x.Call.Value, seen, depth+1) {
			return true
		}
		if callee := x.Call.StaticCallee(); callee != nil && callee.Blocks != nil && strings.Contains(callee.String(), modPath) {
			for _, b := range callee.Blocks {
				for _, in := range b.Instrs {
					if ret, ok := in.(*ssa.Return); ok {
						for _, rv := range ret.Results {
							if derivesFromRequestContext(rv, seen, depth+1) {
								return true
							}
						}
					}
				}
			}
		}
	case *ssa.Phi:
		for _, e := range x.Edges {
			if derivesFromRequestContext(e, seen, depth+1) {
				return true
			}
		}
		// a flag set on the edges of a test: look at the conditions that choose the edge
		for _, pred := range x.Block().Preds {
			if ifi, ok := pred.Instrs[len(pred.Instrs)-1].(*ssa.If); ok && derivesFromRequestContext(ifi.Cond, seen, depth+1) {
				return true
			}
			for _, pp := range pred.Preds {
				if ifi, ok := pp.Instrs[len(pp.Instrs)-1].(*ssa.If); ok && derivesFromRequestContext(ifi.Cond, seen, depth+1) {
					return true
				}
			}
		}
	case *ssa.BinOp:
		return derivesFromRequestContext(x.X, seen, depth+1) || derivesFromRequestContext(x.Y, seen, depth+1)
	case *ssa.UnOp:
		return derivesFromRequestContext(x.X, seen, depth+1)
	case *ssa.Extract:
		return derivesFromRequestContext(x.Tuple, seen, depth+1)
	case *ssa.Select:
		for _, st := range x.States {
			if derivesFromRequestContext(st.Chan, seen, depth+1) {
				return true
			}
		}
	case *ssa.ChangeInterface:
		return derivesFromRequestContext(x.X, seen, depth+1)
	case *ssa.MakeInterface:
		return derivesFromRequestContext(x.X, seen, depth+1)
	case *ssa.TypeAssert:
		return derivesFromRequestContext(x.X, seen, depth+1)
	}
	return false
}
