package main

import (
	"fmt"
	"go/token"
	"math"
	"regexp"
	"sort"
	"strings"

	"golang.org/x/tools/go/ssa"
)

// Desc renders the provenance of a value: which fields, parameters (resolved through the inlining
// frame to the caller's argument), constants, calls and captured variables it derives from.  It is
// independent of local names and source positions.
func (p *Program) Desc(v ssa.Value, fr *Frame) string { return p.desc(v, fr, 0) }

// DescQ is Desc with field loads qualified by the object they are read from
// ("fld:T.f@(base)"), so that equal strings denote the same memory location.
func (p *Program) DescQ(v ssa.Value, fr *Frame) string {
	p.qual = true
	defer func() { p.qual = false }()
	return p.desc(v, fr, 0)
}

func (p *Program) desc(v ssa.Value, fr *Frame, d int) string {
	if d > 10 {
		return "…"
	}
	switch x := v.(type) {
	case *ssa.Const:
		if x.Value == nil {
			return "k:nil"
		}
		return "k:" + x.Value.ExactString()
	case *ssa.Parameter:
		if fr != nil && fr.Fn == x.Parent() && fr.Site != nil {
			for i, pp := range fr.Fn.Params {
				if pp == x && i < len(fr.Args) {
					return p.desc(fr.Args[i], fr.Parent, d+1)
				}
			}
		}
		return "param:" + x.Name()
	case *ssa.FreeVar:
		if b := closureBinding(x); b != nil {
			return "&" + p.cellDesc(b, fr, d+1)
		}
		return "fv:" + x.Name()
	case *ssa.Global:
		return "&glob:" + x.Pkg.Pkg.Name() + "." + x.Name()
	case *ssa.Alloc:
		return "&" + p.cellDesc(x, fr, d+1)
	case *ssa.UnOp:
		switch x.Op {
		case token.MUL:
			switch a := x.X.(type) {
			case *ssa.FieldAddr:
				if fr2, ok := fieldRefOf(a); ok {
					if p.qual {
						return "fld:" + fr2.Key() + "@(" + p.desc(a.X, fr, d+1) + ")"
					}
					return "fld:" + fr2.Key()
				}
			case *ssa.Global:
				return "glob:" + a.Pkg.Pkg.Name() + "." + a.Name()
			case *ssa.Alloc:
				return p.cellDesc(a, fr, d+1)
			case *ssa.FreeVar:
				if b := closureBinding(a); b != nil {
					return p.cellDesc(b, fr, d+1)
				}
				return "fv:" + a.Name()
			case *ssa.IndexAddr:
				return p.desc(a.X, fr, d+1) + "[]"
			}
			return "*" + p.desc(x.X, fr, d+1)
		case token.NOT:
			return "!" + p.desc(x.X, fr, d+1)
		case token.SUB:
			return "-" + p.desc(x.X, fr, d+1)
		case token.ARROW:
			return "<-" + p.desc(x.X, fr, d+1)
		}
	case *ssa.BinOp:
		return "(" + p.desc(x.X, fr, d+1) + " " + x.Op.String() + " " + p.desc(x.Y, fr, d+1) + ")"
	case *ssa.Convert:
		return p.desc(x.X, fr, d+1)
	case *ssa.ChangeType:
		return p.desc(x.X, fr, d+1)
	case *ssa.ChangeInterface:
		return p.desc(x.X, fr, d+1)
	case *ssa.MakeInterface:
		return p.desc(x.X, fr, d+1)
	case *ssa.Call:
		name := CalleeName(x)
		if v, sub := p.inlineTarget(x, fr); v != nil && d < 6 {
			return p.desc(v, sub, d+1)
		}
		var args []string
		for _, a := range x.Call.Args {
			args = append(args, p.desc(a, fr, d+1))
		}
		if x.Call.IsInvoke() {
			args = append([]string{p.desc(x.Call.Value, fr, d+1)}, args...)
		} else if strings.HasPrefix(name, "dyn:") {
			name = "dyn[" + p.desc(x.Call.Value, fr, d+1) + "]"
		}
		switch name {
		case "builtin:len":
			return "len(" + strings.Join(args, ",") + ")"
		case "time.Now":
			return "now"
		case "time.Since":
			return "since(" + strings.Join(args, ",") + ")"
		case "(time.Time).Add":
			return "add(" + strings.Join(args, ",") + ")"
		case "(time.Time).Sub":
			return "sub(" + strings.Join(args, ",") + ")"
		}
		return "call:" + name + "(" + strings.Join(args, ",") + ")"
	case *ssa.Extract:
		if call, ok := x.Tuple.(*ssa.Call); ok {
			if f := StaticFn(call); f != nil {
				rs := f.Signature.Results()
				// plain tuple accessors (no error result): look through to what they return
				if rs.Len() > 1 && rs.At(rs.Len()-1).Type().String() != "error" {
					if v, sub := p.inlineResult(call, x.Index, fr); v != nil {
						return p.desc(v, sub, d+1)
					}
				}
			}
		}
		return fmt.Sprintf("%s#%d", p.desc(x.Tuple, fr, d+1), x.Index)
	case *ssa.Phi:
		var es []string
		for _, e := range x.Edges {
			if e == x {
				continue
			}
			es = append(es, p.desc(e, fr, d+3))
		}
		es = uniqueStrings(es)
		return "phi(" + strings.Join(es, "|") + ")"
	case *ssa.Lookup:
		return p.desc(x.X, fr, d+1) + "[" + p.desc(x.Index, fr, d+1) + "]"
	case *ssa.Index:
		return p.desc(x.X, fr, d+1) + "[]"
	case *ssa.IndexAddr:
		return "&" + p.desc(x.X, fr, d+1) + "[]"
	case *ssa.Field:
		if fr2, ok := fieldRefOf(x); ok {
			return p.desc(x.X, fr, d+1) + "." + fr2.Name
		}
	case *ssa.FieldAddr:
		if fr2, ok := fieldRefOf(x); ok {
			return "&fld:" + fr2.Key()
		}
	case *ssa.TypeAssert:
		return p.desc(x.X, fr, d+1) + ".(" + x.AssertedType.String() + ")"
	case *ssa.Slice:
		return p.desc(x.X, fr, d+1) + "[:]"
	case *ssa.Function:
		return "func:" + p.FuncKey(x)
	case *ssa.MakeClosure:
		return "closure:" + p.FuncKey(x.Fn.(*ssa.Function))
	case *ssa.Next:
		return "next(" + p.desc(x.Iter, fr, d+1) + ")"
	case *ssa.Range:
		return "range(" + p.desc(x.X, fr, d+1) + ")"
	case *ssa.MakeSlice:
		return "makeslice"
	case *ssa.MakeMap:
		return "makemap"
	}
	return fmt.Sprintf("%T", v)
}

// noInline: helpers the rules refer to by name; their calls stay visible in descriptors.
var noInline = map[string]bool{
	"shouldCompress": true, "containsGzip": true, "matchesContentType": true, "GetActiveConnections": true, "healthy": true,
	"IsBackendHealthy": true, "GetClientIP": true, "findHealthyBackend": true, "parseByteLimit": true, "parseGzipConfig": true,
	"configInt": true, "generateIdentifier": true, "RequestHeaderName": true, "TraceHeaderName": true, "RequestContextMiddleware": true,
	"NextBackend": true, "GetBackends": true, "IsAllowed": true, "NewIPFilter": true, "parseCIDR": true, "BuildChain": true,
	"LoadConfig": true, "Validate": true, "NewLoadBalancer": true, "buildHandler": true, "validateTLSFiles": true, "Middleware": true,
	"performHealthCheck": true, "Counts": true, "Execute": true, "beforeRequest": true, "admit": true, "setState": true, "Allow": true,
	"getOrCreateBucket": true, "jumpHash": true, "MetricsHandler": true, "GetMetrics": true, "NewMux": true, "L": true, "WithContext": true,
}

// inlineTarget: x is a call of a small Helios helper with a single return statement and a single
// result; the result expression and the frame to resolve its parameters in are returned, so that
// provenance descriptors and guard relations see through helper extraction.
func (p *Program) inlineTarget(x *ssa.Call, fr *Frame) (ssa.Value, *Frame) {
	f := StaticFn(x)
	if f == nil || f.Signature.Results().Len() != 1 {
		return nil, nil
	}
	return p.inlineResult(x, 0, fr)
}

// inlineResult: result idx of a call to a small Helios helper with a single return statement,
// described in the helper's own frame (results spilled around a deferred unlock are looked through).
func (p *Program) inlineResult(x *ssa.Call, idx int, fr *Frame) (ssa.Value, *Frame) {
	f := StaticFn(x)
	if f == nil || !p.IsHelios(f) || f.Blocks == nil || f.Parent() != nil || noInline[f.Name()] || strings.HasPrefix(f.Name(), "validate") {
		return nil, nil
	}
	var ret *ssa.Return
	n := 0
	instrsOf(f, func(in ssa.Instruction) {
		if r, ok := in.(*ssa.Return); ok && !(f.Recover != nil && r.Block() == f.Recover) {
			ret = r
			n++
		}
	})
	if n != 1 || idx >= len(ret.Results) {
		return nil, nil
	}
	sub := &Frame{Fn: f, Site: x, Parent: fr, Args: x.Call.Args}
	if fr != nil {
		sub.Depth = fr.Depth + 1
	}
	if sub.Depth > 6 {
		return nil, nil
	}
	return singleStore(ret.Results[idx]), sub
}

// cellDesc describes the contents of a local variable cell: the single value stored into it, or
// the set of values when there are several stores.
func (p *Program) cellDesc(cell ssa.Value, fr *Frame, d int) string {
	a, ok := cell.(*ssa.Alloc)
	if !ok {
		return p.desc(cell, nil, d)
	}
	if fr != nil && fr.Fn != a.Parent() {
		fr = nil // the cell belongs to an enclosing function that is not on the inlining stack
	}
	var vals []string
	if refs := a.Referrers(); refs != nil {
		for _, r := range *refs {
			if st, ok := r.(*ssa.Store); ok && st.Addr == a {
				vals = append(vals, p.desc(st.Val, fr, d+1))
			}
		}
	}
	// stores made inside closures through free variables
	if fn := a.Parent(); fn != nil {
		for _, cl := range Closures(fn) {
			for i, fv := range cl.FreeVars {
				_ = i
				if closureBinding(fv) != a {
					continue
				}
				if refs := fv.Referrers(); refs != nil {
					for _, r := range *refs {
						if st, ok := r.(*ssa.Store); ok && st.Addr == fv {
							vals = append(vals, p.desc(st.Val, nil, d+1))
						}
					}
				}
			}
		}
	}
	vals = uniqueStrings(vals)
	switch len(vals) {
	case 0:
		return "var:" + a.Comment
	case 1:
		return vals[0]
	}
	sort.Strings(vals)
	return "var:" + a.Comment + "{" + strings.Join(vals, "|") + "}"
}

// closureBinding returns the value bound to a free variable where its closure is created.
func closureBinding(fv *ssa.FreeVar) ssa.Value {
	fn := fv.Parent()
	parent := fn.Parent()
	if parent == nil {
		return nil
	}
	idx := -1
	for i, f := range fn.FreeVars {
		if f == fv {
			idx = i
		}
	}
	if idx < 0 {
		return nil
	}
	var out ssa.Value
	instrsOf(parent, func(in ssa.Instruction) {
		if mc, ok := in.(*ssa.MakeClosure); ok && mc.Fn == fn && idx < len(mc.Bindings) {
			out = mc.Bindings[idx]
		}
	})
	if fv2, ok := out.(*ssa.FreeVar); ok { // captured through an enclosing closure
		return closureBinding(fv2)
	}
	return out
}

// ---- relations ------------------------------------------------------------------------------

const (
	negInf = math.MinInt64
	posInf = math.MaxInt64
)

// Rel is a normalised branch condition on the edge that was taken.
//   - integer/time orderings:  X − Y ∈ [Lo, Hi]  (Neq: X ≠ Y)
//   - boolean tests:           Y == "" and Lo==Hi==1 (true) or 0 (false)
//   - predicates (HasPrefix, IsZero, Contains…): Pred != "" with Bool polarity
type Rel struct {
	X, Y   string
	Lo, Hi int64
	Neq    bool
	Pred   string
	Bool   bool
	OK     bool
}

func (r Rel) String() string {
	if !r.OK {
		return "<unrecognised>"
	}
	if r.Pred != "" {
		return fmt.Sprintf("%s%s(%s,%s)", map[bool]string{true: "", false: "!"}[r.Bool], r.Pred, r.X, r.Y)
	}
	if r.Y == "" && r.Lo == r.Hi && !r.Neq {
		if r.Lo == 1 {
			return r.X + " is true"
		}
		return r.X + " is false"
	}
	lhs := r.X + " − " + r.Y
	switch {
	case r.Neq:
		return lhs + " ≠ 0"
	case r.Lo == negInf && r.Hi == posInf:
		return lhs + " unconstrained"
	case r.Lo == negInf:
		return fmt.Sprintf("%s ≤ %d", lhs, r.Hi)
	case r.Hi == posInf:
		return fmt.Sprintf("%s ≥ %d", lhs, r.Lo)
	case r.Lo == r.Hi:
		return fmt.Sprintf("%s = %d", lhs, r.Lo)
	}
	return fmt.Sprintf("%s ∈ [%d,%d]", lhs, r.Lo, r.Hi)
}

// Flip swaps X and Y.
func (r Rel) Flip() Rel {
	n := r
	n.X, n.Y = r.Y, r.X
	if r.Pred == "" && !r.Neq {
		n.Lo, n.Hi = negate(r.Hi), negate(r.Lo)
	}
	return n
}

func negate(v int64) int64 {
	switch v {
	case negInf:
		return posInf
	case posInf:
		return negInf
	}
	return -v
}

// linear peels constant offsets: v = base + off.
func (p *Program) linear(v ssa.Value, fr *Frame) (string, int64) {
	v = stripConv(v)
	if k, ok := constInt(v); ok {
		return "", k
	}
	if b, ok := v.(*ssa.BinOp); ok && (b.Op == token.ADD || b.Op == token.SUB) {
		if k, ok := constInt(b.Y); ok {
			base, off := p.linear(b.X, fr)
			if b.Op == token.ADD {
				return base, off + k
			}
			return base, off - k
		}
		if k, ok := constInt(b.X); ok && b.Op == token.ADD {
			base, off := p.linear(b.Y, fr)
			return base, off + k
		}
	}
	return p.Desc(v, fr), 0
}

// RelOf normalises the condition of a branch for the edge with polarity pol.
func (p *Program) RelOf(cond ssa.Value, pol bool, fr *Frame) Rel {
	switch c := cond.(type) {
	case *ssa.UnOp:
		if c.Op == token.NOT {
			return p.RelOf(c.X, !pol, fr)
		}
	case *ssa.BinOp:
		switch c.Op {
		case token.LSS, token.LEQ, token.GTR, token.GEQ, token.EQL, token.NEQ:
			if bv, ok := constBool(c.Y); ok && (c.Op == token.EQL || c.Op == token.NEQ) {
				return p.RelOf(c.X, pol == (bv == (c.Op == token.EQL)), fr)
			}
			xb, xo := p.linear(c.X, fr)
			yb, yo := p.linear(c.Y, fr)
			// X − Y where X = xb+xo, Y = yb+yo:  (xb − yb) ⋈ (yo − xo)
			k := yo - xo
			op := c.Op
			if !pol {
				op = map[token.Token]token.Token{token.LSS: token.GEQ, token.LEQ: token.GTR, token.GTR: token.LEQ, token.GEQ: token.LSS, token.EQL: token.NEQ, token.NEQ: token.EQL}[op]
			}
			r := Rel{X: xb, Y: yb, OK: true, Lo: negInf, Hi: posInf}
			switch op {
			case token.LSS:
				r.Hi = k - 1
			case token.LEQ:
				r.Hi = k
			case token.GTR:
				r.Lo = k + 1
			case token.GEQ:
				r.Lo = k
			case token.EQL:
				r.Lo, r.Hi = k, k
			case token.NEQ:
				r.Neq = true
				r.Lo, r.Hi = k, k
			}
			if !isIntegral(c.X) {
				// strings / pointers / floats: only ==, != are meaningful as given
				if op != token.EQL && op != token.NEQ {
					r.Pred = "cmp" + op.String()
					r.Bool = true
				}
			}
			return r
		}
	case *ssa.Extract:
		if call, ok := c.Tuple.(*ssa.Call); ok {
			if f := StaticFn(call); f != nil {
				rs := f.Signature.Results()
				if rs.Len() > 1 && rs.At(rs.Len()-1).Type().String() != "error" {
					if v, sub := p.inlineResult(call, c.Index, fr); v != nil {
						return p.RelOf(v, pol, sub)
					}
				}
			}
		}
	case *ssa.Call:
		if v, sub := p.inlineTarget(c, fr); v != nil {
			return p.RelOf(v, pol, sub)
		}
		name := CalleeName(c)
		args := c.Call.Args
		switch name {
		case "(time.Time).Before", "(time.Time).After":
			xb, yb := p.Desc(args[0], fr), p.Desc(args[1], fr)
			r := Rel{X: xb, Y: yb, OK: true, Lo: negInf, Hi: posInf}
			before := name == "(time.Time).Before"
			if before == pol { // X < Y (pol) or !(X > Y) = X <= Y
				if pol {
					r.Hi = -1
				} else {
					r.Hi = 0
				}
			} else {
				if pol {
					r.Lo = 1
				} else {
					r.Lo = 0
				}
			}
			return r
		case "(time.Time).IsZero":
			return Rel{X: p.Desc(args[0], fr), Pred: "iszero", Bool: pol, OK: true}
		case "strings.HasPrefix", "strings.Contains", "strings.HasSuffix", "strings.EqualFold":
			return Rel{X: p.Desc(args[0], fr), Y: p.Desc(args[1], fr), Pred: strings.ToLower(strings.TrimPrefix(name, "strings.")), Bool: pol, OK: true}
		}
		return Rel{X: p.Desc(c, fr), OK: true, Lo: b2i(pol), Hi: b2i(pol)}
	}
	return Rel{X: p.Desc(cond, fr), OK: true, Lo: b2i(pol), Hi: b2i(pol)}
}

func b2i(b bool) int64 {
	if b {
		return 1
	}
	return 0
}

func isIntegral(v ssa.Value) bool {
	t := v.Type().Underlying()
	s := t.String()
	switch s {
	case "int", "int8", "int16", "int32", "int64", "uint", "uint8", "uint16", "uint32", "uint64", "uintptr", "untyped int":
		return true
	}
	return false
}

// Orient returns r with X matching mx and Y matching my (substring match), flipping if needed.
func (r Rel) Orient(mx, my string) (Rel, bool) {
	if strings.Contains(r.X, mx) && (my == "" || strings.Contains(r.Y, my)) {
		return r, true
	}
	if my != "" && strings.Contains(r.Y, mx) && strings.Contains(r.X, my) {
		return r.Flip(), true
	}
	if my == "" && strings.Contains(r.Y, mx) {
		return r.Flip(), true
	}
	return r, false
}

func (r Rel) SameInterval(lo, hi int64) bool {
	return r.Pred == "" && !r.Neq && r.Lo == lo && r.Hi == hi
}

// SuccDesc describes v like Desc, but looks through (T…, error) helpers of Helios: a value obtained
// as result i of a helper call is described by what the helper returns as result i on its success
// return (error result nil), with the helper's parameters replaced by the call-site arguments.  The
// description is therefore that of the value "given that the helper did not fail", which is how
// callers use it after testing the error.
func (p *Program) SuccDesc(v ssa.Value, depth int) string {
	d := p.Desc(v, nil)
	if depth > 3 {
		return d
	}
	seen := map[ssa.Value]bool{}
	var walk func(x ssa.Value, k int)
	walk = func(x ssa.Value, k int) {
		if x == nil || seen[x] || k > 5 {
			return
		}
		seen[x] = true
		if ex, ok := x.(*ssa.Extract); ok {
			if call, ok := ex.Tuple.(*ssa.Call); ok {
				if s, ok := p.successResult(call, ex.Index, depth); ok {
					d = strings.ReplaceAll(d, p.Desc(ex, nil), s)
				}
			}
		}
		if in, ok := x.(ssa.Instruction); ok {
			for _, op := range in.Operands(nil) {
				if *op != nil {
					walk(*op, k+1)
				}
			}
		}
	}
	walk(v, 0)
	return d
}

func (p *Program) successResult(call *ssa.Call, idx int, depth int) (string, bool) {
	h := StaticFn(call)
	if h == nil || !p.IsHelios(h) || h.Blocks == nil {
		return "", false
	}
	rs := h.Signature.Results()
	if rs.Len() < 2 || idx >= rs.Len()-1 || rs.At(rs.Len()-1).Type().String() != "error" {
		return "", false
	}
	out, n := "", 0
	same := true
	instrsOf(h, func(in ssa.Instruction) {
		r, ok := in.(*ssa.Return)
		if !ok || len(r.Results) != rs.Len() || !isConstNil(r.Results[rs.Len()-1]) {
			return
		}
		s := p.SuccDesc(r.Results[idx], depth+1)
		if n > 0 && s != out {
			same = false
		}
		out = s
		n++
	})
	if n == 0 || !same {
		return "", false
	}
	for i, prm := range h.Params {
		if i >= len(call.Call.Args) {
			break
		}
		re := regexp.MustCompile(`param:` + regexp.QuoteMeta(prm.Name()) + `\b`)
		arg := p.SuccDesc(call.Call.Args[i], depth+1)
		out = re.ReplaceAllLiteralString(out, arg)
	}
	return out, true
}
