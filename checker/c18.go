package main

import (
	"fmt"
	"go/token"
	"go/types"
	"os"
	"path/filepath"
	"sort"
	"strconv"
	"strings"

	"golang.org/x/tools/go/ssa"
)

func init() { registry["C18"] = checkC18 }

// cfgRow is one row of the documented constraint table T-CFG.
type cfgRow struct {
	Validator string // method of *config.Config
	Guard     string // field that must be true for the row to apply ("" = always)
	X, Y      string // field (Y "" = constant comparison, `k:""` = non-empty string)
	Lo, Hi    int64
	Neq       bool   // X ≠ Y
	Also      string // additional guard relation "field≥1"
	YAML      string // key path in the shipped files ("" = not a scalar there)
}

const cfgP = "fld:config."

var tCfg = []cfgRow{
	{"validateServer", "", cfgP + "ServerConfig.Port", "", 1, 65535, false, "", "server.port"},
	{"validateServer", "TLSConfig.Enabled", cfgP + "TLSConfig.CertFile", `k:""`, 0, 0, true, "", ""},
	{"validateServer", "TLSConfig.Enabled", cfgP + "TLSConfig.KeyFile", `k:""`, 0, 0, true, "", ""},
	{"validateTimeouts", "", cfgP + "TimeoutConfig.Read", "", 0, posInf, false, "", "server.timeouts.read"},
	{"validateTimeouts", "", cfgP + "TimeoutConfig.Write", "", 0, posInf, false, "", "server.timeouts.write"},
	{"validateTimeouts", "", cfgP + "TimeoutConfig.Idle", "", 0, posInf, false, "", "server.timeouts.idle"},
	{"validateTimeouts", "", cfgP + "TimeoutConfig.Handler", "", 0, posInf, false, "", "server.timeouts.handler"},
	{"validateTimeouts", "", cfgP + "TimeoutConfig.Shutdown", "", 0, posInf, false, "", "server.timeouts.shutdown"},
	{"validateTimeouts", "", cfgP + "TimeoutConfig.BackendDial", "", 0, posInf, false, "", "server.timeouts.backend_dial"},
	{"validateTimeouts", "", cfgP + "TimeoutConfig.BackendRead", "", 0, posInf, false, "", "server.timeouts.backend_read"},
	{"validateTimeouts", "", cfgP + "TimeoutConfig.BackendIdle", "", 0, posInf, false, "", "server.timeouts.backend_idle"},
	{"validateBackends", "", "len(" + cfgP + "Config.Backends)", "", 1, posInf, false, "", ""},
	{"validateBackends", "", cfgP + "BackendConfig.Name", `k:""`, 0, 0, true, "", ""},
	{"validateBackends", "", cfgP + "BackendConfig.Address", `k:""`, 0, 0, true, "", ""},
	{"validateBackends", "", cfgP + "BackendConfig.Weight", "", 0, posInf, false, "", "backends[].weight"},
	{"validateLoadBalancer", "WebSocketPoolConfig.Enabled", cfgP + "WebSocketPoolConfig.MaxIdle", "", 0, posInf, false, "", "load_balancer.websocket_pool.max_idle"},
	{"validateLoadBalancer", "WebSocketPoolConfig.Enabled", cfgP + "WebSocketPoolConfig.MaxActive", "", 0, posInf, false, "", "load_balancer.websocket_pool.max_active"},
	{"validateLoadBalancer", "WebSocketPoolConfig.Enabled", cfgP + "WebSocketPoolConfig.MaxIdle", cfgP + "WebSocketPoolConfig.MaxActive", negInf, 0, false, "WebSocketPoolConfig.MaxActive", ""},
	{"validateLoadBalancer", "WebSocketPoolConfig.Enabled", cfgP + "WebSocketPoolConfig.IdleTimeoutSeconds", "", 0, posInf, false, "", "load_balancer.websocket_pool.idle_timeout_seconds"},
	{"validateHealthChecks", "ActiveHealthCheckConfig.Enabled", cfgP + "ActiveHealthCheckConfig.Interval", "", 1, posInf, false, "", "health_checks.active.interval"},
	{"validateHealthChecks", "ActiveHealthCheckConfig.Enabled", cfgP + "ActiveHealthCheckConfig.Timeout", "", 1, posInf, false, "", "health_checks.active.timeout"},
	{"validateHealthChecks", "ActiveHealthCheckConfig.Enabled", cfgP + "ActiveHealthCheckConfig.Timeout", cfgP + "ActiveHealthCheckConfig.Interval", negInf, -1, false, "", ""},
	{"validateHealthChecks", "ActiveHealthCheckConfig.Enabled", cfgP + "ActiveHealthCheckConfig.Path", `k:""`, 0, 0, true, "", ""},
	{"validateHealthChecks", "PassiveHealthCheckConfig.Enabled", cfgP + "PassiveHealthCheckConfig.UnhealthyThreshold", "", 1, posInf, false, "", "health_checks.passive.unhealthy_threshold"},
	{"validateHealthChecks", "PassiveHealthCheckConfig.Enabled", cfgP + "PassiveHealthCheckConfig.UnhealthyTimeout", "", 1, posInf, false, "", "health_checks.passive.unhealthy_timeout"},
	{"validateRateLimit", "RateLimitConfig.Enabled", cfgP + "RateLimitConfig.MaxTokens", "", 1, posInf, false, "", "rate_limit.max_tokens"},
	{"validateRateLimit", "RateLimitConfig.Enabled", cfgP + "RateLimitConfig.RefillRate", "", 1, posInf, false, "", "rate_limit.refill_rate_seconds"},
	{"validateCircuitBreaker", "CircuitBreakerConfig.Enabled", cfgP + "CircuitBreakerConfig.FailureThreshold", "", 1, posInf, false, "", "circuit_breaker.failure_threshold"},
	{"validateCircuitBreaker", "CircuitBreakerConfig.Enabled", cfgP + "CircuitBreakerConfig.SuccessThreshold", "", 1, posInf, false, "", "circuit_breaker.success_threshold"},
	{"validateCircuitBreaker", "CircuitBreakerConfig.Enabled", cfgP + "CircuitBreakerConfig.TimeoutSeconds", "", 1, posInf, false, "", "circuit_breaker.timeout_seconds"},
	{"validateCircuitBreaker", "CircuitBreakerConfig.Enabled", cfgP + "CircuitBreakerConfig.IntervalSeconds", "", 1, posInf, false, "", "circuit_breaker.interval_seconds"},
	// max_requests: 0 means "default 1"; the balancer converts the value to uint32 under the stated
	// belief "config validated to be non-negative" — a negative value would wrap to ~4.29e9 trials
	{"validateCircuitBreaker", "CircuitBreakerConfig.Enabled", cfgP + "CircuitBreakerConfig.MaxRequests", "", 0, posInf, false, "", "circuit_breaker.max_requests"},
	{"validateMetrics", "MetricsConfig.Enabled", cfgP + "MetricsConfig.Port", "", 1, 65535, false, "", "metrics.port"},
	{"validateMetrics", "MetricsConfig.Enabled", cfgP + "MetricsConfig.Path", `k:""`, 0, 0, true, "", ""},
	{"validateAdminAPI", "AdminAPIConfig.Enabled", cfgP + "AdminAPIConfig.Port", "", 1, 65535, false, "", "admin_api.port"},
}

type region struct {
	lo, hi int64
	neq    bool
}

func (r region) String() string {
	if r.neq {
		return "≠"
	}
	lo, hi := "−∞", "+∞"
	if r.lo != negInf {
		lo = fmt.Sprint(r.lo)
	}
	if r.hi != posInf {
		hi = fmt.Sprint(r.hi)
	}
	return "[" + lo + "," + hi + "]"
}

// acceptRegion extracts, from the validator's own comparisons, the region of X−Y (or X vs constant)
// on the paths that accept the configuration with the row's guards true.
func (c *Ctx) acceptRegion(fn *ssa.Function, row cfgRow) (region, int, string) {
	p := c.P
	sp := &Spec{P: p, Cond: p.anyCondLabel(), Expand: func(callee *ssa.Function, site ssa.CallInstruction) bool {
		pk := fnPkg(callee)
		if pk == nil || !strings.HasSuffix(pk.Pkg.Path(), "/internal/config") {
			return false
		}
		// helpers such as validatePort(label, port) and methods of the section types; never another
		// validator method of *Config
		if rc := callee.Signature.Recv(); rc != nil && QualType(namedOf(rc.Type())) == "config.Config" {
			return false
		}
		return true
	}}
	ts := sp.Walk(fn)
	c.Count("paths_enumerated", len(ts))
	var parts []region // union of the per-path regions
	n := 0
	perElement := strings.Contains(row.X, "BackendConfig.") // tested per loop iteration; the empty pool is refused separately
	skipped := ""
	for _, t := range ts {
		if len(t.Ret) != 1 || t.Ret[0].K != ANil {
			continue
		}
		if row.Guard != "" {
			g, _, ok := c.findRel(t, cfgP+row.Guard, "", 0, -1)
			if !ok {
				skipped = "an accepting path never examines " + row.Guard + " (the section is skipped for some combination of the other sections): " + firstN(t.String(), 200)
				continue
			}
			if g.Lo != 1 {
				continue
			}
		}
		if row.Also != "" {
			okAlso := false
			for _, it := range t.Items {
				if r := c.condRel(it); r.OK && r.Pred == "" && r.X == cfgP+row.Also && r.Y == "" && !r.Neq && r.Lo >= 1 {
					okAlso = true
				}
			}
			if !okAlso {
				continue
			}
		}
		cur := region{lo: negInf, hi: posInf}
		seen := false
		for _, it := range t.Items {
			r := c.condRel(it)
			if !r.OK || r.Pred != "" {
				continue
			}
			var o Rel
			switch {
			case r.X == row.X && r.Y == row.Y:
				o = r
			case r.Y == row.X && r.X == row.Y && row.Y != "":
				o = r.Flip()
			default:
				continue
			}
			seen = true
			if o.Neq {
				if strings.HasPrefix(row.X, "len(") && o.Lo == 0 {
					if cur.lo < 1 {
						cur.lo = 1 // a length that is not 0 is at least 1
					}
				} else {
					cur.neq = true
				}
				continue
			}
			if o.Lo > cur.lo {
				cur.lo = o.Lo
			}
			if o.Hi < cur.hi {
				cur.hi = o.Hi
			}
		}
		if !seen {
			if !perElement && row.Also == "" {
				skipped = "an accepting path with the constraint in force never examines " + strings.TrimPrefix(row.X, cfgP) + ": " + firstN(t.String(), 200)
			}
			continue
		}
		n++
		parts = append(parts, cur)
	}
	if skipped != "" {
		return region{}, n, skipped
	}
	if len(parts) == 0 {
		return region{}, 0, "no accepting path tests this field (the constraint is not enforced)"
	}
	// merge the per-path regions (integer intervals; adjacent intervals join)
	sort.Slice(parts, func(i, j int) bool { return parts[i].lo < parts[j].lo })
	out := parts[0]
	for _, r := range parts[1:] {
		if r.neq != out.neq {
			return out, n, fmt.Sprintf("accepting paths disagree on the shape of the test on %s", row.X)
		}
		if out.hi != posInf && r.lo > out.hi+1 {
			return out, n, fmt.Sprintf("accept region of %s has a hole between %d and %d", row.X, out.hi, r.lo)
		}
		if r.hi > out.hi {
			out.hi = r.hi
		}
	}
	return out, n, ""
}

// unexaminedErrors lists the calls labelled with the prefix on the path whose error result is neither
// compared with nil by a branch on the path nor returned.
func unexaminedErrors(t *Trace, prefix string) []string {
	examined := map[ssa.Value]bool{}
	for _, it := range t.Items {
		if ifi, ok := it.Instr.(*ssa.If); ok {
			if b, ok := ifi.Cond.(*ssa.BinOp); ok {
				examined[stripConv(b.X)] = true
				examined[stripConv(b.Y)] = true
			}
		}
	}
	if r, ok := t.RetInstr.(*ssa.Return); ok {
		for _, v := range r.Results {
			examined[stripConv(v)] = true
		}
	}
	var out []string
	for _, it := range t.Items {
		if !strings.HasPrefix(it.Label, prefix) {
			continue
		}
		call, ok := it.Instr.(*ssa.Call)
		if !ok {
			continue
		}
		var errv []ssa.Value
		if isErrorType(call.Type()) {
			errv = append(errv, call)
		} else if call.Referrers() != nil {
			for _, r := range *call.Referrers() {
				if ex, ok := r.(*ssa.Extract); ok && isErrorType(ex.Type()) {
					errv = append(errv, ex)
				}
			}
		}
		ok = false
		for _, v := range errv {
			if examined[v] {
				ok = true
			}
		}
		if !ok {
			out = append(out, strings.TrimPrefix(it.Label, prefix))
		}
	}
	return out
}

func isErrorType(t types.Type) bool {
	n, ok := t.(*types.Named)
	return ok && n.Obj().Pkg() == nil && n.Obj().Name() == "error"
}

func checkC18(c *Ctx) {
	p := c.P
	c.Clause("Validate calls every validate* method and returns its error; LoadConfig returns Validate's error")
	c.Clause("for each documented constraint the accept region computed from the validator's comparisons equals the documented region, inside its Enabled guard")
	c.Clause("enumerations agree: strategies (validator = createStrategy = SetStrategy), log levels ⊆ what parseLevel handles, log formats ⊇ documented {text, json}")
	c.Clause("numeric plugin options accept the dynamic types yaml.v3 yields (int, int64, float64)")
	c.Clause("every scalar of the shipped helios.yaml / helios.docker.yaml lies in the validator's accept region / table; every plugin named there is registered and its numeric options have an accepted type")
	c.Clause("each fallible start-up step's error edge reaches Fatal before the listener starts")
	c.Clause("every option a plugin factory looks up and validates reaches a result of the factory on every accepting path (a value validated and then shadowed or dropped is reported); options the README documents with a default may be omitted and then take that default")
	c.Clause("a backend address is accepted only as an http(s) URL with a host; an omitted log level is tested before zerolog.ParseLevel (which maps \"\" to NoLevel without error); the listener's start error reaches main")
	c.Clause("every complete configuration example in README.md loads: each scalar lies in the validator's accept region, and every option an enabled section leaves out is acceptable as zero / empty")
	c.Clause("a pattern taken from the configuration and registered on a ServeMux next to constant patterns (metrics path next to /health) is refused by validation when it equals one of them (the mux would panic at start-up)")
	c.Clause("no plugin writes into the option map it is given (nil when a chain entry has no config block: a write panics at start-up)")
	c.Clause("validation looks at the request/trace ID header names and can refuse them (a name that is not an HTTP field name would make every proxied request fail)")
	c.Clause("validation judges the whole value: no integer taken from the configuration (a rune of a name, a port, a count) is narrowed to a smaller integer type before a bound test")
	c.NotDecided("README prose beyond the enumerations above; yaml.v3 decoding itself; that an accepted configuration yields a working proxy")

	// 1. completeness of validation
	val := p.Fn("internal/config", "Config", "Validate")
	cfgT := p.Named("internal/config", "Config")
	if val == nil || cfgT == nil {
		c.Missing("validation-complete", "config.(*Config).Validate")
		return
	}
	var validators []string
	ms := p.SSA.MethodSets.MethodSet(p.SSAPkg[modPath+"/internal/config"].Type("Config").Object().Type())
	_ = ms
	for _, fn := range p.Funcs {
		if fn.Signature.Recv() != nil && QualType(namedOf(fn.Signature.Recv().Type())) == "config.Config" && strings.HasPrefix(fn.Name(), "validate") {
			validators = append(validators, fn.Name())
		}
	}
	sort.Strings(validators)
	c.Floor("validation-complete", len(validators), 5, "validate* methods")
	sp := &Spec{
		Event: func(in ssa.Instruction, fr *Frame) string {
			if ci, ok := in.(ssa.CallInstruction); ok {
				if f := StaticFn(ci); f != nil && strings.HasPrefix(f.Name(), "validate") {
					return "call:" + f.Name()
				}
			}
			return ""
		},
		Cond:   p.condMentions("config.Config).validate"),
		Expand: func(*ssa.Function, ssa.CallInstruction) bool { return false },
	}
	c.traceRule("validation-complete", "config.(*Config).Validate", val, sp, "a non-nil validator error is returned at once; success only after every validator ran",
		func(t *Trace) string {
			if len(t.Ret) != 1 {
				return "undecided: arity"
			}
			failed := false
			for _, it := range t.Items {
				if _, isIf := it.Instr.(*ssa.If); isIf {
					if r := c.condRel(it); r.Neq || r.Lo != 0 {
						failed = true
					}
				}
			}
			if failed && t.Ret[0].K == ANil {
				return "a validator reported an error but Validate returns nil"
			}
			if !failed {
				// `return c.validateLast()`: the last validator's own verdict is handed on unexamined —
				// nil exactly when it succeeded
				tail := false
				if ret, ok := t.RetInstr.(*ssa.Return); ok && len(ret.Results) == 1 {
					if call, isCall := ret.Results[0].(*ssa.Call); isCall {
						if f := StaticFn(call); f != nil && strings.HasPrefix(f.Name(), "validate") {
							tail = true
						}
					}
				}
				if t.Ret[0].K != ANil && !tail {
					return "Validate fails although every validator succeeded"
				}
				for _, v := range validators {
					if !t.Has("call:" + v) {
						return "configuration accepted without running " + v
					}
				}
				if u := unexaminedErrors(t, "call:"); len(u) > 0 {
					return "configuration accepted without examining the result of " + strings.Join(u, ", ")
				}
			}
			return ""
		})
	lc := p.Fn("internal/config", "", "LoadConfig")
	c.traceRule("validation-complete", "config.LoadConfig", lc, &Spec{Cond: p.condMentions("Validate(", "Unmarshal(", "ReadFile("), Expand: func(*ssa.Function, ssa.CallInstruction) bool { return false },
		Event: func(in ssa.Instruction, fr *Frame) string {
			if ci, ok := in.(*ssa.Call); ok {
				switch n := CalleeName(ci); {
				case strings.HasSuffix(n, "config.Config).Validate"), strings.HasSuffix(n, "yaml.Unmarshal"), n == "os.ReadFile":
					return "step:" + n
				}
			}
			return ""
		}},
		"read, parse and validation errors all make LoadConfig fail",
		func(t *Trace) string {
			failed := false
			for _, it := range t.Items {
				if r := c.condRel(it); r.OK && (r.Neq || r.Lo != 0) {
					failed = true
				}
			}
			if len(t.Ret) == 2 && failed && t.Ret[1].K != ANonNil {
				return "an error while loading is not reported"
			}
			if len(t.Ret) == 2 && !failed && t.Ret[1].K != ANil {
				return "loading fails without any step having failed"
			}
			if !failed {
				if u := unexaminedErrors(t, "step:"); len(u) > 0 {
					return "configuration returned without examining the error of " + strings.Join(u, ", ")
				}
			}
			if !failed && !t.Has("if call:(*github.com/0xReLogic/Helios/internal/config.Config).Validate(&var:config)") && false {
				return "configuration returned without validation"
			}
			return ""
		})
	validateCalled := false
	if lc != nil {
		for _, ci := range callsIn(lc) {
			if strings.HasSuffix(CalleeName(ci), "config.Config).Validate") {
				validateCalled = true
			}
		}
	}
	c.Check(validateCalled, "validation-complete", "config.LoadConfig/calls-Validate", "-", "LoadConfig validates what it parsed", "LoadConfig never calls Validate")

	// 2. constraint table
	regions := map[string]region{}
	// Where a constraint is enforced is looked up, not assumed: the validator (a method of *Config that
	// Validate calls) whose comparisons — its own or those of the helpers it calls — mention the field.
	// The Validator column of the table only names the obligation.
	var candidates []*ssa.Function
	for _, ci := range callsIn(val) {
		if f := StaticFn(ci); f != nil && f.Signature.Recv() != nil && QualType(namedOf(f.Signature.Recv().Type())) == "config.Config" {
			candidates = append(candidates, f)
		}
	}
	mentions := func(fn *ssa.Function, what string, depth int) bool {
		found := false
		var scan func(f *ssa.Function, d int)
		seenF := map[*ssa.Function]bool{}
		scan = func(f *ssa.Function, d int) {
			if f == nil || seenF[f] || d > 2 || f.Blocks == nil {
				return
			}
			seenF[f] = true
			instrsOf(f, func(in ssa.Instruction) {
				if ifi, ok := in.(*ssa.If); ok && strings.Contains(p.Desc(ifi.Cond, nil), what) {
					found = true
				}
				if ci, ok := in.(ssa.CallInstruction); ok {
					if g := StaticFn(ci); g != nil && p.IsHelios(g) && fnPkg(g) == fnPkg(fn) {
						for _, a := range ci.Common().Args {
							if strings.Contains(p.Desc(a, nil), what) {
								found = true
							}
						}
						scan(g, d+1)
					}
				}
			})
		}
		scan(fn, depth)
		return found
	}
	validatorOf := map[string]*ssa.Function{}
	locate := func(row cfgRow) *ssa.Function {
		if f := p.Fn("internal/config", "Config", row.Validator); f != nil && mentions(f, strings.TrimPrefix(row.X, "fld:"), 0) {
			return f
		}
		for _, f := range candidates {
			if mentions(f, strings.TrimPrefix(row.X, "fld:"), 0) {
				return f
			}
		}
		return p.Fn("internal/config", "Config", row.Validator)
	}
	for _, row := range tCfg {
		fn := locate(row)
		validatorOf[row.Validator+"|"+row.X+"|"+row.Y] = fn
		name := strings.TrimPrefix(row.X, cfgP)
		if row.Y != "" && row.Y != `k:""` {
			name += "-vs-" + strings.TrimPrefix(row.Y, cfgP)
		}
		construct := "config.(*Config)." + row.Validator + "/" + name
		if fn == nil {
			c.Missing("constraint-table", construct)
			continue
		}
		got, n, problem := c.acceptRegion(fn, row)
		want := region{lo: row.Lo, hi: row.Hi, neq: row.Neq}
		if row.Neq {
			want = region{lo: negInf, hi: posInf, neq: true}
		}
		switch {
		case problem != "":
			c.Fail("constraint-table", construct, p.Pos(fn.Pos()), problem)
		case got != want:
			c.Fail("constraint-table", construct, p.Pos(fn.Pos()), fmt.Sprintf("validator accepts %s ∈ %s but the documented region is %s", name, got, want))
		default:
			c.Pass("constraint-table", construct, p.Pos(fn.Pos()), fmt.Sprintf("accept region %s on %d accepting paths", got, n))
			if row.YAML != "" {
				regions[row.YAML] = got
			}
		}
	}

	// 2b. a constraint of a switchable feature rejects only while the feature is enabled
	byValidator := map[string][]cfgRow{}
	for _, row := range tCfg {
		if f := validatorOf[row.Validator+"|"+row.X+"|"+row.Y]; f != nil {
			byValidator[f.Name()] = append(byValidator[f.Name()], row)
		}
	}
	for _, vn := range validators {
		rows := byValidator[vn]
		fn := p.Fn("internal/config", "Config", vn)
		guarded := 0
		for _, r := range rows {
			if r.Guard != "" {
				guarded++
			}
		}
		if fn == nil || guarded == 0 {
			continue
		}
		sp := &Spec{P: p, Cond: p.anyCondLabel(), Expand: func(callee *ssa.Function, site ssa.CallInstruction) bool {
			pk := fnPkg(callee)
			return pk != nil && strings.HasSuffix(pk.Pkg.Path(), "/internal/config") && callee.Signature.Recv() == nil
		}}
		var bad []string
		nRej := 0
		for _, t := range sp.Walk(fn) {
			if len(t.Ret) != 1 || t.Ret[0].K == ANil {
				continue
			}
			nRej++
			// the deciding comparison is the last recognised one on the path
			var last Rel
			for _, it := range t.Items {
				if r := c.condRel(it); r.OK && r.Pred == "" && strings.HasPrefix(r.X, cfgP) {
					last = r
				}
			}
			if !last.OK {
				continue
			}
			for _, row := range rows {
				if row.Guard == "" || (row.X != last.X && row.X != last.Y) || last.X == cfgP+row.Guard {
					continue
				}
				g, _, ok := c.findRel(t, cfgP+row.Guard, "", 0, -1)
				if !ok || g.Lo != 1 {
					bad = append(bad, fmt.Sprintf("rejects on %s although %s is not established true on that path", strings.TrimPrefix(row.X, cfgP), row.Guard))
				}
			}
		}
		c.Count("paths_enumerated", nRej)
		construct := "config.(*Config)." + vn + "/rejects-only-when-enabled"
		if len(bad) > 0 {
			c.Fail("constraint-table", construct, p.Pos(fn.Pos()), bad[0], uniqueStrings(bad)...)
		} else {
			c.Pass("constraint-table", construct, p.Pos(fn.Pos()), fmt.Sprintf("%d rejecting paths; each rejection on a guarded field has its feature enabled", nRej))
		}
	}

	// 3. enumerations
	v, cr, st, okT := c.strategyNameTables()
	if !okT {
		c.Missing("enum-agreement", "strategies")
	} else {
		c.Check(sameStrings(v, cr) && sameStrings(cr, st) && len(v) >= 5, "enum-agreement", "strategies", "-", fmt.Sprintf("validator = createStrategy = SetStrategy = %v", v),
			fmt.Sprintf("strategy tables differ: validator %v, createStrategy %v, SetStrategy %v", v, cr, st))
	}
	c.strategyKeyAgreement()
	levels, formats := c.loggingTables()
	plFn := p.Fn("internal/logging", "", "parseLevel")
	if plFn == nil {
		for _, fn := range p.Funcs {
			if pk := fnPkg(fn); pk != nil && strings.HasSuffix(pk.Pkg.Path(), "/internal/logging") {
				if ks := c.switchStrings(fn); contains(ks, "debug") && contains(ks, "warn") {
					plFn = fn
				}
			}
		}
	}
	parseLevel := c.switchStrings(plFn)
	// a level parser that delegates to zerolog.ParseLevel handles zerolog's own names; by that
	// function's contract the empty string is not an error but NoLevel, which is above Fatal: a logger
	// at NoLevel discards everything — an omitted logging.level must not reach it
	if plFn == nil {
		for _, fn := range p.Funcs {
			if pk := fnPkg(fn); pk != nil && strings.HasSuffix(pk.Pkg.Path(), "/internal/logging") && fn.Parent() == nil {
				for _, ci := range callsIn(fn) {
					if CalleeName(ci) == "github.com/rs/zerolog.ParseLevel" {
						plFn = fn
					}
				}
			}
		}
	}
	if plFn != nil {
		var lib ssa.CallInstruction
		for _, ci := range callsIn(plFn) {
			if CalleeName(ci) == "github.com/rs/zerolog.ParseLevel" {
				lib = ci
			}
		}
		if lib != nil {
			parseLevel = append(parseLevel, "trace", "debug", "info", "warn", "error", "fatal", "panic", "disabled")
			emptyTested := false
			instrsOf(plFn, func(in ssa.Instruction) {
				if ifi, ok := in.(*ssa.If); ok {
					d := p.Desc(ifi.Cond, nil)
					if strings.Contains(d, `k:""`) || strings.Contains(d, "len(") {
						emptyTested = true
					}
				}
			})
			c.Check(emptyTested, "enum-agreement", "log-levels/empty", p.InstrPos(lib), "the empty level is handled before zerolog.ParseLevel is consulted",
				"the configured level goes to zerolog.ParseLevel without a test for the empty string: validation accepts an omitted logging.level (documented default: info), ParseLevel(\"\") returns NoLevel without an error, and a logger at NoLevel discards every message including the Fatal that reports a failed start-up")
		}
	}
	var unhandled []string
	for _, l := range levels {
		if l != "info" && !contains(parseLevel, l) {
			unhandled = append(unhandled, l)
		}
	}
	c.Check(len(levels) >= 4 && len(unhandled) == 0, "enum-agreement", "log-levels", "-", fmt.Sprintf("validator %v ⊆ parseLevel %v ∪ {info}", levels, parseLevel),
		fmt.Sprintf("log levels accepted by validation but not handled by parseLevel (silently treated as info): %v", unhandled))
	var missingDoc []string
	for _, f := range []string{"text", "json"} {
		if !contains(formats, f) {
			missingDoc = append(missingDoc, f)
		}
	}
	c.Check(len(missingDoc) == 0, "enum-agreement", "log-formats", "-", fmt.Sprintf("validator %v ⊇ documented {text, json}", formats),
		fmt.Sprintf("documented log format(s) %v are rejected by validation (validator accepts %v); the shipped configuration files use format: \"text\"", missingDoc, formats))

	// 4. yaml number types
	accepted := map[string]map[string]bool{}
	for _, fnName := range []string{"parseByteLimit", "parseGzipConfig"} {
		fn := c.byteLimitParser()
		if fnName == "parseGzipConfig" {
			fn = c.gzipOptionParser()
		}
		if fn == nil {
			c.Missing("option-number-types", "plugins."+fnName)
			continue
		}
		acc := map[string]bool{}
		seen := map[*ssa.Function]bool{}
		var visit func(f *ssa.Function)
		visit = func(f *ssa.Function) {
			if seen[f] {
				return
			}
			seen[f] = true
			a, _ := c.optionAssertions(f)
			for k := range a {
				acc[k] = true
			}
			for _, ci := range callsIn(f) {
				if g := StaticFn(ci); g != nil && p.IsHelios(g) && fnPkg(g) == fnPkg(f) {
					visit(g)
				}
			}
		}
		visit(fn)
		accepted[fnName] = acc
		var missing []string
		for _, t := range yamlNumberTypes {
			if !acc[t] {
				missing = append(missing, t)
			}
		}
		c.Check(len(missing) == 0, "option-number-types", "plugins."+fnName, p.Pos(fn.Pos()), "accepts int, int64, float64",
			fmt.Sprintf("numeric options are not accepted as %v: a number written the YAML way fails at start-up", missing))
	}

	// 4b. a configured number is also the number that is used: every option an option parser looks up
	//     reaches — as a value, not merely as something that was validated — a result of one of the
	//     parser's successful returns.  (`level, ok := configInt(raw)` inside an `if present` block
	//     declares a new variable: the configured level is checked and thrown away, the default runs.)
	for _, fnName := range []string{"parseByteLimit", "parseGzipConfig"} {
		fn := c.byteLimitParser()
		if fnName == "parseGzipConfig" {
			fn = c.gzipOptionParser()
		}
		if fn == nil {
			continue // reported above
		}
		var lookups []*ssa.Lookup
		collect := func(f *ssa.Function) {
			instrsOf(f, func(in ssa.Instruction) {
				if lk, ok := in.(*ssa.Lookup); ok {
					if mt, isMap := lk.X.Type().Underlying().(*types.Map); isMap && mt.Key().String() == "string" {
						lookups = append(lookups, lk)
					}
				}
			})
		}
		collect(fn)
		// … and the look-ups of the parser's own helpers that are handed the option map
		// (`gzipIntOption(cfg, "level", fallback)`): the helper's result has to reach a result too
		seenH := map[*ssa.Function]bool{fn: true}
		for _, ci := range callsIn(fn) {
			h := StaticFn(ci)
			if h == nil || seenH[h] || !p.IsHelios(h) || h.Blocks == nil || fnPkg(h) != fnPkg(fn) {
				continue
			}
			for _, a := range ci.Common().Args {
				if mt, isMap := a.Type().Underlying().(*types.Map); isMap && mt.Key().String() == "string" {
					seenH[h] = true
					collect(h)
					break
				}
			}
		}
		var rets []*ssa.Return
		instrsOf(fn, func(in ssa.Instruction) {
			if r, ok := in.(*ssa.Return); ok && len(r.Results) > 0 && isConstNil(r.Results[len(r.Results)-1]) {
				rets = append(rets, r)
			}
		})
		for _, lk := range lookups {
			key := p.Desc(lk.Index, nil)
			if lk.Parent() != fn {
				key = lk.Parent().Name() + "(" + key + ")"
			}
			used := false
			for _, r := range rets {
				for _, res := range r.Results[:len(r.Results)-1] {
					if c.flowsFrom(res, func(v ssa.Value) bool { return v == ssa.Value(lk) }) {
						used = true
					}
				}
			}
			c.Check(used, "option-value-used", "plugins."+fnName+"/"+key, p.InstrPos(lk), "the configured value reaches a result of a successful return",
				"the option "+key+" is looked up and validated, but no successful return of "+fn.Name()+" yields a value derived from it: whatever is configured, the plugin runs with its built-in default (a variable re-declared with := in an inner scope?)")
		}
		c.Floor("option-value-used", len(lookups), 1, "option look-ups in "+fnName)
	}

	// 4c. documented defaults: the README presents gzip's level and min_size with "default: 5" and
	//      "default: 1024" — a chain entry that leaves them out is a documented form and has to be
	//      accepted, with those values.  The option parser's result for each therefore has the
	//      documented constant among its origins (the value used when the key is absent).
	if pg := c.gzipOptionParser(); pg != nil {
		readme, _ := os.ReadFile(filepath.Join(p.RepoDir, "README.md"))
		for _, d := range []struct {
			key    string
			result int
			def    int64
			doc    string
		}{{"level", 0, 5, "default: 5"}, {"min_size", 1, 1024, "default: 1024"}} {
			construct := "plugins.parseGzipConfig/" + d.key + "-default"
			if !strings.Contains(string(readme), d.doc) {
				c.Pass("documented-defaults-honoured", construct, "-", "README.md no longer documents \""+d.doc+"\" for gzip: nothing to honour")
				continue
			}
			found := false
			instrsOf(pg, func(in ssa.Instruction) {
				r, ok := in.(*ssa.Return)
				if !ok || len(r.Results) <= d.result || !isConstNil(r.Results[len(r.Results)-1]) {
					return
				}
				seen := map[ssa.Value]bool{}
				bound := map[*ssa.Parameter]ssa.Value{}
				var walk func(v ssa.Value, depth int)
				// the value a Helios helper returns at position idx: its return operands, with the
				// helper's parameters standing for this call's arguments (a default handed in as an
				// argument and returned when the key is absent)
				walkCall := func(call *ssa.Call, idx int, depth int) {
					callee := call.Call.StaticCallee()
					if callee == nil || callee.Blocks == nil || !p.InScope(callee) || depth > 8 {
						return
					}
					for i, prm := range callee.Params {
						if i < len(call.Call.Args) {
							bound[prm] = call.Call.Args[i]
						}
					}
					for _, b := range callee.Blocks {
						for _, in := range b.Instrs {
							if ret, ok := in.(*ssa.Return); ok && idx < len(ret.Results) {
								walk(ret.Results[idx], depth+1)
							}
						}
					}
				}
				walk = func(v ssa.Value, depth int) {
					if v == nil || seen[v] || depth > 10 {
						return
					}
					seen[v] = true
					switch x := v.(type) {
					case *ssa.Const:
						if k, ok := constInt(x); ok && k == d.def {
							found = true
						}
					case *ssa.Phi:
						for _, e := range x.Edges {
							walk(e, depth+1)
						}
					case *ssa.Convert:
						walk(x.X, depth+1)
					case *ssa.Parameter:
						// inside a helper: the caller's argument
						if arg, ok := bound[x]; ok {
							walk(arg, depth+1)
						}
					case *ssa.Extract:
						if call, ok := x.Tuple.(*ssa.Call); ok {
							walkCall(call, x.Index, depth+1)
						}
					case *ssa.Call:
						walkCall(x, 0, depth+1)
					case *ssa.UnOp:
						if a, ok := x.X.(*ssa.Alloc); ok && a.Referrers() != nil {
							for _, rr := range *a.Referrers() {
								if st, ok := rr.(*ssa.Store); ok && st.Addr == ssa.Value(a) {
									walk(st.Val, depth+1)
								}
							}
						}
					}
				}
				walk(r.Results[d.result], 0)
			})
			c.Check(found, "documented-defaults-honoured", construct, p.Pos(pg.Pos()), fmt.Sprintf("an omitted %s falls back to the documented %d", d.key, d.def),
				fmt.Sprintf("README.md documents gzip's %s with \"%s\", but the option parser has no path that yields %d: a chain entry that relies on the documented default is refused at start-up (\"expected %s for gzip config\")", d.key, d.doc, d.def, d.key))
		}
	}

	// 4d. a backend address the proxy cannot use makes start-up fail (NewLoadBalancer → AddBackend)
	c.backendAddressUsable()

	// 5. shipped files
	registered := map[string]bool{}
	for _, fn := range p.Funcs {
		for _, ci := range callsIn(fn) {
			if strings.HasSuffix(CalleeName(ci), "plugins.RegisterBuiltin") {
				if s, ok := constStr(ci.Common().Args[0]); ok {
					registered[s] = true
				}
			}
		}
	}
	for _, file := range []string{"helios.yaml", "helios.docker.yaml"} {
		c.shippedConfig(filepath.Join(p.RepoDir, file), file, regions, v, levels, formats, registered, accepted)
	}
	c.documentedExamplesAccepted(regions)
	c.muxPatternsCannotCollide()
	c.optionMapReadOnly()
	c.idHeaderNamesValidated()
	c.validatorsJudgeWholeValue()

	// 6. start-up
	c.mainFatal()
}

func contains(s []string, x string) bool {
	for _, y := range s {
		if y == x {
			return true
		}
	}
	return false
}

// switchStrings: constant strings a function compares its (lower-cased) argument with.
func (c *Ctx) switchStrings(fn *ssa.Function) []string {
	var out []string
	if fn == nil {
		return nil
	}
	instrsOf(fn, func(in ssa.Instruction) {
		if b, ok := in.(*ssa.BinOp); ok && b.Op.String() == "==" {
			if s, ok := constStr(b.Y); ok {
				out = append(out, s)
			} else if s, ok := constStr(b.X); ok {
				out = append(out, s)
			}
		}
	})
	return uniqueStrings(out)
}

// loggingTables: the two map literals of validateLogging, told apart by the field they guard.
func (c *Ctx) loggingTables() (levels, formats []string) {
	fn := c.P.Fn("internal/config", "Config", "validateLogging")
	if fn == nil {
		// the validator that looks the logging level up in a table, whatever it is called
		for _, f := range c.P.Funcs {
			if pk := fnPkg(f); pk == nil || !strings.HasSuffix(pk.Pkg.Path(), "/internal/config") {
				continue
			}
			instrsOf(f, func(in ssa.Instruction) {
				if lk, ok := in.(*ssa.Lookup); ok && strings.Contains(c.P.Desc(lk.Index, nil), "LoggingConfig.Level") {
					fn = f
				}
			})
		}
	}
	if fn == nil {
		return nil, nil
	}
	// map literal → keys; map → which field indexes it
	keys := map[ssa.Value][]string{}
	instrsOf(fn, func(in ssa.Instruction) {
		if mu, ok := in.(*ssa.MapUpdate); ok {
			if s, ok := constStr(mu.Key); ok {
				keys[mu.Map] = append(keys[mu.Map], s)
			}
		}
	})
	instrsOf(fn, func(in ssa.Instruction) {
		if lk, ok := in.(*ssa.Lookup); ok {
			d := c.P.Desc(lk.Index, nil)
			switch {
			case strings.Contains(d, "LoggingConfig.Level"):
				levels = uniqueStrings(keys[lk.X])
			case strings.Contains(d, "LoggingConfig.Format"):
				formats = uniqueStrings(keys[lk.X])
			}
		}
	})
	return
}

// ---- shipped configuration files ----------------------------------------------------------------

type yamlScalar struct {
	Path  string
	Value string
	Line  int
	Quote bool
}

// readFlatYAML reads the block-style subset used by the shipped files: nested maps by indentation,
// "- " sequences of maps or scalars, comments, quoted scalars, optional BOM.
func readFlatYAML(path string) ([]yamlScalar, error) {
	b, err := os.ReadFile(path)
	if err != nil {
		return nil, err
	}
	return readFlatYAMLText(string(b))
}

func readFlatYAMLText(content string) ([]yamlScalar, error) {
	text := strings.TrimPrefix(content, "\ufeff")
	type lvl struct {
		indent int
		key    string
	}
	var stack []lvl
	var out []yamlScalar
	for i, raw := range strings.Split(text, "\n") {
		line := strings.TrimRight(raw, "\r")
		// strip comments (not inside quotes)
		inQ := byte(0)
		for j := 0; j < len(line); j++ {
			ch := line[j]
			if inQ != 0 {
				if ch == inQ {
					inQ = 0
				}
				continue
			}
			if ch == '"' || ch == '\'' {
				inQ = ch
			} else if ch == '#' && (j == 0 || line[j-1] == ' ' || line[j-1] == '\t') {
				line = line[:j]
				break
			}
		}
		if strings.TrimSpace(line) == "" {
			continue
		}
		indent := len(line) - len(strings.TrimLeft(line, " "))
		body := strings.TrimSpace(line)
		isItem := false
		if strings.HasPrefix(body, "- ") {
			isItem = true
			body = strings.TrimSpace(body[2:])
			// the item's keys live at indent+2
			for len(stack) > 0 && stack[len(stack)-1].indent >= indent {
				stack = stack[:len(stack)-1]
			}
			if len(stack) > 0 && !strings.HasSuffix(stack[len(stack)-1].key, "[]") {
				stack[len(stack)-1].key += "[]"
			}
			indent += 2
		}
		for len(stack) > 0 && stack[len(stack)-1].indent >= indent && !(isItem && stack[len(stack)-1].indent < indent) {
			if isItem && stack[len(stack)-1].indent == indent-2 {
				break
			}
			stack = stack[:len(stack)-1]
		}
		k, v, found := strings.Cut(body, ":")
		if !found || (len(v) > 0 && v[0] != ' ') {
			// scalar sequence item
			var parts []string
			for _, s := range stack {
				parts = append(parts, s.key)
			}
			out = append(out, yamlScalar{Path: strings.Join(parts, "."), Value: unq(body), Line: i + 1, Quote: strings.HasPrefix(body, `"`)})
			continue
		}
		k = strings.TrimSpace(k)
		v = strings.TrimSpace(v)
		if v == "" {
			stack = append(stack, lvl{indent, k})
			continue
		}
		var parts []string
		for _, s := range stack {
			parts = append(parts, s.key)
		}
		parts = append(parts, k)
		out = append(out, yamlScalar{Path: strings.Join(parts, "."), Value: unq(v), Line: i + 1, Quote: strings.HasPrefix(v, `"`) || strings.HasPrefix(v, "'")})
	}
	return out, nil
}

func unq(s string) string {
	s = strings.TrimSpace(s)
	if len(s) >= 2 && (s[0] == '"' && s[len(s)-1] == '"' || s[0] == '\'' && s[len(s)-1] == '\'') {
		return s[1 : len(s)-1]
	}
	return s
}

func (c *Ctx) shippedConfig(path, name string, regions map[string]region, strategies, levels, formats []string, registered map[string]bool, accepted map[string]map[string]bool) {
	sc, err := readFlatYAML(path)
	if err != nil {
		c.Missing("shipped-config-accepted", name)
		return
	}
	c.Count("shipped_scalars", len(sc))
	var bad []string
	checked := 0
	pluginOf := map[int]string{} // line of a chain item's name → plugin
	curPlugin := ""
	for _, s := range sc {
		pth := s.Path
		if pth == "plugins.chain[].name" {
			curPlugin = s.Value
			pluginOf[s.Line] = curPlugin
			checked++
			if !registered[s.Value] {
				bad = append(bad, fmt.Sprintf("%s:%d: plugin %q is not a registered builtin (start-up fails)", name, s.Line, s.Value))
			}
			continue
		}
		if strings.HasPrefix(pth, "plugins.chain[].config.") && !s.Quote {
			if _, err := strconv.ParseFloat(s.Value, 64); err == nil {
				typ := "int"
				if strings.ContainsAny(s.Value, ".eE") {
					typ = "float64"
				}
				parser := ""
				switch curPlugin {
				case "gzip":
					parser = "parseGzipConfig"
				case "size_limit":
					parser = "parseByteLimit"
				}
				if parser != "" {
					checked++
					if acc, ok := accepted[parser]; ok && !acc[typ] {
						bad = append(bad, fmt.Sprintf("%s:%d: %s option %s: %s decodes as %s, which %s does not accept (start-up fails)", name, s.Line, curPlugin, strings.TrimPrefix(pth, "plugins.chain[].config."), s.Value, typ, parser))
					}
				}
			}
			continue
		}
		switch pth {
		case "load_balancer.strategy":
			checked++
			if !contains(strategies, s.Value) {
				bad = append(bad, fmt.Sprintf("%s:%d: strategy %q is not accepted by validation", name, s.Line, s.Value))
			}
			continue
		case "logging.level":
			checked++
			if !contains(levels, s.Value) {
				bad = append(bad, fmt.Sprintf("%s:%d: log level %q is not accepted by validation", name, s.Line, s.Value))
			}
			continue
		case "logging.format":
			checked++
			if !contains(formats, s.Value) {
				bad = append(bad, fmt.Sprintf("%s:%d: log format %q is rejected by validation (accepted: %v): the shipped file does not load", name, s.Line, s.Value, formats))
			}
			continue
		}
		if r, ok := regions[pth]; ok {
			n, err := strconv.ParseInt(s.Value, 10, 64)
			if err != nil {
				bad = append(bad, fmt.Sprintf("%s:%d: %s is not an integer: %q", name, s.Line, pth, s.Value))
				continue
			}
			checked++
			if n < r.lo || n > r.hi {
				bad = append(bad, fmt.Sprintf("%s:%d: %s = %d lies outside the validator's accept region %s", name, s.Line, pth, n, r))
			}
		}
	}
	// relation rows over the file's values
	get := func(k string) (int64, bool) {
		for _, s := range sc {
			if s.Path == k {
				n, err := strconv.ParseInt(s.Value, 10, 64)
				return n, err == nil
			}
		}
		return 0, false
	}
	if t, ok1 := get("health_checks.active.timeout"); ok1 {
		if iv, ok2 := get("health_checks.active.interval"); ok2 {
			checked++
			if !(t < iv) {
				bad = append(bad, fmt.Sprintf("%s: active health-check timeout %d is not below interval %d", name, t, iv))
			}
		}
	}
	// every key written in the file is decoded into the configuration (yaml.v3 drops unknown keys silently)
	cfgT := c.P.Named("internal/config", "Config")
	if cfgT != nil {
		unknown := map[string]bool{}
		for _, s := range sc {
			if strings.HasPrefix(s.Path, "plugins.chain[].config") {
				continue // free-form plugin payload
			}
			if miss := yamlPathUnknown(cfgT, strings.Split(strings.ReplaceAll(s.Path, "[]", ""), ".")); miss != "" && !unknown[miss] {
				unknown[miss] = true
				bad = append(bad, fmt.Sprintf("%s:%d: key %q (in %s) matches no yaml tag of the configuration structs: it is silently ignored, so the documented form does not configure anything", name, s.Line, miss, s.Path))
			}
			checked++
		}
	}
	if len(bad) == 0 {
		c.Pass("shipped-config-accepted", name, name, fmt.Sprintf("%d scalars checked against the regions/tables extracted from the validator", checked))
	} else {
		c.Fail("shipped-config-accepted", name, name, bad[0], bad...)
	}
	c.Floor("shipped-config-accepted", checked, 25, "scalars of "+name)
}

// yamlPathUnknown walks a key path through the yaml tags of the configuration structs and returns
// the first component that no field decodes ("" if the whole path is known).
func yamlPathUnknown(t types.Type, path []string) string {
	for {
		switch tt := t.Underlying().(type) {
		case *types.Pointer:
			t = tt.Elem()
			continue
		case *types.Slice:
			t = tt.Elem()
			continue
		}
		break
	}
	if len(path) == 0 {
		return ""
	}
	st, ok := t.Underlying().(*types.Struct)
	if !ok {
		if _, isMap := t.Underlying().(*types.Map); isMap {
			return ""
		}
		return path[0]
	}
	for i := 0; i < st.NumFields(); i++ {
		tag := reflectTag(st.Tag(i), "yaml")
		name := strings.Split(tag, ",")[0]
		if name == "" {
			name = strings.ToLower(st.Field(i).Name())
		}
		if name == path[0] {
			return yamlPathUnknown(st.Field(i).Type(), path[1:])
		}
	}
	return path[0]
}

func reflectTag(tag, key string) string {
	for tag != "" {
		i := strings.Index(tag, key+":\"")
		if i < 0 {
			return ""
		}
		rest := tag[i+len(key)+2:]
		j := strings.Index(rest, "\"")
		if j < 0 {
			return ""
		}
		return rest[:j]
	}
	return ""
}

// strategyKeyAgreement: the spelling of the strategy name that validation looks up is the spelling
// the balancer later dispatches on.  If validation normalises (lower-cases, trims) and the consumer
// does not — or the other way round — a configuration is accepted and then silently runs the default
// strategy.
func (c *Ctx) strategyKeyAgreement() {
	p := c.P
	construct := "validateLoadBalancer-vs-createStrategy/key"
	val := p.Fn("internal/config", "Config", "validateLoadBalancer")
	if val == nil {
		for _, f := range p.Funcs {
			if pk := fnPkg(f); pk != nil && strings.HasSuffix(pk.Pkg.Path(), "/internal/config") && contains(c.mapLiteralKeys(f), "round_robin") {
				val = f
			}
		}
	}
	cre := c.strategyFactory()
	if val == nil || cre == nil {
		c.Missing("enum-agreement", construct)
		return
	}
	// validator side: the key of the lookup in the strategy table (the map whose literal holds the names)
	var vKeys []string
	instrsOf(val, func(in ssa.Instruction) {
		if lk, ok := in.(*ssa.Lookup); ok {
			if _, isMap := lk.X.Type().Underlying().(*types.Map); isMap {
				vKeys = append(vKeys, p.Desc(lk.Index, nil))
			}
		}
	})
	// consumer side: the switch tag inside createStrategy, with its parameter replaced by what callers pass
	var tags []string
	instrsOf(cre, func(in ssa.Instruction) {
		if b, ok := in.(*ssa.BinOp); ok && b.Op == token.EQL {
			if sv, isStr := constStr(b.Y); isStr && strings.Contains(sv, "_") {
				tags = append(tags, p.Desc(b.X, nil))
			}
		}
	})
	tags = uniqueStrings(tags)
	var args []string
	for _, fn := range p.Funcs {
		if !p.InScope(fn) {
			continue
		}
		for _, ci := range callsIn(fn) {
			if StaticFn(ci) == cre && len(ci.Common().Args) == 1 {
				args = append(args, p.Desc(ci.Common().Args[0], nil))
			}
		}
	}
	args = uniqueStrings(args)
	vKeys = uniqueStrings(vKeys)
	if len(args) == 0 && len(tags) == 1 && !strings.Contains(tags[0], "param:") {
		args = []string{""} // the dispatch is inline: the tag is already expressed in configuration terms
	}
	if len(vKeys) != 1 || len(tags) != 1 || len(args) == 0 {
		c.Undecided("enum-agreement", construct, p.Pos(val.Pos()), fmt.Sprintf("cannot identify one lookup key / one switch tag (validator keys %v, createStrategy tags %v, call-site arguments %v)", vKeys, tags, args))
		return
	}
	prm := "param:?"
	if len(cre.Params) == 1 {
		prm = "param:" + cre.Params[0].Name()
	}
	var bad []string
	for _, a := range args {
		consumed := tags[0]
		if a != "" {
			consumed = strings.ReplaceAll(tags[0], prm, a)
		}
		// compare modulo the struct the field is read from (config.Config vs. a copy): field descriptors carry no base
		if consumed != vKeys[0] {
			bad = append(bad, fmt.Sprintf("validation looks the strategy up as %s but the balancer dispatches on %s: a spelling only one of them normalises is accepted and then runs the default strategy", vKeys[0], consumed))
		}
	}
	if len(bad) == 0 {
		c.Pass("enum-agreement", construct, p.Pos(val.Pos()), "validated and dispatched on the same expression: "+vKeys[0])
	} else {
		c.Fail("enum-agreement", construct, p.Pos(val.Pos()), bad[0], bad...)
	}
}

// documentedExamplesAccepted: the README presents complete configurations (fenced yaml blocks with a
// top-level `backends:`) as ready to use.  Each has to load: every scalar inside the validator's accept
// region, and — what the shipped files never exercise — every option that an *enabled* section leaves
// out decodes as zero or "", which has to be acceptable as well (the consumers have defaults for all
// of them).  One obligation per example and option, so that a known finding names exactly one.
func (c *Ctx) documentedExamplesAccepted(regions map[string]region) {
	p := c.P
	rule := "documented-example-accepted"
	b, err := os.ReadFile(filepath.Join(p.RepoDir, "README.md"))
	if err != nil {
		c.Missing(rule, "README.md")
		return
	}
	lines := strings.Split(string(b), "\n")
	type example struct {
		title string
		start int
		text  []string
	}
	var exs []example
	heading := ""
	for i := 0; i < len(lines); i++ {
		l := lines[i]
		if strings.HasPrefix(l, "#") {
			heading = strings.TrimSpace(strings.TrimLeft(l, "# "))
		}
		if strings.HasPrefix(strings.TrimSpace(l), "```yaml") || strings.HasPrefix(strings.TrimSpace(l), "```yml") {
			ex := example{title: heading, start: i + 2}
			for i++; i < len(lines) && !strings.HasPrefix(strings.TrimSpace(lines[i]), "```"); i++ {
				ex.text = append(ex.text, lines[i])
			}
			complete := false
			for _, t := range ex.text {
				if strings.HasPrefix(t, "backends:") {
					complete = true
				}
			}
			if complete {
				exs = append(exs, ex)
			}
		}
	}
	// non-empty string options and the key they are written under
	strKeys := map[string]string{"MetricsConfig.Path": "metrics.path", "ActiveHealthCheckConfig.Path": "health_checks.active.path"}
	guardKey := func(yamlKey string) string {
		if i := strings.LastIndex(yamlKey, "."); i >= 0 {
			return yamlKey[:i] + ".enabled"
		}
		return ""
	}
	n := 0
	for _, ex := range exs {
		sc, err := readFlatYAMLText(strings.Join(ex.text, "\n"))
		if err != nil {
			c.Undecided(rule, "README.md/"+ex.title, fmt.Sprintf("README.md:%d", ex.start), "the example is not flat enough for the built-in YAML reader: "+err.Error())
			continue
		}
		val := map[string]yamlScalar{}
		for _, s := range sc {
			val[s.Path] = s
		}
		for _, row := range tCfg {
			key := row.YAML
			isStr := false
			if key == "" && row.Neq && row.Y == `k:""` {
				key = strKeys[strings.TrimPrefix(row.X, cfgP)]
				isStr = true
			}
			if key == "" || strings.Contains(key, "[]") {
				continue
			}
			if row.Guard != "" {
				g, ok := val[guardKey(key)]
				if !ok || g.Value != "true" {
					continue // the section is not switched on in this example
				}
			}
			construct := "README.md/" + ex.title + "/" + key
			n++
			s, present := val[key]
			pos := fmt.Sprintf("README.md:%d", ex.start)
			if present {
				pos = fmt.Sprintf("README.md:%d", ex.start+s.Line-1)
			}
			switch {
			case isStr:
				if !present || s.Value == "" {
					c.Fail(rule, construct, pos, "the example switches the section on and leaves "+key+" out; it decodes as \"\", which validation refuses: the documented configuration does not start")
				} else {
					c.Pass(rule, construct, pos, key+" is set")
				}
			default:
				r, okR := regions[key]
				if !okR {
					n--
					continue // the constraint row itself failed; reported there
				}
				var v int64
				if present {
					v, err = strconv.ParseInt(s.Value, 10, 64)
					if err != nil {
						c.Fail(rule, construct, pos, key+" is not an integer: "+s.Value)
						continue
					}
				}
				if v < r.lo || v > r.hi {
					what := fmt.Sprintf("%s = %d", key, v)
					if !present {
						what = "the example switches the section on and leaves " + key + " out; it decodes as 0, which"
					}
					c.Fail(rule, construct, pos, fmt.Sprintf("%s lies outside the validator's accept region %s: the documented configuration does not start", what, r))
				} else {
					c.Pass(rule, construct, pos, fmt.Sprintf("%d ∈ %s", v, r))
				}
			}
		}
	}
	c.Floor(rule, n, 10, "options of complete configuration examples in README.md")
}

// muxPatternsCannotCollide: http.ServeMux panics when one pattern is registered twice.  Where a
// start-up function registers a pattern taken from the configuration next to constant patterns on the
// same mux (the metrics path next to "/health"), the validator has to refuse the configured value that
// equals a constant pattern — otherwise an accepted configuration panics at start-up.
func (c *Ctx) muxPatternsCannotCollide() {
	p := c.P
	rule := "mux-patterns-cannot-collide"
	n := 0
	for _, fn := range p.Funcs {
		if !p.InScope(fn) {
			continue
		}
		pk := fnPkg(fn)
		if pk == nil || !strings.HasSuffix(pk.Pkg.Path(), "/cmd/helios") {
			continue
		}
		// registrations per mux value
		type reg struct {
			pattern ssa.Value
			at      ssa.Instruction
		}
		byMux := map[ssa.Value][]reg{}
		for _, ci := range callsIn(fn) {
			cn := CalleeName(ci)
			if cn != "(*net/http.ServeMux).Handle" && cn != "(*net/http.ServeMux).HandleFunc" {
				continue
			}
			args := ci.Common().Args
			byMux[args[0]] = append(byMux[args[0]], reg{args[1], ci})
		}
		for _, regs := range byMux {
			var consts []string
			var fromCfg []reg
			for _, r := range regs {
				if s, ok := constStr(r.pattern); ok {
					consts = append(consts, s)
				} else if c.flowsFrom(r.pattern, func(v ssa.Value) bool {
					fr, ok := fieldRefOf(v)
					if !ok {
						if u, isU := v.(*ssa.UnOp); isU {
							fr, ok = fieldRefOf(u.X)
						}
					}
					return ok && fr.Struct != nil && strings.HasPrefix(QualType(fr.Struct), "config.")
				}) {
					fromCfg = append(fromCfg, r)
				}
			}
			for _, r := range fromCfg {
				// the value registered is the value validation saw: a pattern computed from the configured
				// one (trimmed, given a leading slash) can equal a constant pattern although the
				// configured text does not
				transformed := ""
				seenT := map[ssa.Value]bool{}
				var walkT func(v ssa.Value, d int)
				walkT = func(v ssa.Value, d int) {
					if v == nil || seenT[v] || d > 10 || transformed != "" {
						return
					}
					seenT[v] = true
					switch x := v.(type) {
					case *ssa.Call:
						transformed = p.InstrPos(x) + ": " + CalleeName(x)
					case *ssa.BinOp:
						transformed = p.InstrPos(x) + ": string " + x.Op.String()
					case *ssa.Phi:
						for _, e := range x.Edges {
							walkT(e, d+1)
						}
					case *ssa.UnOp:
						if a, ok := x.X.(*ssa.Alloc); ok && a.Referrers() != nil {
							for _, rr := range *a.Referrers() {
								if st, ok := rr.(*ssa.Store); ok && st.Addr == ssa.Value(a) {
									walkT(st.Val, d+1)
								}
							}
						}
					}
				}
				walkT(r.pattern, 0)
				if transformed != "" {
					n++
					c.Fail(rule, p.FuncKey(fn)+"/registered-as-validated", p.InstrPos(r.at), "the pattern registered on the ServeMux is computed from the configured one ("+transformed+") after validation looked at the configured text: a value validation accepted (\"/health/\", \"health\") can become a pattern that is registered twice, and the mux panics at start-up")
					continue
				}
				// which configuration field
				field := ""
				c.flowsFrom(r.pattern, func(v ssa.Value) bool {
					if u, isU := v.(*ssa.UnOp); isU {
						v = u.X
					}
					if fr, ok := fieldRefOf(v); ok && fr.Struct != nil && strings.HasPrefix(QualType(fr.Struct), "config.") {
						field = fr.Key()
						return true
					}
					return false
				})
				// http.ServeMux reads a pattern that does not begin with "/" as host+path: registered
				// under the go.mod language version's mux it never matches a request (every path of the
				// endpoint answers 404), under the 1.22 mux it panics — validation refuses it
				{
					n++
					slashed := false
					for _, vf := range p.Funcs {
						vp := fnPkg(vf)
						if vp == nil || !strings.HasSuffix(vp.Pkg.Path(), "/internal/config") {
							continue
						}
						instrsOf(vf, func(in ssa.Instruction) {
							ifi, ok := in.(*ssa.If)
							if !ok || slashed {
								return
							}
							fromFld := func(v ssa.Value) bool {
								return c.flowsFrom(v, func(x ssa.Value) bool {
									if u, isU := x.(*ssa.UnOp); isU {
										x = u.X
									}
									fr, ok := fieldRefOf(x)
									return ok && fr.Key() == field
								})
							}
							tests := c.flowsFrom(ifi.Cond, func(v ssa.Value) bool {
								switch x := v.(type) {
								case *ssa.Call:
									if CalleeName(x) == "strings.HasPrefix" && len(x.Call.Args) == 2 {
										k, isK := constStr(x.Call.Args[1])
										return isK && k == "/" && fromFld(x.Call.Args[0])
									}
								case *ssa.BinOp:
									// path[0] != '/'
									for _, pair := range [][2]ssa.Value{{x.X, x.Y}, {x.Y, x.X}} {
										k, isK := pair[1].(*ssa.Const)
										if !isK || k.Value == nil || k.Value.ExactString() != "47" {
											continue
										}
										switch e := pair[0].(type) {
										case *ssa.Index:
											return fromFld(e.X)
										case *ssa.Lookup:
											return fromFld(e.X)
										}
									}
								}
								return false
							})
							if !tests {
								return
							}
							for _, sb := range ifi.Block().Succs {
								for _, in2 := range sb.Instrs {
									if ret, isRet := in2.(*ssa.Return); isRet && len(ret.Results) > 0 && !isConstNil(ret.Results[len(ret.Results)-1]) {
										slashed = true
									}
								}
							}
						})
					}
					c.Check(slashed, rule, p.FuncKey(fn)+"/"+field+"/leading-slash", p.InstrPos(r.at), "validation tests the configured pattern for its leading \"/\" and can refuse it",
						fmt.Sprintf("%s is registered as a ServeMux pattern and validation never looks at its first character: a value without a leading slash (\"metrics\") is accepted, the mux takes it for a host name, and the endpoint the configuration enabled answers 404 on every path (the 1.22 mux panics at start-up instead)", field))
				}
				for _, k := range consts {
					n++
					construct := p.FuncKey(fn) + "/" + field + "≠" + k
					refused := false
					for _, vf := range p.Funcs {
						vp := fnPkg(vf)
						if vp == nil || !strings.HasSuffix(vp.Pkg.Path(), "/internal/config") {
							continue
						}
						instrsOf(vf, func(in ssa.Instruction) {
							ifi, ok := in.(*ssa.If)
							if !ok {
								return
							}
							for si, pol := range []bool{true, false} {
								r := p.RelOf(ifi.Cond, pol, nil)
								if r.OK && !r.Neq && r.Lo == 0 && r.Hi == 0 && strings.Contains(r.X+"|"+r.Y, "fld:"+field) && strings.Contains(r.X+"|"+r.Y, `k:"`+k+`"`) {
									// the equal edge returns an error
									for _, in2 := range ifi.Block().Succs[si].Instrs {
										if ret, isRet := in2.(*ssa.Return); isRet && len(ret.Results) > 0 && !isConstNil(ret.Results[len(ret.Results)-1]) {
											refused = true
										}
									}
								}
							}
						})
					}
					c.Check(refused, rule, construct, p.InstrPos(r.at), "validation refuses the configured pattern that equals the constant one",
						fmt.Sprintf("%s is registered on the same ServeMux as the constant pattern %q and validation accepts the value %q: http.ServeMux panics on the second registration, so an accepted configuration crashes at start-up", field, k, k))
				}
			}
		}
	}
	c.Floor(rule, n, 1, "configured patterns registered next to constant ones")
}
