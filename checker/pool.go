package main

import (
	"fmt"
	"strings"

	"golang.org/x/tools/go/ssa"
)

// poolReleasedLast: sync.Pool's contract — after Put(x) the caller must not touch x again, another
// goroutine may already have taken it.  For every function that puts an object back, on every path
// (deferred calls in the order they really run: last registered first) no call uses the object after
// the Put.  `defer gz.Close()` followed by `defer pool.Put(gz)` runs the Put first: the Close that
// follows writes into a writer that may already serve another response.
func (c *Ctx) poolReleasedLast() {
	p := c.P
	rule := "pool-released-last"
	n := 0
	for _, fn := range p.Funcs {
		if !p.InScope(fn) || fn.Parent() != nil {
			continue
		}
		hasPut := false
		for _, g := range append([]*ssa.Function{fn}, Closures(fn)...) {
			for _, ci := range callsIn(g) {
				if CalleeName(ci) == "(*sync.Pool).Put" {
					hasPut = true
				}
			}
		}
		if !hasPut {
			continue
		}
		n++
		sp := &Spec{
			Event: func(in ssa.Instruction, fr *Frame) string {
				ci, ok := in.(ssa.CallInstruction)
				if !ok {
					return ""
				}
				name := CalleeName(ci)
				if strings.Contains(name, "zerolog") || strings.HasPrefix(name, "builtin:") {
					return ""
				}
				if name == "(*sync.Pool).Put" {
					return "put"
				}
				return "call:" + name
			},
			Expand: func(callee *ssa.Function, site ssa.CallInstruction) bool {
				return outermost(callee) == fn // the function's own closures (deferred blocks)
			},
		}
		// rootObj: the object a path value denotes — interface conversions stripped, a load from a
		// captured variable traced to the variable in the enclosing function, a variable assigned
		// once replaced by what was assigned (so that uses inside a deferred closure and uses in
		// the function body meet in the same value)
		var strip func(v ssa.Value) ssa.Value
		rootObj := func(a PathVal) ssa.Value {
			v, fr := strip(a.V), a.Fr
			for i := 0; i < 4; i++ {
				ld, ok := v.(*ssa.UnOp)
				if !ok {
					break
				}
				if fv, isFV := ld.X.(*ssa.FreeVar); isFV && fr != nil && fr.Site != nil {
					if mc, ok := fr.Site.Common().Value.(*ssa.MakeClosure); ok {
						for j, f := range fr.Fn.FreeVars {
							if f == fv && j < len(mc.Bindings) {
								if cell, isAlloc := mc.Bindings[j].(*ssa.Alloc); isAlloc {
									var stored ssa.Value
									cnt := 0
									if refs := cell.Referrers(); refs != nil {
										for _, r := range *refs {
											if st, isSt := r.(*ssa.Store); isSt && st.Addr == ssa.Value(cell) {
												stored, cnt = st.Val, cnt+1
											}
										}
									}
									if cnt == 1 {
										v, fr = strip(stored), fr.Parent
									} else {
										return cell
									}
								}
							}
						}
						continue
					}
				}
				break
			}
			return strip(singleStore(v))
		}
		strip = func(v ssa.Value) ssa.Value {
			for i := 0; i < 6; i++ {
				switch x := v.(type) {
				case *ssa.MakeInterface:
					v = x.X
					continue
				case *ssa.ChangeInterface:
					v = x.X
					continue
				case *ssa.ChangeType:
					v = x.X
					continue
				}
				break
			}
			return v
		}
		c.traceRule(rule, p.FuncKey(fn), fn, sp,
			"on every path nothing uses an object after it was put back into its sync.Pool",
			func(t *Trace) string {
				for i, it := range t.Items {
					if it.Label != "put" || len(it.Args) < 2 {
						continue // ("defer:put" is the registration, "put" the moment it runs)
					}
					obj := rootObj(it.Args[1])
					for _, later := range t.Items[i+1:] {
						if strings.HasPrefix(later.Label, "defer:") {
							continue
						}
						for _, a := range later.Args {
							if rootObj(a) == obj {
								return fmt.Sprintf("%s: %s uses the object after it was returned to the pool at %s: another goroutine may already have taken it from the pool — the stale call operates on (closes, resets, writes through) an object that now serves a different request", p.InstrPos(later.Instr), strings.TrimPrefix(strings.TrimPrefix(later.Label, "run:"), "call:"), p.InstrPos(it.Instr))
							}
						}
					}
				}
				return ""
			})
	}
	c.Pass(rule, "sync.Pool.Put call sites", "-", fmt.Sprintf("%d function(s) put objects back into a sync.Pool; each is judged on its own", n))
}
