package main

import "fmt"

// debugCB prints the projected breaker traces (rule view).
func debugCB(c *Ctx, name string) {
	fn := c.P.Fn("internal/circuitbreaker", "CircuitBreaker", name)
	sp := c.cbSpec(true)
	sp.P = c.P
	for i, t := range sp.Walk(fn) {
		fmt.Printf("--- %d exit=%d ret=%v\n    %s\n", i, t.Exit, t.Ret, t.String())
	}
}
