package plugins

// Reproductions (not part of any check): copy into internal/plugins of a scratch worktree.

import (
	"bytes"
	"compress/gzip"
	"io"
	"net/http"
	"net/http/httptest"
	"strings"
	"testing"

	"github.com/0xReLogic/Helios/internal/config"
)

func chain(t *testing.T, name string, cfg map[string]interface{}, base http.Handler) http.Handler {
	h, err := BuildChain(config.PluginsConfig{Enabled: true, Chain: []config.PluginConfig{{Name: name, Config: cfg}}}, base)
	if err != nil {
		t.Fatal(err)
	}
	return h
}

// F17 (C14): a bodiless 302 / 204 / 404 reaches the client as 200 through size_limit.
func TestReproF17BodilessStatusLost(t *testing.T) {
	for _, code := range []int{302, 204, 404} {
		h := chain(t, "size_limit", nil, http.HandlerFunc(func(w http.ResponseWriter, r *http.Request) {
			w.Header().Set("Location", "/x")
			w.WriteHeader(code)
		}))
		srv := httptest.NewServer(h)
		c := &http.Client{CheckRedirect: func(*http.Request, []*http.Request) error { return http.ErrUseLastResponse }}
		resp, err := c.Get(srv.URL)
		if err != nil {
			t.Fatal(err)
		}
		resp.Body.Close()
		srv.Close()
		if resp.StatusCode != code {
			t.Errorf("backend status %d reached the client as %d", code, resp.StatusCode)
		}
	}
}

var gzCfg = map[string]interface{}{"level": 5.0, "min_size": 10.0, "content_types": []interface{}{"text/plain"}}

// F18 (C15): over a real connection the compressed body is labelled identity with the stale length.
func TestReproF18GzipHeadersAfterCommit(t *testing.T) {
	body := strings.Repeat("hello world ", 400)
	h := chain(t, "gzip", gzCfg, http.HandlerFunc(func(w http.ResponseWriter, r *http.Request) {
		w.Header().Set("Content-Type", "text/plain")
		w.WriteHeader(200) // explicit WriteHeader, as httputil.ReverseProxy does
		_, _ = io.WriteString(w, body)
	}))
	srv := httptest.NewServer(h)
	defer srv.Close()
	req, _ := http.NewRequest("GET", srv.URL, nil)
	req.Header.Set("Accept-Encoding", "gzip")
	resp, err := http.DefaultTransport.RoundTrip(req)
	if err != nil {
		t.Fatal(err)
	}
	defer resp.Body.Close()
	raw, rerr := io.ReadAll(resp.Body)
	var got []byte
	if resp.Header.Get("Content-Encoding") == "gzip" {
		zr, err := gzip.NewReader(bytes.NewReader(raw))
		if err != nil {
			t.Fatal(err)
		}
		got, _ = io.ReadAll(zr)
	} else {
		got = raw
	}
	if string(got) != body {
		t.Fatalf("client decodes %d bytes (read error %v, Content-Encoding %q, Content-Length %q), backend sent %d", len(got), rerr, resp.Header.Get("Content-Encoding"), resp.Header.Get("Content-Length"), len(body))
	}
}

// F19 (C15): a response the backend already encoded is compressed a second time.
func TestReproF19AlreadyEncoded(t *testing.T) {
	var pre bytes.Buffer
	zw := gzip.NewWriter(&pre)
	_, _ = io.WriteString(zw, strings.Repeat("hello world ", 400))
	zw.Close()
	h := chain(t, "gzip", gzCfg, http.HandlerFunc(func(w http.ResponseWriter, r *http.Request) {
		w.Header().Set("Content-Type", "text/plain")
		w.Header().Set("Content-Encoding", "gzip")
		_, _ = w.Write(pre.Bytes())
	}))
	req := httptest.NewRequest("GET", "/", nil)
	req.Header.Set("Accept-Encoding", "gzip")
	rec := httptest.NewRecorder()
	h.ServeHTTP(rec, req)
	if !bytes.Equal(rec.Body.Bytes(), pre.Bytes()) {
		t.Fatalf("already-encoded body was altered (%d bytes in, %d bytes out)", pre.Len(), rec.Body.Len())
	}
}

// F20 (C15/C18): the shipped helios.yaml writes `level: 5`, which yaml decodes as int.
func TestReproF20GzipIntOptions(t *testing.T) {
	_, err := BuildChain(config.PluginsConfig{Enabled: true, Chain: []config.PluginConfig{{Name: "gzip", Config: map[string]interface{}{
		"level": 5, "min_size": 1024, "content_types": []interface{}{"text/html"}}}}}, http.NotFoundHandler())
	if err != nil {
		t.Fatalf("gzip options as YAML writes them are rejected: %v", err)
	}
}

// F23 (C15): an informational 1xx before the final status makes the gzip plugin lose the final status.
func TestReproF23GzipInformationalThenFinal(t *testing.T) {
	h := chain(t, "gzip", gzCfg, http.HandlerFunc(func(w http.ResponseWriter, r *http.Request) {
		w.Header().Set("Content-Type", "text/plain")
		w.WriteHeader(http.StatusEarlyHints)
		w.WriteHeader(http.StatusNotFound)
		_, _ = io.WriteString(w, strings.Repeat("not found ", 50))
	}))
	srv := httptest.NewServer(h)
	defer srv.Close()
	req, _ := http.NewRequest("GET", srv.URL, nil)
	req.Header.Set("Accept-Encoding", "gzip")
	resp, err := http.DefaultTransport.RoundTrip(req)
	if err != nil {
		t.Fatal(err)
	}
	resp.Body.Close()
	if resp.StatusCode != http.StatusNotFound {
		t.Fatalf("backend's final status 404 reached the client as %d", resp.StatusCode)
	}
}

// F24 (C15): once the 10MB buffering cap was exceeded, later small writes are buffered again and
// never delivered (Finish returns early when bufferExceeded is set).
func TestReproF24BytesLostAfterBufferCap(t *testing.T) {
	big := bytes.Repeat([]byte("x"), MaxCompressionBufferSize+1)
	tail := []byte("THE-END")
	h := chain(t, "gzip", gzCfg, http.HandlerFunc(func(w http.ResponseWriter, r *http.Request) {
		w.Header().Set("Content-Type", "text/plain")
		_, _ = w.Write(big)
		_, _ = w.Write(tail)
	}))
	req := httptest.NewRequest("GET", "/", nil)
	req.Header.Set("Accept-Encoding", "gzip")
	rec := httptest.NewRecorder()
	h.ServeHTTP(rec, req)
	if got, want := rec.Body.Len(), len(big)+len(tail); got != want {
		t.Fatalf("client received %d bytes, backend sent %d", got, want)
	}
}
