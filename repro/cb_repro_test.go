package circuitbreaker

// Reproductions (not part of any check): copy into internal/circuitbreaker of a scratch worktree.

import (
	"errors"
	"sync"
	"sync/atomic"
	"testing"
	"time"
)

// F10 (C07): more than max_requests trials are admitted when callers arrive concurrently.
func TestReproF10ConcurrentTrials(t *testing.T) {
	for round := 0; round < 200; round++ {
		cb := NewCircuitBreaker(Settings{MaxRequests: 1, FailureThreshold: 1, SuccessThreshold: 5, Timeout: 2 * time.Millisecond, Interval: time.Minute})
		_ = cb.Execute(func() error { return errors.New("boom") })
		time.Sleep(5 * time.Millisecond)
		var admitted int32
		var wg sync.WaitGroup
		var ready int32
		const n = 12 // spin barrier: needs n <= GOMAXPROCS so that all callers really run at once
		for i := 0; i < n; i++ {
			wg.Add(1)
			go func() {
				defer wg.Done()
				atomic.AddInt32(&ready, 1)
				for atomic.LoadInt32(&ready) < n {
				}
				_ = cb.Execute(func() error {
					atomic.AddInt32(&admitted, 1)
					time.Sleep(5 * time.Millisecond)
					return nil
				})
			}()
		}
		wg.Wait()
		if admitted > 1 {
			t.Fatalf("round %d: %d trial requests admitted with max_requests=1", round, admitted)
		}
	}
}

// F8 (C03/C08): a state-change callback that reads the breaker (as the load balancer's does)
// dead-locks the first transition.
func TestReproF8CallbackDeadlock(t *testing.T) {
	var cb *CircuitBreaker
	cb = NewCircuitBreaker(Settings{FailureThreshold: 1, Timeout: time.Minute, OnStateChange: func(string, State, State) { cb.Counts() }})
	done := make(chan struct{})
	go func() {
		_ = cb.Execute(func() error { return errors.New("boom") })
		close(done)
	}()
	select {
	case <-done:
	case <-time.After(2 * time.Second):
		t.Fatal("Execute never returned: callback re-entered the breaker's lock")
	}
}

// F11 (C08): an accepted configuration (max_requests 1 — also the default — with success_threshold 2)
// leaves the breaker half-open for ever after the first trip, although every request would succeed.
func TestReproF11HalfOpenForever(t *testing.T) {
	cb := NewCircuitBreaker(Settings{MaxRequests: 1, FailureThreshold: 1, SuccessThreshold: 2, Timeout: 10 * time.Millisecond, Interval: time.Minute})
	_ = cb.Execute(func() error { return errors.New("boom") })
	time.Sleep(30 * time.Millisecond)
	ok := 0
	for i := 0; i < 50; i++ {
		if cb.Execute(func() error { return nil }) == nil {
			ok++
		}
		time.Sleep(time.Millisecond)
	}
	if cb.State() != StateClosed {
		t.Fatalf("breaker still %v after 50 healthy requests (%d admitted)", cb.State(), ok)
	}
}
