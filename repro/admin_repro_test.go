package adminapi

// Reproductions (not part of any check): copy into internal/adminapi of a scratch worktree.

import (
	"net/http"
	"net/http/httptest"
	"testing"

	"github.com/0xReLogic/Helios/internal/config"
	"github.com/0xReLogic/Helios/internal/loadbalancer"
)

func reproMux(t *testing.T, allow, deny []string) http.Handler {
	cfg := &config.Config{
		Backends:     []config.BackendConfig{{Name: "a", Address: "http://127.0.0.1:1"}},
		LoadBalancer: config.LoadBalancerConfig{Strategy: "round_robin"},
		AdminAPI:     config.AdminAPIConfig{Enabled: true, IPAllowList: allow, IPDenyList: deny},
	}
	lb, err := loadbalancer.NewLoadBalancer(cfg)
	if err != nil {
		t.Fatal(err)
	}
	t.Cleanup(lb.Stop)
	return NewMux(lb, cfg, lb.GetMetricsCollector())
}

// F13 (C10): a forged X-Forwarded-For passes the allow list.
func TestReproF13ForgedHeaderPassesAllowList(t *testing.T) {
	h := reproMux(t, []string{"10.0.0.0/8"}, nil)
	req := httptest.NewRequest("GET", "/v1/backends", nil)
	req.RemoteAddr = "203.0.113.9:4444"
	req.Header.Set("X-Forwarded-For", "10.1.2.3")
	rec := httptest.NewRecorder()
	h.ServeHTTP(rec, req)
	if rec.Code != http.StatusForbidden {
		t.Fatalf("peer 203.0.113.9 with forged X-Forwarded-For got %d, want 403", rec.Code)
	}
}

// F12 (C10): a malformed list entry yields an unfiltered API.
func TestReproF12MalformedEntryFailsOpen(t *testing.T) {
	h := reproMux(t, []string{"10.0.0.0/8", "not-an-ip"}, nil)
	req := httptest.NewRequest("GET", "/v1/backends", nil)
	req.RemoteAddr = "203.0.113.9:4444"
	rec := httptest.NewRecorder()
	h.ServeHTTP(rec, req)
	if rec.Code == http.StatusOK {
		t.Fatalf("peer outside the allow list was served (%d) because one list entry is malformed", rec.Code)
	}
}
