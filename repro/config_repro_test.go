package config

import "testing"

// F20 (C18): the repository's own sample files do not load.
func TestReproShippedConfigsLoad(t *testing.T) {
	for _, f := range []string{"../../helios.yaml", "../../helios.docker.yaml"} {
		if _, err := LoadConfig(f); err != nil {
			t.Errorf("%s: %v", f, err)
		}
	}
}
