package loadbalancer

// Reproductions of defects found by the static checks (DESIGN.md §6).  Not part of any check:
// copy into internal/loadbalancer of a scratch worktree and run `go test -run Repro -race`.

import (
	"io"
	"net"
	"net/http"
	"net/http/httptest"
	"net/url"
	"strings"
	"sync"
	"testing"
	"time"

	"github.com/0xReLogic/Helios/internal/config"
)

func reproLB(t *testing.T, strategy string, addrs ...string) *LoadBalancer {
	t.Helper()
	cfg := &config.Config{
		LoadBalancer: config.LoadBalancerConfig{Strategy: strategy},
		HealthChecks: config.HealthChecksConfig{Passive: config.PassiveHealthCheckConfig{Enabled: true, UnhealthyThreshold: 1, UnhealthyTimeout: 1}},
	}
	for i, a := range addrs {
		cfg.Backends = append(cfg.Backends, config.BackendConfig{Name: string(rune('a' + i)), Address: a})
	}
	lb, err := NewLoadBalancer(cfg)
	if err != nil {
		t.Fatal(err)
	}
	t.Cleanup(lb.Stop)
	return lb
}

func okBackend(t *testing.T) *httptest.Server {
	s := httptest.NewServer(http.HandlerFunc(func(w http.ResponseWriter, r *http.Request) { _, _ = io.WriteString(w, "ok") }))
	t.Cleanup(s.Close)
	return s
}

// F3 (C02): least_connections — an idle ejected backend is the strict minimum on every retry, so the
// client gets 503 although another backend is healthy.
func TestReproF3LeastConnections503WhileHealthy(t *testing.T) {
	good := okBackend(t)
	lb := reproLB(t, "least_connections", "http://127.0.0.1:1", good.URL)
	bs := lb.strategy.GetBackends()
	lb.MarkBackendUnhealthy(bs[0], time.Minute)
	bs[1].IncrementConnections() // one request in flight on the healthy backend
	rec := httptest.NewRecorder()
	lb.ServeHTTP(rec, httptest.NewRequest("GET", "/", nil))
	if rec.Code != 200 {
		t.Fatalf("got %d although backend b is healthy", rec.Code)
	}
}

// F3 (C02): round_robin — 4 backends, 3 ejected: three consecutive picks can all be ejected ones.
func TestReproF3RoundRobin503WhileHealthy(t *testing.T) {
	good := okBackend(t)
	lb := reproLB(t, "round_robin", good.URL, "http://127.0.0.1:1", "http://127.0.0.1:2", "http://127.0.0.1:3")
	bs := lb.strategy.GetBackends()
	for _, b := range bs[1:] {
		lb.MarkBackendUnhealthy(b, time.Minute)
	}
	for i := 0; i < 8; i++ {
		rec := httptest.NewRecorder()
		lb.ServeHTTP(rec, httptest.NewRequest("GET", "/", nil))
		if rec.Code != 200 {
			t.Fatalf("request %d: got %d although backend a is healthy", i, rec.Code)
		}
	}
}

// F4 (C04): with active checks disabled, a backend ejected once under weighted_round_robin / ip_hash
// is never re-admitted after its unhealthy window.
func TestReproF4NeverRecovers(t *testing.T) {
	for _, s := range []string{"weighted_round_robin", "ip_hash", "ip_hash_consistent"} {
		good := okBackend(t)
		lb := reproLB(t, s, good.URL)
		b := lb.strategy.GetBackends()[0]
		lb.MarkBackendUnhealthy(b, 50*time.Millisecond)
		time.Sleep(120 * time.Millisecond)
		rec := httptest.NewRecorder()
		lb.ServeHTTP(rec, httptest.NewRequest("GET", "/", nil))
		if rec.Code != 200 {
			t.Errorf("%s: got %d after the unhealthy window elapsed", s, rec.Code)
		}
	}
}

// F5/F6/F7 (C12): data races — run with -race.
func TestReproRaces(t *testing.T) {
	good := okBackend(t)
	for _, s := range []string{"weighted_round_robin", "ip_hash", "ip_hash_consistent"} {
		lb := reproLB(t, s, good.URL, good.URL)
		var wg sync.WaitGroup
		for g := 0; g < 4; g++ {
			wg.Add(3)
			go func() {
				defer wg.Done()
				for i := 0; i < 50; i++ {
					lb.ServeHTTP(httptest.NewRecorder(), httptest.NewRequest("GET", "/", nil))
				}
			}()
			go func() {
				defer wg.Done()
				for i := 0; i < 50; i++ {
					b := lb.strategy.GetBackends()[i%2]
					lb.MarkBackendUnhealthy(b, time.Millisecond)
					lb.IsBackendHealthy(b)
				}
			}()
			go func() {
				defer wg.Done()
				for i := 0; i < 50; i++ {
					lb.ListBackends()
					lb.GetMetricsCollector().GetMetrics()
				}
			}()
		}
		wg.Wait()
	}
}

// F14 (C11): add(x), add(x), remove(x) leaves x listed and serving.
func TestReproF14DuplicateNameSurvivesRemove(t *testing.T) {
	good := okBackend(t)
	lb := reproLB(t, "round_robin", good.URL)
	_ = lb.AddBackend(config.BackendConfig{Name: "x", Address: good.URL})
	_ = lb.AddBackend(config.BackendConfig{Name: "x", Address: good.URL})
	lb.RemoveBackend("x")
	for _, b := range lb.ListBackends() {
		if b.Name == "x" {
			t.Fatalf("backend x still listed after remove returned")
		}
	}
}

// F15 (C13): a request answered 'no healthy backend' is counted in total but in no outcome counter.
func TestReproF15NoBackendNotCounted(t *testing.T) {
	lb := reproLB(t, "round_robin", "http://127.0.0.1:1")
	lb.MarkBackendUnhealthy(lb.strategy.GetBackends()[0], time.Minute)
	lb.ServeHTTP(httptest.NewRecorder(), httptest.NewRequest("GET", "/", nil))
	m := lb.GetMetricsCollector().GetMetrics()
	if m.TotalRequests != m.SuccessfulRequests+m.FailedRequests+m.RateLimitedRequests {
		t.Fatalf("total=%d success=%d failed=%d limited=%d", m.TotalRequests, m.SuccessfulRequests, m.FailedRequests, m.RateLimitedRequests)
	}
}

// F16 (C03/C13): a backend that dies mid-body makes ReverseProxy panic with ErrAbortHandler; the
// in-flight gauge is never decremented and no outcome is recorded.
func TestReproF16AbortLeaksGauge(t *testing.T) {
	bad := httptest.NewServer(http.HandlerFunc(func(w http.ResponseWriter, r *http.Request) {
		w.Header().Set("Content-Length", "100000")
		w.WriteHeader(200)
		_, _ = w.Write([]byte("partial"))
		w.(http.Flusher).Flush()
		c, _, _ := w.(http.Hijacker).Hijack()
		_ = c.Close()
	}))
	defer bad.Close()
	lb := reproLB(t, "round_robin", bad.URL)
	front := httptest.NewServer(lb)
	defer front.Close()
	resp, err := http.Get(front.URL)
	if err == nil {
		_, _ = io.Copy(io.Discard, resp.Body)
		resp.Body.Close()
	}
	time.Sleep(100 * time.Millisecond)
	b := lb.strategy.GetBackends()[0]
	if n := b.GetActiveConnections(); n != 0 {
		t.Errorf("in-flight gauge is %d after the aborted exchange", n)
	}
	m := lb.GetMetricsCollector().GetMetrics()
	if m.TotalRequests != m.SuccessfulRequests+m.FailedRequests+m.RateLimitedRequests {
		t.Errorf("total=%d success=%d failed=%d", m.TotalRequests, m.SuccessfulRequests, m.FailedRequests)
	}
}

// F1 (C01): a flushed server-sent event must reach the client before the response ends.
func TestReproF1FlushReachesClient(t *testing.T) {
	release := make(chan struct{})
	sse := httptest.NewServer(http.HandlerFunc(func(w http.ResponseWriter, r *http.Request) {
		w.Header().Set("Content-Type", "text/event-stream")
		_, _ = io.WriteString(w, "data: first\n\n")
		w.(http.Flusher).Flush()
		<-release
	}))
	lb := reproLB(t, "round_robin", sse.URL)
	front := httptest.NewServer(lb)
	defer func() { close(release); front.Close(); sse.Close() }()
	got := make(chan string, 1)
	go func() {
		resp, err := http.Get(front.URL)
		if err != nil {
			got <- "error: " + err.Error()
			return
		}
		defer resp.Body.Close()
		buf := make([]byte, 64)
		n, _ := resp.Body.Read(buf)
		got <- string(buf[:n])
	}()
	select {
	case s := <-got:
		if !strings.Contains(s, "first") {
			t.Fatalf("unexpected %q", s)
		}
	case <-time.After(1500 * time.Millisecond):
		t.Fatalf("flushed event did not reach the client while the response was still open")
	}
}

// F2 (C01): the backend must see the client's Accept-Encoding unchanged (absent stays absent).
func TestReproF2NoAcceptEncodingInjected(t *testing.T) {
	var seen string
	be := httptest.NewServer(http.HandlerFunc(func(w http.ResponseWriter, r *http.Request) { seen = r.Header.Get("Accept-Encoding") }))
	defer be.Close()
	lb := reproLB(t, "round_robin", be.URL)
	front := httptest.NewServer(lb)
	defer front.Close()
	u, _ := url.Parse(front.URL)
	c, err := net.Dial("tcp", u.Host)
	if err != nil {
		t.Fatal(err)
	}
	defer c.Close()
	_, _ = io.WriteString(c, "GET / HTTP/1.1\r\nHost: x\r\nConnection: close\r\n\r\n")
	_, _ = io.ReadAll(c)
	if seen != "" {
		t.Fatalf("backend received Accept-Encoding %q for a request that carried none", seen)
	}
}
